#!/venv/bin/python
"""usage: tools/benign_sweep.py [own|all] [pid ...]  -- apply every refactoring under benign/ to a scratch copy of /repo and run the checks on it
(own: the check of the property the refactoring was written for; all: every check).  Prints every run that is not silent."""
import os, sys, json, subprocess, tempfile, shutil, contextlib, io
sys.path.insert(0, os.path.join(os.path.dirname(os.path.abspath(__file__)), '..'))
from concurrent.futures import ProcessPoolExecutor
from vsa import selftest

PIDS = ['C%02d' % i for i in range(1, 21) if i != 19]


def job(args):
    bdir, pids = args
    d = tempfile.mkdtemp(prefix='vsa_bs_')
    out = []
    try:
        selftest.copy_py_tree('/repo', d)
        if not selftest._apply_patch(d, os.path.join(bdir, 'patch.diff')):
            return [(os.path.basename(bdir), '-', 'patch does not apply')]
        for pid in pids:
            with contextlib.redirect_stdout(io.StringIO()):
                base = BASE[pid]
                res = selftest.run_rules(pid, d)
            extra = [k for k in res['keys'] if k not in base]
            if extra or res['error'] or res['floor']:
                out.append((os.path.basename(bdir), pid, (extra[:2] or [res['error'] or res['floor']])))
    finally:
        shutil.rmtree(d, ignore_errors=True)
    return out


BASE = {}
if __name__ == '__main__':
    mode = sys.argv[1] if len(sys.argv) > 1 else 'own'
    only = sys.argv[2:]
    for pid in PIDS:
        with contextlib.redirect_stdout(io.StringIO()):
            BASE[pid] = selftest.run_rules(pid, '/repo')['keys']
    jobs = []
    for bd in selftest.benign_patches():
        own = os.path.basename(bd).split('-')[0]
        if only and own not in only:
            continue
        if mode == 'own':
            jobs.append((bd, [own]))
        else:
            for pid in PIDS:
                jobs.append((bd, [pid]))
    n = 0
    with ProcessPoolExecutor(max_workers=16) as ex:
        for r in ex.map(job, jobs):
            for x in r:
                n += 1
                print('NOT SILENT', x)
    print('runs: %d, not silent: %d' % (len(jobs), n))
