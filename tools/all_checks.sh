#!/bin/sh
# run every quick check on /repo (or $1) and print one line each; exit 1 if any is not clean
R=${1:-/repo}; rc=0
cd "$(dirname "$0")/.."
for p in C01 C02 C03 C04 C05 C06 C07 C08 C09 C10 C11 C12 C13 C14 C15 C16 C17 C18 C20; do
  out=$(./check $p --no-selftest --repo "$R" 2>&1); c=$?
  echo "$out" | grep -v conda | tail -1 | cut -c1-140
  [ $c -ne 0 ] && { rc=1; echo "$out" | grep "finding:\|ANALYSIS" -A1 | head -6; }
done
exit $rc
