#!/bin/sh
# usage: tools/eval_benign.sh <abs dir with patch.diff [demo.py]>  -- a behaviour-preserving refactoring: every check must stay silent
S=$1
D=$(mktemp -d /tmp/vsa_bn.XXXXXX)
git -C /repo worktree add -q --detach "$D/r" HEAD || exit 3
cd "$D/r"
if [ -f "$S/demo.py" ]; then PYTHONPATH="$D/r" /venv/bin/python -W ignore "$S/demo.py" > "$D/before.txt" 2>/dev/null; fi
git apply "$S/patch.diff" || { echo "PATCH DOES NOT APPLY"; git -C /repo worktree remove --force "$D/r"; rm -rf "$D"; exit 4; }
git diff --stat | tail -1
if [ -f "$S/demo.py" ]; then PYTHONPATH="$D/r" /venv/bin/python -W ignore "$S/demo.py" > "$D/after.txt" 2>/dev/null; if cmp -s "$D/before.txt" "$D/after.txt"; then echo "demo output identical ($(wc -l < $D/after.txt) lines)"; else echo "DEMO OUTPUT DIFFERS"; diff "$D/before.txt" "$D/after.txt" | head -5; fi; fi
if [ -z "$2" ]; then cd /verif && /venv/bin/python tools/baseline_check.py "$D/r" 2>&1 | tail -1; fi
cd /verif
bad=0
for p in C01 C02 C03 C04 C05 C06 C07 C08 C09 C10 C11 C12 C13 C14 C15 C16 C17 C18 C20; do
  out=$(./check $p --repo "$D/r" --evidence-dir "$D/ev" --no-selftest 2>&1)
  rc=$?
  if [ $rc -ne 0 ]; then bad=1; echo "FALSE-ALARM? $p rc=$rc"; echo "$out" | grep "finding:\|ANALYSIS-ERROR" -A1 | grep -v "^--" | head -8; fi
done
[ $bad -eq 0 ] && echo "all 19 checks silent"
git -C /repo worktree remove --force "$D/r"; rm -rf "$D"
