#!/bin/sh
# usage: tools/at_commit.sh <commit> <pid> [extra args]  -- run a check against a scratch worktree of /repo at <commit>
C=$1; P=$2; shift 2
D=$(mktemp -d /tmp/vsa_wt.XXXXXX)
git -C /repo worktree add -q --detach "$D/r" "$C" || exit 3
cd "$(dirname "$0")/.." && ./check "$P" --repo "$D/r" --evidence-dir "$D/ev" --no-selftest "$@"
rc=$?
git -C /repo worktree remove --force "$D/r"; rm -rf "$D"
exit $rc
