#!/usr/bin/env python3
"""Regenerates /verif/MANIFEST.json from the table below (kept in one place so that
checks / not_applicable stay consistent with what is implemented under vsa/rules)."""
import json, os
HERE = os.path.dirname(os.path.dirname(os.path.abspath(__file__)))

NOTE = ("Trusted base: CPython's ast module, the vsa front end (template expansion of exec'd operator templates, class "
        "model/MRO), the normal-form rewriter (vsa/normalize.py: helper inlining, literal-loop unrolling and the other equivalences of "
        "DESIGN.md 2.5; a rule without a verdict on the source as written is decided again on that equivalent form), and the "
        "frozen anchor/field tables in the rule module. The check decides the listed structural "
        "clauses, which are necessary conditions of the property; it does not decide the numerical behaviour itself.")

CLAIMS = {
 # pid: (technique, text, design_ref)
}

NA = {
 'C19': "Completeness/topological order of Network paths for every acyclic flowsheet and input order is the correctness of a "
        "graph-merging algorithm over runtime graph shapes; no structural clause is a meaningful necessary condition (DESIGN.md 4/C19).",
}

def load_claims():
    import importlib.util, glob, ast
    out = {}
    for p in sorted(glob.glob(os.path.join(HERE, 'vsa', 'rules', 'C*.py'))):
        pid = os.path.basename(p)[:-3]
        tree = ast.parse(open(p).read())
        meta = None
        for st in tree.body:
            if isinstance(st, ast.Assign) and getattr(st.targets[0], 'id', '') == 'MANIFEST':
                meta = ast.literal_eval(st.value)
        if meta:
            out[pid] = meta
    return out

def main():
    claims = load_claims()
    props = [json.loads(l) for l in open(os.path.join(HERE, 'properties.jsonl'))]
    checks = []
    na = []
    for p in props:
        pid = p['id']
        if pid in claims:
            m = claims[pid]
            checks.append({
                'property_id': pid,
                'quick_cmd': './check %s --tier quick' % pid,
                'thorough_cmd': './check %s --tier thorough' % pid,
                'evidence_file': 'evidence/%s.json' % pid,
                'replay_cmd_template': './check %s --replay {path}' % pid,
                'engine': 'vsa',
                'level_claimed': {'category': 'other', 'text': m['text'], 'design_ref': 'DESIGN.md section 4, ' + pid},
                'level_note': m.get('note', NOTE),
                'technique': m['technique'],
            })
        else:
            na.append({'property_id': pid, 'reason': NA.get(pid, 'no check registered in this revision (rules under construction; see DESIGN.md section 4 for the planned clauses)')})
    man = {
        'version': 1,
        'setup_cmd': 'true',
        'hooks': {
            'guard': 'THERMOSTEAM_VERIF',
            'enable': 'none needed: the checks are static analyses of the source tree; no hook code exists in /repo',
            'baseline_off_cmd': 'cd /repo && /venv/bin/python -m pytest -ra -q -p no:cacheprovider --timeout=900 --continue-on-collection-errors',
            'source_commits': [],
            'add_only': True,
        },
        'engines': [{
            'name': 'vsa', 'path': 'vsa/',
            'serves_properties': [c['property_id'] for c in checks],
            'kind_free_text': 'repository-specific static analyser on CPython ast: template expansion, class model, statement CFG, '
                              'path-wise symbolic execution over linear (Laurent) forms, effect/alias, quantity-kind and non-zero dataflow rules',
        }],
        'checks': checks,
        'not_applicable': na,
        'notes': 'Technique family: static analysis only. Every check parses /repo/thermosteam on each run; nothing from the repository is imported or executed. Exit 0 = clauses hold (KNOWN-FINDING lines for recorded defects), 1 = VIOLATION, 2 = ANALYSIS-ERROR (anchor vanished / analyser broken).',
    }
    with open(os.path.join(HERE, 'MANIFEST.json'), 'w') as f:
        json.dump(man, f, indent=1)
    print('checks:', [c['property_id'] for c in checks], 'n/a:', [n['property_id'] for n in na])

if __name__ == '__main__':
    main()
