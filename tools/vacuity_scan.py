#!/usr/bin/env python3
"""For every agent-written refactoring: per rule, the number of discharged instances on the refactored tree against the unchanged tree.
A rule that stays silent but examines fewer instances may have lost a premise (it would then also miss a defect there)."""
import sys, os, json, subprocess, tempfile, shutil, contextlib, io
sys.path.insert(0, os.path.dirname(os.path.dirname(os.path.abspath(__file__))))
from concurrent.futures import ProcessPoolExecutor
from vsa import engine, selftest
PIDS = ['C01', 'C02', 'C03', 'C04', 'C05', 'C06', 'C07', 'C08', 'C09', 'C10', 'C11', 'C12', 'C13', 'C14', 'C15', 'C16', 'C17', 'C18', 'C20']


def counts(repo):
    out = {}
    for pid in PIDS:
        try:
            with contextlib.redirect_stdout(io.StringIO()):
                ctx = engine.decide(pid, repo, 'quick', 0, None)
            for r in ctx.rules:
                out[r.id] = (len(r.instances), sorted({i['construct'] for i in r.instances}))
        except Exception as e:
            out[pid] = ('ERR', str(e)[:80])
    return out


def job(bdir):
    d = tempfile.mkdtemp(prefix='vsa_vac_')
    try:
        selftest.copy_py_tree('/repo', d)
        if not selftest._apply_patch(d, os.path.join(bdir, 'patch.diff')):
            return os.path.basename(bdir), None
        return os.path.basename(bdir), counts(d)
    finally:
        shutil.rmtree(d, ignore_errors=True)


if __name__ == '__main__':
    base = counts('/repo')
    dirs = selftest.benign_patches()
    if len(sys.argv) > 1:
        dirs = [d for d in dirs if any(a in d for a in sys.argv[1:])]
    with ProcessPoolExecutor(max_workers=16) as ex:
        for name, c in ex.map(job, dirs):
            if c is None:
                print(name, 'patch does not apply')
                continue
            for rid, (n, cons) in sorted(c.items()):
                b = base.get(rid)
                if b is None or n == 'ERR' or b[0] == 'ERR':
                    continue
                lost = sorted(set(b[1]) - set(cons))
                if n < b[0] or lost:
                    print('%s %s: %d -> %d instances; constructs no longer examined: %s' % (name, rid, b[0], n, lost[:4]))
