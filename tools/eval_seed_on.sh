#!/bin/sh
# usage: tools/eval_seed_on.sh <dir with patch.diff and demo.py> <benign dir whose patch.diff is the refactored baseline> [skip-tests]
# A seed written on top of a behaviour-preserving refactoring: the baseline patch is applied first, the demo must pass there,
# then the seed patch; the demo must fail, the pinned suite must stay green, and every check runs on the refactored+seeded tree.
S=$1; B=$2
D=$(mktemp -d /tmp/vsa_ev.XXXXXX)
git -C /repo worktree add -q --detach "$D/r" HEAD || exit 3
cd "$D/r"
git apply "$B/patch.diff" || { echo "BASE PATCH DOES NOT APPLY"; git -C /repo worktree remove --force "$D/r"; rm -rf "$D"; exit 4; }
echo "== demo on refactored baseline"; PYTHONPATH="$D/r" /venv/bin/python "$S/demo.py" >/dev/null 2>&1; echo "exit=$?"
git apply "$S/patch.diff" || { echo "PATCH DOES NOT APPLY"; git -C /repo worktree remove --force "$D/r"; rm -rf "$D"; exit 4; }
git diff --stat | tail -1
echo "== demo on refactored+seeded tree"; PYTHONPATH="$D/r" /venv/bin/python "$S/demo.py" >/dev/null 2>&1; echo "exit=$?"
if [ -z "$3" ]; then echo "== test suite on refactored+seeded tree"; cd /verif && /venv/bin/python tools/baseline_check.py "$D/r" 2>&1 | tail -3; fi
echo "== checks on refactored+seeded tree"
cd /verif
for p in C01 C02 C03 C04 C05 C06 C07 C08 C09 C10 C11 C12 C13 C14 C15 C16 C17 C18 C20; do
  out=$(./check $p --repo "$D/r" --evidence-dir "$D/ev" --no-selftest 2>&1)
  rc=$?
  if [ $rc -ne 0 ]; then echo "$p rc=$rc"; echo "$out" | grep "finding:\|ANALYSIS-ERROR" -A1 | grep -v "^--" | head -8; fi
done
git -C /repo worktree remove --force "$D/r"; rm -rf "$D"
