#!/bin/sh
# usage: tools/eval_seed.sh <dir with patch.diff and demo.py> [skip-tests]
S=$1
D=$(mktemp -d /tmp/vsa_ev.XXXXXX)
git -C /repo worktree add -q --detach "$D/r" HEAD || exit 3
cd "$D/r"
echo "== demo on clean tree"; PYTHONPATH="$D/r" /venv/bin/python "$S/demo.py" >/dev/null 2>&1; echo "exit=$?"
git apply "$S/patch.diff" || { echo "PATCH DOES NOT APPLY"; git -C /repo worktree remove --force "$D/r"; rm -rf "$D"; exit 4; }
git diff --stat | tail -3
echo "== demo on patched tree"; PYTHONPATH="$D/r" /venv/bin/python "$S/demo.py" >/dev/null 2>&1; echo "exit=$?"
if [ -z "$2" ]; then echo "== test suite on patched tree"; cd /verif && /venv/bin/python tools/baseline_check.py "$D/r" 2>&1 | tail -3; fi
echo "== checks on patched tree"
cd /verif
for p in C01 C02 C03 C04 C05 C06 C07 C08 C09 C10 C11 C12 C13 C14 C15 C16 C17 C18 C20; do
  out=$(./check $p --repo "$D/r" --evidence-dir "$D/ev" --no-selftest 2>&1)
  rc=$?
  if [ $rc -ne 0 ]; then echo "$p rc=$rc"; echo "$out" | grep "finding:\|ANALYSIS-ERROR" -A1 | grep -v "^--" | head -8; fi
done
git -C /repo worktree remove --force "$D/r"; rm -rf "$D"
