#!/usr/bin/env python3
"""tools/rn_try.py C01 [variant]  -- run one benign variant (default rename-locals) for one property and show the differences"""
import sys, io, contextlib
sys.path.insert(0, '/verif')
from vsa import selftest
pid = sys.argv[1]; kind = sys.argv[2] if len(sys.argv) > 2 else 'rename-locals'
with contextlib.redirect_stdout(io.StringIO()):
    base = selftest.run_rules(pid, '/repo')
r = selftest._benign_job((pid, kind, base['keys'], '/repo'))
print(pid, kind, 'SILENT' if r['silent'] else 'NOT SILENT')
for k in r['extra']: print('  extra  ', k)
for k in r['missing']: print('  missing', k)
if r['error']: print('  error', r['error'])
if r['floor']: print('  floor', r['floor'])
