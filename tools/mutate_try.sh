#!/bin/sh
# usage: tools/mutate_try.sh <pid> <file-rel> <python-re-pattern> <replacement>   -- apply one textual edit on a scratch copy and run the check
P=$1; F=$2; PAT=$3; REP=$4
D=$(mktemp -d /tmp/vsa_mut.XXXXXX)
mkdir -p "$D/r"; cp -r /repo/thermosteam "$D/r/thermosteam"
/venv/bin/python - "$D/r/$F" "$PAT" "$REP" <<'PY'
import sys,re
p,pat,rep=sys.argv[1:4]
s=open(p).read()
n=len(re.findall(pat,s))
s2=re.sub(pat,rep,s,count=1)
assert s2!=s, 'pattern did not match'
compile(s2,p,'exec')
open(p,'w').write(s2)
print('mutated (matches: %d)'%n)
PY
cd "$(dirname "$0")/.." && ./check "$P" --repo "$D/r" --evidence-dir "$D/ev" --no-selftest 2>&1 | grep -v conda | grep "finding\|^  *[a-z].*\|ANALYSIS\|^--" | grep -v "^rule" | head -12
rm -rf "$D"
