#!/venv/bin/python
"""usage: tools/run_mutants.py <pid> <substring> [<substring> ...]  -- run the mutants of <pid> whose name contains one of the substrings
through the selftest's mutant job (scratch copy, one textual edit, the property's rules) and print the outcome of each."""
import os, sys, contextlib, io
sys.path.insert(0, os.path.join(os.path.dirname(os.path.abspath(__file__)), '..'))
from concurrent.futures import ProcessPoolExecutor
from vsa import selftest
from vsa.mutants import MUTANTS

if __name__ == '__main__':
    pid, subs = sys.argv[1], sys.argv[2:]
    repo = os.environ.get('VSA_REPO', '/repo')
    with contextlib.redirect_stdout(io.StringIO()):
        base = selftest.run_rules(pid, repo)
    muts = [m for m in MUTANTS[pid] if any(s in m['name'] for s in subs)]
    with ProcessPoolExecutor(max_workers=min(12, max(1, len(muts)))) as ex:
        for r in ex.map(selftest._mutant_job, [(pid, m, base['keys'], repo) for m in muts]):
            print(r['name'], r['status'], (r.get('finding') or r.get('why') or r.get('detail') or '')[:160])
