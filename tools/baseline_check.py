#!/usr/bin/env python3
"""Run the pinned test command and compare with BASELINE.json's stable_pass list."""
import json, subprocess, sys, tempfile, os, xml.etree.ElementTree as ET
repo = sys.argv[1] if len(sys.argv) > 1 else '/repo'
base = json.load(open('/root/.vp/BASELINE.json'))
fd, xml = tempfile.mkstemp(suffix='.xml'); os.close(fd)
cmd = ['/venv/bin/python', '-m', 'pytest', '-ra', '-q', '-p', 'no:cacheprovider', '--timeout=900',
       '--continue-on-collection-errors', '--junitxml=' + xml]
r = subprocess.run(cmd, cwd=repo, capture_output=True, text=True)
passed = set()
for tc in ET.parse(xml).getroot().iter('testcase'):
    if not any(ch.tag in ('failure', 'error', 'skipped') for ch in tc):
        passed.add(tc.get('classname') + '::' + tc.get('name'))
os.unlink(xml)
missing = [t for t in base['stable_pass'] if t not in passed]
print('passed', len(passed), 'baseline', len(base['stable_pass']), 'missing', len(missing))
for m in missing: print('  MISSING', m)
sys.exit(1 if missing else 0)
