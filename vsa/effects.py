"""Effect summaries over the class model: which attributes of ``self`` a method
(transitively, through calls on ``self``) re-binds or mutates in place."""
from __future__ import annotations
import ast
from .frontend import walk_no_nested, src

MUTATORS = {'clear', 'update', 'append', 'extend', 'insert', 'pop', 'remove', 'add', 'discard',
            'setdefault', 'popitem', 'sort', 'reverse', 'difference_update', 'intersection_update',
            'symmetric_difference_update', 'copy_like', 'mix_from', 'separate_out'}


class Effects:
    def __init__(self, prog):
        self.prog = prog
        self._direct = {}
        self._trans = {}

    # -- direct effects of one function node
    def direct(self, f):
        k = id(f.node)
        if k in self._direct:
            return self._direct[k]
        rebinds, mutates, selfcalls = set(), set(), set()
        for n in walk_no_nested(f.node):
            if isinstance(n, ast.Attribute) and isinstance(n.value, ast.Name) and n.value.id == 'self':
                if isinstance(n.ctx, (ast.Store, ast.Del)):
                    rebinds.add(n.attr)
                par = getattr(n, '_parent', None)
                # self.a[...] = v   /  self.a += v  /  self.a.mutator()
                if isinstance(par, ast.Subscript) and isinstance(par.ctx, (ast.Store, ast.Del)) and par.value is n:
                    mutates.add(n.attr)
                if isinstance(par, ast.AugAssign) and par.target is n:
                    mutates.add(n.attr)
                if isinstance(par, ast.Attribute) and par.attr in MUTATORS and isinstance(getattr(par, '_parent', None), ast.Call) \
                        and par._parent.func is par:
                    mutates.add(n.attr)
            if isinstance(n, ast.Call) and isinstance(n.func, ast.Attribute) and isinstance(n.func.value, ast.Name) \
                    and n.func.value.id == 'self':
                selfcalls.add(n.func.attr)
            # property stores  self.phases = ...  count as calls to the setter
        r = (rebinds, mutates, selfcalls)
        self._direct[k] = r
        return r

    def _defs(self, cls, name):
        """all definitions `self.name` may resolve to for an object whose class is
        `cls` or a subclass: first hit in the MRO of cls and of each subclass; setters included."""
        out = []
        seen = set()
        for k in [cls] + self.prog.subclasses(cls):
            for d in (self.prog.find_method(k, name), self.prog.find_method(k, name, setter=True)):
                if d is not None and id(d) not in seen:
                    seen.add(id(d))
                    out.append(d)
        return out

    def rebinds(self, cls, name, _stack=None):
        """attributes of self that calling self.<name>() may re-bind (transitively)."""
        key = (cls.name, name)
        if key in self._trans:
            return self._trans[key]
        _stack = _stack or set()
        if key in _stack:
            return set()
        _stack = _stack | {key}
        out = set()
        for d in self._defs(cls, name):
            rb, mu, calls = self.direct(d)
            out |= rb
            for c in calls:
                out |= self.rebinds(cls, c, _stack)
            # property stores through self.<prop> = ...  : rb contains prop name; follow its setter
            for a in list(rb):
                for k in [cls] + self.prog.subclasses(cls):
                    s = self.prog.find_method(k, a, setter=True)
                    if s is not None and (cls.name, a) not in _stack:
                        out |= self.rebinds(cls, a, _stack)
                        break
        self._trans[key] = out
        return out
