"""Paired complement writes: every store into one side of a two-way split has a
partner store into the other side at the same index in the same straight-line
region, and the two right-hand sides sum to an admissible total (D-lin)."""
from __future__ import annotations
import re
from .lin import Form


class PairResult:
    def __init__(self):
        self.ok = {}      # key -> (stmt, fact)
        self.bad = {}     # key -> (stmt, tag, what)
        self.n_pairs = 0
        self.n_transfers = 0


def check_path(p, side_of, admissible, res, allow_unpaired=lambda e, side, idx: False):
    """p: symx State.  side_of(target_text) -> (side, index_text) or None.
    admissible(total_form, idx, state) -> None if fine else a reason string."""
    pending = {}    # idx -> (side, form, event)
    pend_aug = {}   # idx -> (side, op, form, event)
    mem = {}        # target text -> stored form (for reads of a just-written cell)

    def flush_unpaired(idx):
        if idx in pending:
            side, form, e = pending.pop(idx)
            if not allow_unpaired(e, side, idx):
                k = ('unpaired', e.stmt.lineno, getattr(e.node, 'col_offset', 0))
                res.bad[k] = (e.stmt, 'unpaired-%s' % side, 'store into the %s side at [%s] has no partner store into the other side' % (side, idx))

    for e in p.events:
        if e.kind == 'store':
            so = side_of(e.target)
            if so is None:
                continue
            side, idx = so
            val = e.value
            if mem and getattr(e.stmt, 'value', None) is not None:
                # only cells read syntactically in this statement are read *after* the earlier store
                direct = set()
                import ast as _ast
                for sub in _ast.walk(e.stmt.value):
                    if isinstance(sub, _ast.Subscript):
                        try:
                            direct.add('%s[%s]' % (p.lin._recv_text(sub.value), p.lin._slice_text(sub.slice)))
                        except Exception:
                            pass
                m2 = {k: v for k, v in mem.items() if k in direct}
                if m2:
                    val = val.subst(m2)
            mem[e.target] = val
            if idx in pending and pending[idx][0] != side:
                oside, oform, oe = pending.pop(idx)
                total = oform + val
                why = admissible(total, idx, p)
                res.n_pairs += 1
                k = ('pair', oe.stmt.lineno, e.stmt.lineno)
                if why is None:
                    res.ok.setdefault(k, (e.stmt, '%s[%s] + %s[%s] = %s' % (oside, idx, side, idx, total.pretty())))
                else:
                    res.bad[k] = (e.stmt, 'sum', 'the two sides written at [%s] sum to %s: %s' % (idx, total.pretty(), why))
            else:
                if idx in pending:
                    flush_unpaired(idx)
                pending[idx] = (side, val, e)
        elif e.kind == 'augstore':
            so = side_of(e.target)
            if so is None:
                continue
            side, idx = so
            mem.pop(e.target, None)
            if e.op not in ('Add', 'Sub'):
                k = ('aug', e.stmt.lineno)
                res.bad[k] = (e.stmt, 'scale-one-side', 'one side is rescaled in place (%s) without its partner' % e.op)
                continue
            signed = e.value if e.op == 'Add' else -e.value
            if idx in pend_aug and pend_aug[idx][0] != side:
                oside, oform, oe = pend_aug.pop(idx)
                res.n_transfers += 1
                k = ('transfer', oe.stmt.lineno, e.stmt.lineno)
                if (oform + signed).is_zero():
                    res.ok.setdefault(k, (e.stmt, 'transfer of %s between the sides at [%s]' % (e.value.pretty(), idx)))
                else:
                    res.bad[k] = (e.stmt, 'transfer', 'amount added to one side (%s) differs from the amount removed from the other (%s)'
                                  % (oform.pretty(), (-signed).pretty()))
            else:
                if idx in pend_aug:
                    oside, oform, oe = pend_aug.pop(idx)
                    res.bad[('aug', oe.stmt.lineno)] = (oe.stmt, 'transfer-unpaired', 'in-place change of one side has no opposite change of the other side')
                pend_aug[idx] = (side, signed, e)
        elif e.kind in ('cond', 'loop', 'endloop'):
            # a branch between the two stores of a pair: still the same path, keep pending
            pass
    for idx in list(pending):
        flush_unpaired(idx)
    for idx, (side, form, e) in pend_aug.items():
        res.bad[('aug', e.stmt.lineno)] = (e.stmt, 'transfer-unpaired', 'in-place change of one side has no opposite change of the other side')


def report(res, rule, cons, f):
    for k, (stmt, tag, what) in sorted(res.bad.items(), key=lambda kv: str(kv[0])):
        rule.fail(cons, tag, what, f, stmt)
    for k, (stmt, fact) in sorted(res.ok.items(), key=lambda kv: str(kv[0])):
        if k not in res.bad:
            rule.ok(cons, fact, f, stmt)
