"""D-nz: non-zero dataflow.  Decides, for every store into a dict that is (or
becomes) the ``dct`` of a sparse vector, whether the stored value is provably
non-zero (NZ), non-zero unless an IEEE product/quotient under/overflows (NZ*),
or possibly zero (MZ)."""
from __future__ import annotations
import ast
from .cfg import CFG, header_exprs
from .frontend import src

NZ, NZS, MZ = 'NZ', 'NZ*', 'MZ'
ORDER = {NZ: 0, NZS: 1, MZ: 2}


def worst(*gs):
    return max(gs, key=lambda g: ORDER[g])


class Site:
    def __init__(self, node, stmt, grade, what, expr):
        self.node, self.stmt, self.grade, self.what, self.expr = node, stmt, grade, what, expr


class NZAnalysis:
    def __init__(self, fn_node, dict_attrs=('dct',), extra_dict_names=()):
        self.fn = fn_node
        self.dict_attrs = set(dict_attrs)
        self.cfg = CFG(fn_node)
        self.sites = []
        self.extra = set(extra_dict_names)
        a = fn_node.args
        self.params = {x.arg for x in a.posonlyargs + a.args + a.kwonlyargs}

    # ---- classification of expressions
    def is_dict(self, e, st):
        if isinstance(e, ast.Attribute) and e.attr in self.dict_attrs:
            return True
        if isinstance(e, ast.Name):
            return e.id in st['dicts']
        if isinstance(e, ast.Call) and isinstance(e.func, ast.Attribute) and e.func.attr == 'copy' and not e.args:
            return self.is_dict(e.func.value, st)
        return False

    def grade(self, e, st):
        nz = st['nz']
        if isinstance(e, ast.Constant):
            if isinstance(e.value, (int, float)) and not isinstance(e.value, bool):
                return NZ if e.value != 0 else MZ
            if e.value is True:
                return NZ
            return MZ
        if isinstance(e, ast.Name):
            return nz.get(e.id, MZ)
        if isinstance(e, ast.NamedExpr):
            return self.grade(e.value, st)
        if isinstance(e, ast.UnaryOp) and isinstance(e.op, (ast.USub, ast.UAdd)):
            return self.grade(e.operand, st)
        if isinstance(e, ast.Call):
            fn = src(e.func)
            fn = st.get('falias', {}).get(fn, fn)
            if fn in ('float', 'abs', 'bool') and len(e.args) == 1:
                return self.grade(e.args[0], st)
            if isinstance(e.func, ast.Attribute) and e.func.attr == 'pop' and self.is_dict(e.func.value, st) and len(e.args) == 1:
                return NZ
            return MZ
        if isinstance(e, ast.Subscript):
            if self.is_dict(e.value, st):
                return NZ           # inductive hypothesis: stored entries are non-zero
            return MZ
        if isinstance(e, ast.BinOp) and isinstance(e.op, ast.Mult):
            a, b = self.grade(e.left, st), self.grade(e.right, st)
            if MZ in (a, b):
                return MZ
            return NZS
        if isinstance(e, ast.BinOp) and isinstance(e.op, ast.Div):
            # a quotient of a non-zero numerator is zero only through underflow (or an infinite divisor)
            return NZS if self.grade(e.left, st) != MZ else MZ
        if isinstance(e, ast.IfExp):
            return worst(self.grade(e.body, st), self.grade(e.orelse, st))
        return MZ

    # ---- transfer
    def _bind_target(self, t, g, st, is_dict=False):
        if isinstance(t, ast.Name):
            if g == MZ:
                st['nz'].pop(t.id, None)
            else:
                st['nz'][t.id] = g
            if is_dict:
                st['dicts'].add(t.id)
            else:
                st['dicts'].discard(t.id)
        elif isinstance(t, (ast.Tuple, ast.List)):
            for x in t.elts:
                self._bind_target(x, MZ, st)

    def _comp_sites(self, node, st, stmt, sink_desc):
        """dict / set comprehension or display that becomes sparse storage"""
        if isinstance(node, ast.IfExp):
            a = {'nz': dict(st['nz']), 'dicts': set(st['dicts'])}
            b = {'nz': dict(st['nz']), 'dicts': set(st['dicts'])}
            self._assume(node.test, True, a)
            self._assume(node.test, False, b)
            r1 = self._comp_sites(node.body, a, stmt, sink_desc)
            r2 = self._comp_sites(node.orelse, b, stmt, sink_desc)
            return r1 or r2
        if isinstance(node, ast.Call) and src(node.func) == 'dict.fromkeys' and len(node.args) == 2 and not node.keywords:
            g = self.grade(node.args[1], st)
            self.sites.append(Site(node.args[1], stmt, g, 'dict.fromkeys value (%s)' % sink_desc, src(node.args[1])))
            return True
        if isinstance(node, ast.Dict):
            for v in node.values:
                g = self.grade(v, st)
                self.sites.append(Site(v, stmt, g, 'dict display value (%s)' % sink_desc, src(v)))
            return True
        if isinstance(node, ast.DictComp):
            loc = {'nz': dict(st['nz']), 'dicts': set(st['dicts'])}
            for gen in node.generators:
                self._bind_loop(gen.target, gen.iter, loc)
                for cond in gen.ifs:
                    self._assume(cond, True, loc)
            g = self.grade(node.value, loc)
            self.sites.append(Site(node.value, stmt, g, 'dict comprehension value (%s)' % sink_desc, src(node.value)))
            return True
        return False

    def _bind_loop(self, target, it, st):
        # for i, j in D.items()  -> j NZ ;  for i in D -> nothing ;  enumerate(x) -> MZ
        if isinstance(it, ast.Call) and isinstance(it.func, ast.Attribute) and it.func.attr == 'items' \
                and self.is_dict(it.func.value, st) and isinstance(target, ast.Tuple) and len(target.elts) == 2:
            self._bind_target(target.elts[0], MZ, st)
            self._bind_target(target.elts[1], NZ, st)
        elif isinstance(it, ast.Call) and isinstance(it.func, ast.Attribute) and it.func.attr == 'values' \
                and self.is_dict(it.func.value, st):
            self._bind_target(target, NZ, st)
        else:
            self._bind_target(target, MZ, st)
            for x in ast.walk(target):
                if isinstance(x, ast.Name):
                    st['nz'].pop(x.id, None)

    def _assume(self, test, taken, st):
        if isinstance(test, ast.Name):
            if taken:
                st['nz'][test.id] = worst(st['nz'].get(test.id, NZ), NZ) if test.id in st['nz'] else NZ
        elif isinstance(test, ast.NamedExpr) and isinstance(test.target, ast.Name):
            g = self.grade(test.value, st)
            if taken:
                st['nz'][test.target.id] = NZ if g != NZS else NZ
            else:
                st['nz'].pop(test.target.id, None)
        elif isinstance(test, ast.UnaryOp) and isinstance(test.op, ast.Not):
            self._assume(test.operand, not taken, st)
        elif isinstance(test, ast.BoolOp):
            if isinstance(test.op, ast.And) and taken:
                for v in test.values:
                    self._assume(v, True, st)
            elif isinstance(test.op, ast.Or) and not taken:
                for v in test.values:
                    self._assume(v, False, st)
        elif isinstance(test, ast.Compare) and len(test.ops) == 1 and isinstance(test.left, ast.Name) \
                and isinstance(test.comparators[0], ast.Constant) and test.comparators[0].value in (0, 0.0):
            op = test.ops[0]
            if (isinstance(op, ast.NotEq) and taken) or (isinstance(op, ast.Eq) and not taken) \
                    or (isinstance(op, (ast.Gt, ast.Lt)) and taken):
                st['nz'][test.left.id] = NZ

    def _walrus(self, expr, st):
        for n in ast.walk(expr):
            if isinstance(n, ast.NamedExpr) and isinstance(n.target, ast.Name):
                self._bind_target(n.target, self.grade(n.value, st), st)

    def _store_site(self, tgt, value_node, st, stmt, aug=None):
        """tgt is a Subscript store whose container may be sparse storage"""
        if not self.is_dict(tgt.value, st):
            return
        if aug is None:
            g = self.grade(value_node, st)
            what = 'item store %s = %s' % (src(tgt), src(value_node))
        else:
            if isinstance(aug, ast.Div):
                g = NZS
            elif isinstance(aug, ast.Mult):
                g = worst(NZS, self.grade(value_node, st)) if self.grade(value_node, st) != MZ else MZ
            else:
                g = MZ
            what = 'in-place item update %s %s= %s' % (src(tgt), type(aug).__name__, src(value_node))
        self.sites.append(Site(tgt, stmt, g, what, src(value_node)))

    def transfer(self, nd, st):
        a = nd.ast
        if nd.kind in ('stmt', 'return') and isinstance(a, ast.AST):
            for n in ast.walk(a):
                if isinstance(n, ast.Call) and isinstance(n.func, ast.Attribute) and n.func.attr in ('from_dict',) and n.args:
                    self._comp_sites(n.args[0], st, a, 'from_dict()')
        if nd.kind == 'for':
            self._walrus(a.iter, st)
            self._bind_loop(a.target, a.iter, st)
            return
        if nd.kind in ('test', 'with', 'except', 'entry', 'exit', 'raise', 'try'):
            if nd.kind == 'test' and not isinstance(a, ast.Match):
                self._walrus(a.test, st)
            return
        if isinstance(a, ast.Assign):
            self._walrus(a.value, st)
            v = a.value
            if isinstance(v, ast.Name) and v.id in ('abs', 'float', 'bool'):
                for t in a.targets:
                    if isinstance(t, ast.Name):
                        st.setdefault('falias', {})[t.id] = v.id
            isd = self.is_dict(v, st) or isinstance(v, (ast.Dict, ast.DictComp))
            # value expressions that become sparse storage
            for t in a.targets:
                if isinstance(t, ast.Subscript):
                    self._store_site(t, v, st, a)
                elif isinstance(t, ast.Attribute) and t.attr in self.dict_attrs:
                    if not self._comp_sites(v, st, a, 'assigned to .%s' % t.attr):
                        if isinstance(v, ast.Name) and v.id in self.params:
                            self.sites.append(Site(v, a, NZ, 'storage handed in by the caller through parameter %r (checked at the call sites)' % v.id, src(v)))
                        elif not (self.is_dict(v, st) or (isinstance(v, ast.Name) and v.id in st['dicts'])
                                or isinstance(v, ast.Call)):
                            self.sites.append(Site(v, a, MZ, 'storage re-bound to %s' % src(v), src(v)))
            if isinstance(v, (ast.Dict, ast.DictComp)):
                self._comp_sites(v, st, a, 'new sparse dict')
            g = self.grade(v, st)
            for t in a.targets:
                if isinstance(t, (ast.Name, ast.Tuple, ast.List)):
                    if isinstance(t, ast.Tuple) and isinstance(v, ast.Tuple) and len(t.elts) == len(v.elts):
                        gs = [self.grade(x, st) for x in v.elts]
                        for x, gx in zip(t.elts, gs):
                            self._bind_target(x, gx, st)
                    else:
                        self._bind_target(t, g, st, is_dict=isd)
            return
        if isinstance(a, ast.AugAssign):
            if isinstance(a.target, ast.Name):
                self._bind_target(a.target, MZ if not isinstance(a.op, (ast.Mult, ast.Div)) else
                                  (NZS if self.grade(a.target, st) != MZ and self.grade(a.value, st) != MZ else MZ), st)
            elif isinstance(a.target, ast.Subscript):
                self._store_site(a.target, a.value, st, a, aug=a.op)
            return
        if isinstance(a, ast.Expr) and isinstance(a.value, ast.Call):
            c = a.value
            self._walrus(c, st)
            if isinstance(c.func, ast.Attribute) and c.func.attr == 'update' and self.is_dict(c.func.value, st) and c.args:
                arg = c.args[0]
                if self.is_dict(arg, st):
                    self.sites.append(Site(c, a, NZ, 'update() from another sparse dict %s' % src(arg), src(arg)))
                elif not self._comp_sites(arg, st, a, 'update()'):
                    self.sites.append(Site(c, a, MZ, 'update() from %s' % src(arg), src(arg)))
            return
        if isinstance(a, ast.Return) and a.value is not None:
            self._walrus(a.value, st)

    def run(self):
        cfg = self.cfg
        init = {'nz': {}, 'dicts': set(self.extra), 'falias': {}}
        IN = {cfg.entry.id: init}
        work = [cfg.entry]
        OUT = {}
        order = 0
        iters = 0
        while work and iters < 20000:
            iters += 1
            nd = work.pop(0)
            st = IN.get(nd.id)
            if st is None:
                continue
            cur = {'nz': dict(st['nz']), 'dicts': set(st['dicts']), 'falias': dict(st.get('falias', {}))}
            saved_sites = self.sites
            self.sites = []
            self.transfer(nd, cur)
            self.sites = saved_sites
            for s, label in nd.succ:
                out = {'nz': dict(cur['nz']), 'dicts': set(cur['dicts']), 'falias': dict(cur.get('falias', {}))}
                if nd.kind == 'test' and label in (True, False) and not isinstance(nd.ast, ast.Match):
                    self._assume(nd.ast.test, label, out)
                old = IN.get(s.id)
                if old is None:
                    IN[s.id] = out
                    work.append(s)
                else:
                    nz = {}
                    for k in old['nz']:
                        if k in out['nz']:
                            nz[k] = worst(old['nz'][k], out['nz'][k])
                    dicts = old['dicts'] & out['dicts']
                    if nz != old['nz'] or dicts != old['dicts']:
                        IN[s.id] = {'nz': nz, 'dicts': dicts, 'falias': dict(old.get('falias', {}))}
                        work.append(s)
        # final pass: collect sites with the fixpoint states
        self.sites = []
        for nd in cfg.nodes:
            st = IN.get(nd.id)
            if st is None:
                continue
            cur = {'nz': dict(st['nz']), 'dicts': set(st['dicts']), 'falias': dict(st.get('falias', {}))}
            self.transfer(nd, cur)
            # comprehensions / displays inside test headers etc. are rare; handled in transfer for stmts
        return self.sites
