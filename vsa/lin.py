"""D-lin: symbolic Laurent forms.

A Form is  sum_i c_i * prod_j atom_j ** e_ij  with rational c_i and integer
e_ij.  Atoms are opaque strings (canonical text of a sub-expression after
substituting the local environment).  Equality of forms is equality of the
coefficient tables -- a decision procedure, not a solver.
"""
from __future__ import annotations
import ast
from fractions import Fraction
from .frontend import norm_dump, src


class Form:
    __slots__ = ('t',)

    def __init__(self, t=None):
        # t: dict  monomial(tuple of (atom, exp) sorted) -> Fraction
        self.t = {k: v for k, v in (t or {}).items() if v != 0}

    # constructors
    @staticmethod
    def const(c):
        return Form({(): Fraction(c)}) if c != 0 else Form()

    @staticmethod
    def atom(name):
        return Form({((name, 1),): Fraction(1)})

    def is_zero(self):
        return not self.t

    def is_const(self):
        return all(k == () for k in self.t)

    def const_value(self):
        return self.t.get((), Fraction(0)) if self.is_const() else None

    def is_monomial(self):
        return len(self.t) == 1

    def __add__(self, o):
        t = dict(self.t)
        for k, v in o.t.items():
            t[k] = t.get(k, 0) + v
        return Form(t)

    def __neg__(self):
        return Form({k: -v for k, v in self.t.items()})

    def __sub__(self, o):
        return self + (-o)

    def __mul__(self, o):
        t = {}
        for k1, v1 in self.t.items():
            for k2, v2 in o.t.items():
                k = _mono_mul(k1, k2)
                t[k] = t.get(k, 0) + v1 * v2
        return Form(t)

    def inv(self):
        """1/self -- only for a monomial"""
        if not self.is_monomial():
            return None
        (k, v), = self.t.items()
        return Form({tuple((a, -e) for a, e in k): 1 / v})

    def __eq__(self, o):
        return isinstance(o, Form) and self.t == o.t

    def __hash__(self):
        return hash(self.key())

    def key(self):
        return repr(sorted((k, str(v)) for k, v in self.t.items()))

    def atoms(self):
        s = set()
        for k in self.t:
            for a, e in k:
                s.add(a)
        return s

    def coeff(self, *atoms):
        """coefficient of the monomial that is the product of the given atoms (exp 1)"""
        k = tuple(sorted((a, 1) for a in atoms))
        return self.t.get(k, Fraction(0))

    def terms_with(self, atom):
        return Form({k: v for k, v in self.t.items() if any(a == atom for a, e in k)})

    def terms_without(self, atom):
        return Form({k: v for k, v in self.t.items() if not any(a == atom for a, e in k)})

    def subst(self, mapping):
        """replace atoms by Forms"""
        out = Form()
        for k, v in self.t.items():
            term = Form.const(v)
            for a, e in k:
                f = mapping.get(a)
                if f is None:
                    f = Form.atom(a)
                if e >= 0:
                    for _ in range(e):
                        term = term * f
                else:
                    fi = f.inv()
                    if fi is None:
                        fi = Form.atom('(1/(%s))' % f.pretty())
                    for _ in range(-e):
                        term = term * fi
            out = out + term
        return out

    def pretty(self):
        if not self.t:
            return '0'
        parts = []
        for k, v in sorted(self.t.items(), key=lambda kv: repr(kv[0])):
            m = '*'.join(a if e == 1 else '%s**%d' % (a, e) for a, e in k)
            if not m:
                parts.append(str(v))
            elif v == 1:
                parts.append(m)
            elif v == -1:
                parts.append('-' + m)
            else:
                parts.append('%s*%s' % (v, m))
        return ' + '.join(parts).replace('+ -', '- ')

    __repr__ = pretty


def _mono_mul(k1, k2):
    d = dict(k1)
    for a, e in k2:
        d[a] = d.get(a, 0) + e
    return tuple(sorted((a, e) for a, e in d.items() if e != 0))


_CMP = {'Eq': '==', 'NotEq': '!=', 'Lt': '<', 'LtE': '<=', 'Gt': '>', 'GtE': '>=', 'Is': 'is', 'IsNot': 'is not', 'In': 'in', 'NotIn': 'not in'}


class Lin:
    """Expression -> Form translator with an SSA environment.

    env maps local names to Forms.  `call_hook(node, lin)` may return a Form
    for a Call node (axioms: integrals, log, sum ...); returning None makes
    the call an opaque atom whose text is rebuilt from normalised arguments.
    """

    def __init__(self, env=None, call_hook=None, attr_hook=None, consts=None, decide=None):
        self.decide = decide
        self.env = dict(env or {})
        self.call_hook = call_hook
        self.attr_hook = attr_hook
        self.consts = consts or {}

    def copy(self):
        return Lin(self.env, self.call_hook, self.attr_hook, self.consts, self.decide)

    # --- canonical text of an expression under env
    def text(self, node):
        f = self.form(node)
        return f.pretty()

    def form(self, node) -> Form:
        if isinstance(node, ast.Constant):
            v = node.value
            if isinstance(v, bool):
                return Form.const(int(v))
            if isinstance(v, int):
                return Form.const(v)
            if isinstance(v, float):
                return Form.const(Fraction(repr(v))) if v == v and abs(v) != float('inf') else Form.atom(repr(v))
            return Form.atom(repr(v))
        if isinstance(node, ast.Name):
            if node.id in self.env:
                return self.env[node.id]
            if node.id in self.consts:
                return self.consts[node.id]
            return Form.atom(node.id)
        if isinstance(node, ast.UnaryOp):
            if isinstance(node.op, ast.USub):
                return -self.form(node.operand)
            if isinstance(node.op, ast.UAdd):
                return self.form(node.operand)
            if isinstance(node.op, ast.Not):
                return Form.atom('(not %s)' % self.text(node.operand))
            return Form.atom('(%s %s)' % (type(node.op).__name__, self.text(node.operand)))
        if isinstance(node, ast.BinOp):
            a = self.form(node.left)
            b = self.form(node.right)
            op = node.op
            if isinstance(op, ast.Add):
                return a + b
            if isinstance(op, ast.Sub):
                return a - b
            if isinstance(op, (ast.Mult, ast.MatMult)) and isinstance(op, ast.Mult):
                return a * b
            if isinstance(op, ast.Div):
                bi = b.inv()
                if bi is not None:
                    return a * bi
                return a * Form({((('(%s)' % b.pretty()), -1),): Fraction(1)})
            if isinstance(op, ast.Pow):
                c = b.const_value()
                if c is not None and c.denominator == 1 and -4 <= c <= 4:
                    n = int(c)
                    base = a if n >= 0 else a.inv()
                    if base is not None:
                        out = Form.const(1)
                        for _ in range(abs(n)):
                            out = out * base
                        return out
            return Form.atom('(%s %s %s)' % (a.pretty(), type(op).__name__, b.pretty()))
        if isinstance(node, ast.Call):
            if self.call_hook is not None:
                r = self.call_hook(node, self)
                if r is not None:
                    return r
            fn = self._callee_text(node.func)
            args = [self.text(a.value if isinstance(a, ast.Starred) else a) for a in node.args]
            args += ['%s=%s' % (k.arg, self.text(k.value)) for k in node.keywords]
            return Form.atom('%s(%s)' % (fn, ', '.join(args)))
        if isinstance(node, ast.Attribute):
            if self.attr_hook is not None:
                r = self.attr_hook(node, self)
                if r is not None:
                    return r
            return Form.atom('%s.%s' % (self._recv_text(node.value), node.attr))
        if isinstance(node, ast.Subscript):
            return Form.atom('%s[%s]' % (self._recv_text(node.value), self._slice_text(node.slice)))
        if isinstance(node, ast.Compare):
            parts = [self.text(node.left)]
            for op, c in zip(node.ops, node.comparators):
                parts.append(_CMP.get(type(op).__name__, type(op).__name__))
                parts.append(self.text(c))
            return Form.atom('(%s)' % ' '.join(parts))
        if isinstance(node, ast.BoolOp):
            j = ' and ' if isinstance(node.op, ast.And) else ' or '
            return Form.atom('(%s)' % j.join(self.text(v) for v in node.values))
        if isinstance(node, ast.UnaryOp) and isinstance(node.op, ast.Not):
            return Form.atom('(not %s)' % self.text(node.operand))
        if isinstance(node, ast.IfExp):
            if self.decide is not None:
                d = self.decide(node.test, self)
                if d is True:
                    return self.form(node.body)
                if d is False:
                    return self.form(node.orelse)
            return Form.atom('(%s if %s else %s)' % (self.text(node.body), self.text(node.test), self.text(node.orelse)))
        if isinstance(node, ast.NamedExpr):
            return self.form(node.value)
        if isinstance(node, (ast.Tuple, ast.List)):
            return Form.atom('[%s]' % ', '.join(self.text(e) for e in node.elts))
        return Form.atom('<' + src(node) + '>')

    def _recv_text(self, node):
        """text of a receiver: names substituted only if env maps them to a single atom"""
        if isinstance(node, ast.Name):
            f = self.env.get(node.id)
            if f is not None:
                return '(%s)' % f.pretty() if len(f.t) != 1 or not _single_atom(f) else _single_atom(f)
            return node.id
        if isinstance(node, ast.Attribute):
            return '%s.%s' % (self._recv_text(node.value), node.attr)
        if isinstance(node, ast.Subscript):
            return '%s[%s]' % (self._recv_text(node.value), self._slice_text(node.slice))
        return '(%s)' % self.text(node)

    def _callee_text(self, node):
        if isinstance(node, ast.Attribute):
            return '%s.%s' % (self._recv_text(node.value), node.attr)
        if isinstance(node, ast.Name):
            f = self.env.get(node.id)
            if f is not None:
                a = _single_atom(f)
                return a if a is not None else '(%s)' % f.pretty()
            return node.id
        if isinstance(node, ast.Subscript):
            return self._recv_text(node)
        return '(%s)' % self.text(node)

    def _slice_text(self, node):
        if isinstance(node, ast.Slice):
            return ':'.join('' if p is None else self.text(p) for p in (node.lower, node.upper, node.step))
        if isinstance(node, ast.Tuple):
            return ', '.join(self._slice_text(e) for e in node.elts)
        return self.text(node)

    # --- straight-line execution
    def assign(self, target, value_node=None, value_form=None):
        f = value_form if value_form is not None else self.form(value_node)
        if isinstance(target, ast.Name):
            self.env[target.id] = f
            return True
        return False

    def exec_stmt(self, st):
        """update env for simple assignments to local names; unknown writes
        invalidate the written name.  Returns False for unsupported stmts."""
        if isinstance(st, ast.Assign):
            if len(st.targets) == 1 and isinstance(st.targets[0], ast.Tuple) \
                    and isinstance(st.value, ast.Tuple) and len(st.targets[0].elts) == len(st.value.elts):
                forms = [self.form(v) for v in st.value.elts]
                for t, f in zip(st.targets[0].elts, forms):
                    if isinstance(t, ast.Name):
                        self.env[t.id] = f
                return True
            f = self.form(st.value)
            for t in st.targets:
                if isinstance(t, ast.Name):
                    self.env[t.id] = f
                elif isinstance(t, ast.Tuple):
                    for i, e in enumerate(t.elts):
                        if isinstance(e, ast.Name):
                            self.env[e.id] = Form.atom('%s[%d]' % ('(%s)' % f.pretty(), i))
            return True
        if isinstance(st, ast.AugAssign) and isinstance(st.target, ast.Name):
            cur = self.form(st.target)
            v = self.form(st.value)
            op = st.op
            if isinstance(op, ast.Add):
                self.env[st.target.id] = cur + v
            elif isinstance(op, ast.Sub):
                self.env[st.target.id] = cur - v
            elif isinstance(op, ast.Mult):
                self.env[st.target.id] = cur * v
            elif isinstance(op, ast.Div):
                vi = v.inv()
                self.env[st.target.id] = cur * vi if vi is not None else Form.atom('(%s / %s)' % (cur.pretty(), v.pretty()))
            else:
                self.env[st.target.id] = Form.atom('(%s %s %s)' % (cur.pretty(), type(op).__name__, v.pretty()))
            return True
        if isinstance(st, ast.AnnAssign) and st.value is not None and isinstance(st.target, ast.Name):
            self.env[st.target.id] = self.form(st.value)
            return True
        return False


def _single_atom(f):
    if len(f.t) == 1:
        (k, v), = f.t.items()
        if v == 1 and len(k) == 1 and k[0][1] == 1:
            return k[0][0]
    return None
