"""What a path's branch history implies about an atomic test."""
from __future__ import annotations
import ast
from .frontend import src


def implied(conds, pred):
    """conds: list of (test ast, bool taken).  pred(ast expr) -> True if the expr
    is the atomic fact of interest.  Returns True / False / None."""
    val = None
    for test, taken in conds:
        v = _imp(test, taken, pred)
        if v is not None:
            val = v
    return val


def _imp(test, taken, pred):
    if isinstance(test, str):
        return None
    if pred(test):
        return taken
    if isinstance(test, ast.UnaryOp) and isinstance(test.op, ast.Not):
        return _imp(test.operand, not taken, pred)
    if isinstance(test, ast.BoolOp):
        if isinstance(test.op, ast.And) and taken:
            for v in test.values:
                r = _imp(v, True, pred)
                if r is not None:
                    return r
        if isinstance(test.op, ast.Or) and not taken:
            for v in test.values:
                r = _imp(v, False, pred)
                if r is not None:
                    return r
    return None


def text_pred(*texts):
    ts = set(texts)
    return lambda e: src(e) in ts
