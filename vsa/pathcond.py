"""What a path's branch history implies about an atomic test."""
from __future__ import annotations
import ast
from .frontend import src


def implied(conds, pred):
    """conds: list of (test ast, bool taken).  pred(ast expr) -> True if the expr
    is the atomic fact of interest.  Returns True / False / None."""
    val = None
    for test, taken in conds:
        v = _imp(test, taken, pred)
        if v is not None:
            val = v
    return val


def _imp(test, taken, pred):
    if isinstance(test, str):
        return None
    if pred(test):
        return taken
    if isinstance(test, ast.UnaryOp) and isinstance(test.op, ast.Not):
        return _imp(test.operand, not taken, pred)
    if isinstance(test, ast.BoolOp):
        if isinstance(test.op, ast.And) and taken:
            for v in test.values:
                r = _imp(v, True, pred)
                if r is not None:
                    return r
        if isinstance(test.op, ast.Or) and not taken:
            for v in test.values:
                r = _imp(v, False, pred)
                if r is not None:
                    return r
    return None


def text_pred(*texts):
    ts = set(texts)
    return lambda e: src(e) in ts


def rimplied(state, pred):
    """like implied() but on the *resolved* text of each test (locals substituted by their definitions
    at the time the test was evaluated); pred(text) -> bool."""
    val = None
    for tmap, taken, test in state.rconds:
        v = _rimp(test, taken, pred, tmap)
        if v is not None:
            val = v
    return val


def _rimp(test, taken, pred, tmap):
    txt = tmap.get(id(test), '')
    if txt and pred(txt):
        return taken
    if isinstance(test, ast.UnaryOp) and isinstance(test.op, ast.Not):
        return _rimp(test.operand, not taken, pred, tmap)
    if isinstance(test, ast.BoolOp):
        if isinstance(test.op, ast.And) and taken:
            for v in test.values:
                r = _rimp(v, True, pred, tmap)
                if r is not None:
                    return r
        if isinstance(test.op, ast.Or) and not taken:
            for v in test.values:
                r = _rimp(v, False, pred, tmap)
                if r is not None:
                    return r
    return None


def cmp_outcome(state, name, op_types, const):
    """outcome on this path of the test  <name> OP <const>  (op in op_types), or None"""
    def pred(e):
        return (isinstance(e, ast.Compare) and len(e.ops) == 1 and isinstance(e.left, ast.Name) and e.left.id == name
                and isinstance(e.ops[0], op_types) and isinstance(e.comparators[0], ast.Constant) and e.comparators[0].value == const)
    return implied(state.conds, pred)


def resolved_conds(p, keep=()):
    """the branch conditions of path p with their locals replaced by the definitions in force when the test was evaluated
    (so `flag = isinstance(x, K)` ... `if not flag:` reads like `if not isinstance(x, K):`)"""
    import ast as _ast
    from .resolve import resolved, path_defs
    out = []
    for e in p.events:
        if e.kind == 'cond' and isinstance(e.stmt, (_ast.If, _ast.While)) and isinstance(e.value, bool):
            try:
                out.append((resolved(e.stmt.test, path_defs(p, e), keep=set(keep)), e.value))
            except Exception:
                out.append((e.stmt.test, e.value))
    return out


def scenario_decide(atom):
    """decide-hook for symx: the test, with its locals resolved along the path so far, is evaluated three-valued (not / and / or) over
    the atoms that `atom(expr) -> True / False / None` knows; anything else stays undecided.  Lets a rule fix a scenario
    ("no conversion given", "both operands are reactions") however the code spells its tests, including through flag locals."""
    import ast as _ast
    from .resolve import resolved, path_defs

    def ev(t):
        v = atom(t)
        if v is not None:
            return v
        if isinstance(t, _ast.UnaryOp) and isinstance(t.op, _ast.Not):
            v = ev(t.operand)
            return None if v is None else not v
        if isinstance(t, _ast.BoolOp):
            vs = [ev(x) for x in t.values]
            if isinstance(t.op, _ast.And):
                return False if any(x is False for x in vs) else (True if all(x is True for x in vs) else None)
            return True if any(x is True for x in vs) else (False if all(x is False for x in vs) else None)
        return None

    def decide(test, state):
        try:
            r = resolved(test, path_defs(state)) if state is not None and hasattr(state, 'events') else test
        except Exception:
            r = test
        return ev(r)
    return decide


def implied2(conds, pos, neg):
    """a fact that may be tested in either polarity: pos(test) recognises the fact, neg(test) its negation"""
    a = implied(conds, pos)
    if a is not None:
        return a
    b = implied(conds, neg)
    return None if b is None else not b


def entailed(conds, pos, neg=None, max_atoms=12):
    """What the branch history as a whole entails about a fact, by propositional reasoning over its tests (not / and / or):
    `(A and B)` not taken and `A` taken entail `not B`.  conds: (resolved test, outcome) pairs; pos(expr) recognises the fact, neg(expr) its
    negation.  Every other maximal non-boolean sub-expression is an independent atom.  True / False when all assignments that reproduce the
    recorded outcomes agree on the fact, None otherwise (or when there are too many atoms / no such assignment)."""
    import ast as _ast
    import itertools
    atoms = {}

    def key(t):
        if pos(t):
            return ('F', True)
        if neg is not None and neg(t):
            return ('F', False)
        k = _ast.dump(t)
        atoms.setdefault(k, len(atoms))
        return (k, True)

    def build(t):
        if isinstance(t, _ast.UnaryOp) and isinstance(t.op, _ast.Not):
            return ('not', build(t.operand))
        if isinstance(t, _ast.BoolOp):
            return ('and' if isinstance(t.op, _ast.And) else 'or', [build(v) for v in t.values])
        return ('atom',) + key(t)
    trees = [(build(t), o) for t, o in conds if not isinstance(t, str) and isinstance(o, bool)]
    names = sorted(atoms, key=atoms.get)
    if len(names) > max_atoms:
        return None

    def ev(n, env):
        if n[0] == 'not':
            return not ev(n[1], env)
        if n[0] == 'and':
            return all(ev(x, env) for x in n[1])
        if n[0] == 'or':
            return any(ev(x, env) for x in n[1])
        v = env[n[1]]
        return v if n[2] else not v
    seen = set()
    for fv in (True, False):
        for vals in itertools.product((True, False), repeat=len(names)):
            env = dict(zip(names, vals))
            env['F'] = fv
            if all(ev(tr, env) == o for tr, o in trees):
                seen.add(fv)
                break
    if len(seen) == 1:
        return next(iter(seen))
    return None
