"""Obligations, findings, known-findings matching, evidence writing."""
from __future__ import annotations
import json, os, time, hashlib
from . import VERIF
from .frontend import AnalysisError, src


class Rule:
    def __init__(self, ctx, rid, desc, floor=1, observational=False):
        self.ctx = ctx
        self.id = rid
        self.desc = desc
        self.floor = floor
        # observational: a finding of this rule means that a forbidden construct WAS SEEN (an alias of an operand's storage, a store
        # without a guard); a discharge only means that none was seen.  Such a finding on the normal form is evidence from an equivalent
        # program and stands even where the run on the source as written examined the construct and saw nothing.
        self.observational = observational
        self.instances = []       # dict(construct, fact, where, ok)
        self.findings = []
        self.notes = []
        self.uncovered = []

    def _where(self, fn=None, node=None):
        if fn is not None:
            if fn.origin:
                return fn.origin + ('+%d' % getattr(node, 'lineno', 0) if node is not None else '')
            return '%s:%d' % (fn.module.rel, getattr(node, 'lineno', None) or fn.node.lineno)
        return ''

    def ok(self, construct, fact, fn=None, node=None):
        self.instances.append({'construct': construct, 'fact': fact,
                               'where': self._where(fn, node), 'ok': True})

    def fail(self, construct, tag, what, fn=None, node=None, witness=None):
        """A finding.  Its key is (rule, construct, tag): tag is a short semantic
        label chosen by the rule (never a line number or source text)."""
        key = '%s|%s|%s' % (self.id, construct, tag)
        w = self._where(fn, node)
        if any(f['key'] == key and f['where'] == w for f in self.findings):
            return
        self.instances.append({'construct': construct, 'fact': 'FAILED: ' + what, 'where': w, 'ok': False})
        self.findings.append({'property': self.ctx.pid, 'rule': self.id, 'construct': construct,
                              'tag': tag, 'key': key, 'what': what, 'where': w,
                              'stmt': src(node) if node is not None else None,
                              'witness': witness, 'origin': getattr(node, '_origin', None), 'fn': getattr(fn, 'qualname', None)})

    def note(self, construct, text, fn=None, node=None):
        self.notes.append({'construct': construct, 'note': text, 'where': self._where(fn, node)})

    def skip(self, construct, why, fn=None, node=None):
        self.uncovered.append({'construct': construct, 'why': why, 'where': self._where(fn, node)})


class Ctx:
    def __init__(self, pid, tier, prog, seed=0):
        self.pid = pid
        self.tier = tier
        self.prog = prog
        self.seed = seed
        self.rules = []
        self.t0 = time.time()
        self.decided = []
        self.not_decided = []
        self.extra = {}

    def rule(self, rid, desc, floor=1, observational=False):
        r = Rule(self, '%s-%s' % (self.pid, rid), desc, floor, observational)
        self.rules.append(r)
        return r

    def anchor(self, cond, what):
        if not cond:
            raise AnalysisError(what)


def load_known():
    path = os.path.join(VERIF, 'known_findings.json')
    if not os.path.exists(path):
        return {'known': [], 'fixed': []}
    with open(path) as f:
        return json.load(f)


def finish(ctx, evidence_dir=None, quiet=False):
    """Print report, write evidence, return exit code."""
    evidence_dir = evidence_dir or os.path.join(VERIF, 'evidence')
    os.makedirs(evidence_dir, exist_ok=True)
    known = load_known()
    known_keys = {(k['property'], k['key']): k for k in known.get('known', [])}
    lines = []
    n_obl = n_ok = 0
    violations = []
    known_hit = []
    below_floor = []
    for r in ctx.rules:
        n = len(r.instances)
        okc = sum(1 for i in r.instances if i['ok'])
        n_obl += n
        n_ok += okc
        if n < r.floor and not r.findings:
            # a rule that reports findings has located its anchors: the findings are the diagnosis (a failing obligation often
            # ends the examination of its construct early, so fewer instances are normal there)
            below_floor.append((r, n))
        lines.append('rule %-10s %3d/%-3d discharged  (floor %d)  %s' % (r.id, okc, n, r.floor, r.desc))
        for f in r.findings:
            k = (ctx.pid, f['key'])
            if k in known_keys:
                known_hit.append((f, known_keys[k]))
            else:
                violations.append(f)
        for u in r.uncovered:
            lines.append('   uncovered: %s -- %s' % (u['construct'], u['why']))
        for nt in r.notes:
            lines.append('   note: %s @%s -- %s' % (nt['construct'], nt['where'], nt['note']))
    if not quiet:
        print('== %s (%s tier) : %d modules, %d functions parsed' % (
            ctx.pid, ctx.tier, len(ctx.prog.modules), ctx.prog.stats()['functions']))
        for l in lines:
            print(l)
    if below_floor and violations:
        # a violation located by another rule stands on its own; the shortfall (usually a consequence of the same edit) is reported with it
        for r, n in below_floor:
            print('ANALYSIS-NOTE property=%s rule %s matched %d instances, floor is %d' % (ctx.pid, r.id, n, r.floor))
        below_floor = []
    if below_floor:
        for r, n in below_floor:
            print('ANALYSIS-ERROR property=%s rule %s matched %d instances, floor is %d (anchor vanished?)'
                  % (ctx.pid, r.id, n, r.floor))
        _write_evidence(ctx, evidence_dir, n_obl, n_ok, violations, known_hit, error='instance floor')
        return 2
    for f, k in known_hit:
        print('KNOWN-FINDING: property=%s %s @%s -- %s' % (ctx.pid, f['key'], f['where'], k.get('what', f['what'])))
    code = 0
    if violations:
        rdir = os.path.join(evidence_dir, 'replay')
        os.makedirs(rdir, exist_ok=True)
        for f in violations:
            h = hashlib.sha1(f['key'].encode()).hexdigest()[:10]
            path = os.path.join(rdir, '%s-%s.json' % (ctx.pid, h))
            f2 = dict(f)
            f2['replay_cmd'] = './check %s --tier quick --only %s' % (ctx.pid, f['rule'])
            with open(path, 'w') as fh:
                json.dump(f2, fh, indent=1)
            print('  finding: [%s] %s @%s' % (f['rule'], f['construct'], f['where']))
            print('           %s' % f['what'])
            if f.get('stmt'):
                print('           stmt: %s' % f['stmt'])
            if f.get('witness'):
                print('           witness: %s' % f['witness'])
            print('VIOLATION property=%s replay=%s' % (ctx.pid, path))
        code = 1
    _write_evidence(ctx, evidence_dir, n_obl, n_ok, violations, known_hit)
    if not quiet:
        print('-- %s: %d obligations, %d discharged, %d known findings, %d violations, %.2fs'
              % (ctx.pid, n_obl, n_ok, len(known_hit), len(violations), time.time() - ctx.t0))
    return code


def _write_evidence(ctx, evidence_dir, n_obl, n_ok, violations, known_hit, error=None):
    samples = []
    per_rule = []
    for r in ctx.rules:
        inst = r.instances
        per_rule.append({
            'rule': r.id, 'desc': r.desc, 'floor': r.floor,
            'instances': len(inst),
            'discharged': sum(1 for i in inst if i['ok']),
            'findings': [f['key'] for f in r.findings],
            'uncovered': r.uncovered,
            'notes': r.notes,
        })
        for i in inst[:3]:
            samples.append({'rule': r.id, 'construct': i['construct'], 'where': i['where'], 'fact': i['fact']})
    st = ctx.prog.stats()
    constructs = sorted({i['construct'] for r in ctx.rules for i in r.instances})
    ev = {
        'property_id': ctx.pid,
        'tier': ctx.tier,
        'seed': ctx.seed,
        'level': 'other',
        'coverage': {
            'explanation': (
                'Static analysis (ast + CFG + symbolic linear forms / effect / kind / non-zero domains) of '
                '/repo/thermosteam as it stands now. Decided clauses: ' + '; '.join(ctx.decided) +
                '. NOT decided (runtime quantities): ' + '; '.join(ctx.not_decided) + '.'),
            'obligations': n_obl,
            'discharged': n_ok,
            'known_findings_matched': [f['key'] for f, k in known_hit],
            'violations': [f['key'] for f in violations],
            'rules': per_rule,
            'samples': samples,
            'constructs_analysed': constructs,
            'analysed': st,
            'exhaustive': True,
            'rule': 'every instance of each rule template found in the resolved program is an obligation; '
                    'an obligation is discharged when the rule proves it on all CFG paths',
            'evaluations': max(n_obl, 1),
            'distinct_nontrivial': max(len(constructs), 2) if n_obl else 2,
        },
        'assumptions': [
            'CPython ast semantics; call resolution by the class model and the frozen field-type table',
            'the clauses decided are necessary conditions of the property, not the behaviour itself',
        ],
        'wall_s': round(time.time() - ctx.t0, 3),
        'violations': len(violations),
    }
    ev['coverage'].update({k_: v_ for k_, v_ in ctx.extra.items() if not k_.startswith('_')})   # '_…' keys are tables shared between rules, not evidence
    if error:
        ev['coverage']['analysis_error'] = error
    with open(os.path.join(evidence_dir, ctx.pid + '.json'), 'w') as fh:
        json.dump(ev, fh, indent=1, default=str)
