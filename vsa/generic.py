"""Rules shared by several properties."""
from __future__ import annotations
import ast, re
from .cfg import CFG, header_exprs
from .frontend import src, walk_no_nested, AnalysisError


def _stmt_of(n):
    while not isinstance(n, ast.stmt):
        n = n._parent
    return n


def stale_alias(prog, eff, f, fields, rule, cons=None):
    """A local bound from self.A, then a call on self whose summary re-binds A,
    then a use of the local.  Reports each (local, call) once."""
    if f.cls is None:
        return 0
    cons = cons or f.qualname
    cfg = None
    n_checked = 0
    for n in walk_no_nested(f.node):
        if not (isinstance(n, ast.Assign) and len(n.targets) == 1 and isinstance(n.targets[0], ast.Name)
                and isinstance(n.value, ast.Attribute) and isinstance(n.value.value, ast.Name)
                and n.value.value.id == 'self' and n.value.attr in fields):
            continue
        if cfg is None:
            cfg = CFG(f.node)
        local, A = n.targets[0].id, n.value.attr
        n0 = cfg.node_of(n)
        if n0 is None:
            continue
        n_checked += 1

        def reassigns(nd):
            if nd is n0:
                return False
            for h in header_exprs(nd):
                if isinstance(h, (ast.FunctionDef, ast.ClassDef)):
                    continue
                for x in ast.walk(h):
                    if isinstance(x, ast.Name) and x.id == local and isinstance(x.ctx, ast.Store):
                        return True
            return False

        def uses(nd):
            for h in header_exprs(nd):
                for x in ast.walk(h):
                    if isinstance(x, ast.Name) and x.id == local and isinstance(x.ctx, ast.Load):
                        return x
            return None

        def rebinding_call(nd):
            for h in header_exprs(nd):
                for x in ast.walk(h):
                    if isinstance(x, ast.Call) and isinstance(x.func, ast.Attribute) and isinstance(x.func.value, ast.Name) \
                            and x.func.value.id == 'self':
                        if A in eff.rebinds(f.cls, x.func.attr):
                            return x
                    if isinstance(x, ast.Attribute) and isinstance(x.ctx, ast.Store) and isinstance(x.value, ast.Name) \
                            and x.value.id == 'self' and x.attr != A:
                        if prog.find_method(f.cls, x.attr, setter=True) is not None and A in eff.rebinds(f.cls, x.attr):
                            return x
            return None
        reach0 = cfg.reachable_from(n0, blocked=reassigns)
        found = False
        for nid in sorted(reach0):
            n1 = cfg.nodes[nid]
            call = rebinding_call(n1)
            if call is None:
                continue
            reach1 = cfg.reachable_from(n1, blocked=reassigns)
            for mid in sorted(reach1):
                n2 = cfg.nodes[mid]
                u = uses(n2)
                if u is not None and not reassigns(n2):
                    rule.fail(cons, 'stale-%s-after-%s' % (local, src(call.func) if isinstance(call, ast.Call) else src(call)),
                              'local %r aliases self.%s (bound at line %d) but %s may re-bind self.%s before %r is used again (line %d)'
                              % (local, A, n.lineno, src(call), A, local, u.lineno), f, _stmt_of(u))
                    found = True
                    break
            if found:
                break
        if not found:
            rule.ok(cons, 'local %r = self.%s is never used after a call that may re-bind self.%s' % (local, A, A), f, n)
    return n_checked


def guarded_refill_needs_empty(prog, f, rule, cons=None):
    """A loop that writes only the non-zero values of a source into a sparse container
    (``if v: X.dct[k] = v`` / ``if v: X[i, j] = v``) is a faithful copy only if X is empty
    when the loop starts: X must be fresh or cleared on every path from entry to the loop."""
    cons = cons or f.qualname
    n = 0
    cfg = None
    for lp in walk_no_nested(f.node):
        if not isinstance(lp, ast.For):
            continue
        tgt = None
        # the guard may be written `if v: X[k] = v`  or  `if not v: continue` followed by the store: read the body with `continue` eliminated
        cands = list(ast.walk(lp))
        if any(isinstance(x, ast.Continue) for x in walk_no_nested(lp)) and not any(isinstance(x, (ast.For, ast.While)) for b in lp.body for x in ast.walk(b)):
            try:
                from .normalize import _elim_continue, clone as _clone
                shadow = ast.For(target=lp.target, iter=lp.iter, body=_elim_continue(_clone(lp.body), lp) or [ast.Pass()], orelse=[])
                for n_ in ast.walk(shadow):
                    for c_ in ast.iter_child_nodes(n_):
                        c_._parent = n_
                shadow._parent = getattr(lp, '_parent', None)
                cands = [(x, True) for x in ast.walk(shadow)]
            except Exception:
                cands = [(x, False) for x in cands]
        else:
            cands = [(x, False) for x in cands]
        for x, shadowed in cands:
            # `if not v: pass  else: store` (what continue-elimination produces) reads like `if v: store`
            if isinstance(x, ast.If) and x.orelse and len(x.body) == 1 and isinstance(x.body[0], ast.Pass) and isinstance(x.test, ast.UnaryOp) \
                    and isinstance(x.test.op, ast.Not):
                x = ast.If(test=x.test.operand, body=x.orelse, orelse=[])
                x._parent = lp
            if isinstance(x, ast.If) and not x.orelse and len(x.body) == 1 and isinstance(x.body[0], ast.Assign) \
                    and isinstance(x.body[0].targets[0], ast.Subscript):
                # only the innermost loop around the guarded store is the refill loop
                par = getattr(x, '_parent', None)
                while par is not None and not isinstance(par, (ast.For, ast.While, ast.FunctionDef)):
                    par = getattr(par, '_parent', None)
                if par is not lp and not shadowed:
                    continue
                t = x.body[0].targets[0]
                base = t.value
                if isinstance(base, ast.Attribute) and base.attr == 'dct':
                    base = base.value
                if isinstance(base, ast.Name) and src(x.body[0].value) in src(x.test):
                    tgt = base.id
                    # a local bound to the dict of a container (dct = data.dct) stands for that container
                    for a_ in walk_no_nested(f.node):
                        if isinstance(a_, ast.Assign) and len(a_.targets) == 1 and isinstance(a_.targets[0], ast.Name) and a_.targets[0].id == tgt \
                                and isinstance(a_.value, ast.Attribute) and a_.value.attr == 'dct' and isinstance(a_.value.value, ast.Name):
                            tgt = a_.value.value.id
        if tgt is None:
            continue
        if cfg is None:
            cfg = CFG(f.node)
        node = cfg.node_of(lp)
        if node is None:
            continue
        n += 1

        def emptied(nd, tgt=tgt):
            for h in header_exprs(nd):
                if nd.kind != 'stmt':
                    continue
                for x in ast.walk(h):
                    if isinstance(x, ast.Call) and isinstance(x.func, ast.Attribute) and x.func.attr == 'clear' and src(x.func.value) == tgt:
                        return True
                    if isinstance(x, ast.Assign) and isinstance(x.value, (ast.Tuple, ast.List)):
                        # a, b = (fresh, other): element-wise
                        for tg_ in x.targets:
                            if isinstance(tg_, (ast.Tuple, ast.List)) and len(tg_.elts) == len(x.value.elts):
                                for t_, v_ in zip(tg_.elts, x.value.elts):
                                    if isinstance(t_, ast.Name) and t_.id == tgt and isinstance(v_, ast.Call) \
                                            and re.search(r'(from_size|from_shape|blank|SparseVector|SparseArray|dict)$', src(v_.func)):
                                        return True
                    if isinstance(x, ast.Assign):
                        names = [t.id for t in x.targets if isinstance(t, ast.Name)]
                        if tgt in names and isinstance(x.value, ast.Call) and re.search(r'(from_size|from_shape|blank|SparseVector|SparseArray|dict)$', src(x.value.func)):
                            return True
                        if tgt in names and isinstance(x.value, (ast.Dict, ast.DictComp)) and (isinstance(x.value, ast.DictComp) or not x.value.keys):
                            return True
                        if any(isinstance(t, ast.Subscript) and src(t.value) == tgt and src(t.slice) == ':' for t in x.targets) \
                                and isinstance(x.value, ast.Constant) and x.value.value == 0:
                            return True
            return False
        wit = cfg.path_avoiding(cfg.entry, node, emptied)
        if wit is not None:
            # the CFG ignores correlated tests (`if c is None: fresh ... if c is not None: X.clear()`): confirm the witness on the symbolic
            # paths, which remember the outcome of a test on unchanged names
            try:
                from .symx import run_paths as _rp
                emptied_stmts = [nd.ast for nd in cfg.nodes if nd.kind == 'stmt' and emptied(nd)]
                sps, trunc = _rp(f.node, max_paths=4000, follow_except=False)
                feasible = trunc
                for p_ in sps:
                    li = [i for i, e in enumerate(p_.events) if e.kind == 'loop' and e.stmt is lp]
                    if not li:
                        continue
                    if not any(any(e.stmt is s_ for s_ in emptied_stmts) for e in p_.events[:li[0]]):
                        feasible = True
                if not feasible:
                    wit = None
            except Exception:
                pass
        if wit is None:
            rule.ok(cons, 'non-zero-only refill of %r starts from an empty container on every path' % tgt, f, lp)
        else:
            rule.fail(cons, 'refill-not-emptied-%s' % tgt, 'only the non-zero source values are written into %r, but on some path it is neither fresh nor '
                      'cleared first: entries that became zero keep their old value' % tgt, f, lp,
                      witness=' -> '.join('L%d' % x.lineno for x in wit if x.lineno))
    return n


def index_cache_follows_inputs(prog, rule):
    """MaterialIndexer._index_cache is a function of (_phases, _chemicals) (see _set_cache).  After any call that
    re-binds one of the inputs, _set_cache() must run on every path before the method returns -- otherwise lookups
    by phase key use the row positions of another phase tuple."""
    from .effects import Effects
    eff = Effects(prog)
    c = prog.cls('MaterialIndexer', 'thermosteam/indexer.py')
    sc = c.methods.get('_set_cache')
    if sc is None:
        rule.fail('MaterialIndexer._set_cache', 'missing', '_set_cache not found', None, None)
        return
    reads = {n.attr for n in walk_no_nested(sc.node) if isinstance(n, ast.Attribute) and isinstance(n.ctx, ast.Load) and src(n.value) == 'self'}
    inputs = reads & {'_phases', '_chemicals'}
    if inputs != {'_phases', '_chemicals'}:
        rule.fail('MaterialIndexer._set_cache', 'key', 'the index cache is no longer keyed by (phases, chemicals)', sc, sc.node)
        return
    _key_determines_fill(prog, rule, c, sc)
    for f in c.methods.values():
        if f.cls is not c or f.name in ('_set_cache', '_set_phases', '_load_chemicals'):
            continue
        cfg = None
        # the instance under construction / modification: `self`, or the local bound to a new instance in a classmethod
        recv = 'self'
        if f.params and f.params[0] == 'cls':
            for n in walk_no_nested(f.node):
                if isinstance(n, ast.Assign) and isinstance(n.value, ast.Call) and src(n.value.func) in ('_new', 'cls.__new__', 'object.__new__') \
                        and isinstance(n.targets[0], ast.Name):
                    recv = n.targets[0].id
        for n in walk_no_nested(f.node):
            if not (isinstance(n, ast.Call) and isinstance(n.func, ast.Attribute) and src(n.func.value) == recv):
                continue
            rb = eff.rebinds(c, n.func.attr)
            if not (rb & inputs) or n.func.attr == '_set_cache' or '_index_cache' in rb and n.func.attr not in ('_set_phases', '_load_chemicals'):
                continue
            if cfg is None:
                cfg = CFG(f.node)
            st = n
            while not isinstance(st, ast.stmt):
                st = st._parent
            node = cfg.node_of(st)

            def is_refresh(nd):
                for h in header_exprs(nd):
                    if nd.kind != 'stmt':
                        continue
                    for x in ast.walk(h):
                        if isinstance(x, ast.Call) and src(x.func) == recv + '._set_cache':
                            return True
                        if isinstance(x, ast.Call) and isinstance(x.func, ast.Attribute) and src(x.func.value) == recv \
                                and x.func.attr not in ('_set_phases', '_load_chemicals') and '_index_cache' in eff.rebinds(c, x.func.attr) and nd is not node:
                            return True
                return False
            okk, wit = cfg.must_pass(node, lambda nd: nd is not node and is_refresh(nd))
            if okk:
                rule.ok(f.qualname, 'self.%s() re-binds %s; _set_cache() follows on every path' % (n.func.attr, sorted(rb & inputs)), f, st)
            else:
                rule.fail(f.qualname, 'index-cache-not-refreshed', 'self.%s() re-binds %s, the key of the index cache, but no _set_cache() follows: '
                          'lookups keep using the row positions cached for the previous phases/chemicals' % (n.func.attr, sorted(rb & inputs)), f, st)


def _self_chain(n):
    """'self.a.b' for a maximal attribute chain rooted at the name self, else None"""
    parts = []
    while isinstance(n, ast.Attribute):
        parts.append(n.attr)
        n = n.value
    if isinstance(n, ast.Name) and n.id == 'self':
        return '.'.join(['self'] + parts[::-1])
    return None


def _key_determines_fill(prog, rule, c, sc):
    """The registry hands the SAME lookup dict to every indexer with an equal key, and the dict is filled from
    self.<field> reads (positions of IDs, groups, aliases, phases).  So the key must determine everything the fill
    reads from those fields: for every read path self.F.p of a filler, some key element must be self.F or a prefix
    of self.F.p.  A key element that is a projection of the field (self.F.attr, len(self.F), ...) lets two indexers
    whose F differ elsewhere share one dict."""
    alias = {}
    for n in walk_no_nested(sc.node):
        if isinstance(n, ast.Assign) and len(n.targets) == 1 and isinstance(n.targets[0], ast.Name):
            alias[n.targets[0].id] = n.value
    # every access to the registry (REG[k], REG.get(k), REG.setdefault(k, ...)) uses one key, and the lookup dict is assigned from it
    regs = {'self._index_caches'} | {k for k, v in alias.items() if src(v).endswith('._index_caches')}
    keys = []
    for n in walk_no_nested(sc.node):
        if isinstance(n, ast.Subscript) and src(n.value) in regs:
            keys.append(n.slice)
        elif isinstance(n, ast.Call) and isinstance(n.func, ast.Attribute) and n.func.attr in ('get', 'setdefault') and src(n.func.value) in regs and n.args:
            keys.append(n.args[0])
    assigned = any(isinstance(n, ast.Assign) and any(src(t) == 'self._index_cache' for t in n.targets) for n in walk_no_nested(sc.node))
    if not keys or not assigned or len({src(k) for k in keys}) != 1:
        rule.fail('MaterialIndexer._set_cache', 'key', 'the index cache is not taken from the registry by key', sc, sc.node)
        return
    key = keys[0]
    if isinstance(key, ast.Name) and key.id in alias:
        key = alias[key.id]
    elems = [src(e) for e in (key.elts if isinstance(key, ast.Tuple) else [key])]
    roots = set()
    for e in (key.elts if isinstance(key, ast.Tuple) else [key]):
        for x in ast.walk(e):
            ch = _self_chain(x)
            if ch and ch.count('.') >= 1:
                roots.add('.'.join(ch.split('.')[:2]))
    # fillers: methods that store into self._index_cache (directly or through a local bound to it)
    fillers = []
    for f in c.methods.values():
        loc = {'self._index_cache'}
        for n in walk_no_nested(f.node):
            if isinstance(n, ast.Assign) and src(n.value) == 'self._index_cache':
                loc |= {t.id for t in n.targets if isinstance(t, ast.Name)}
        if any(isinstance(n, ast.Assign) and any(isinstance(t, ast.Subscript) and src(t.value) in loc for t in n.targets) for n in walk_no_nested(f.node)):
            fillers.append(f)
    if not fillers:
        rule.fail('MaterialIndexer', 'no-filler', 'no method fills the index cache', sc, sc.node)
        return
    chains = {}
    seen = set()
    work = list(fillers)
    while work:
        f = work.pop()
        if id(f) in seen:
            continue
        seen.add(id(f))
        for n in walk_no_nested(f.node):
            if not isinstance(n, ast.Attribute) or isinstance(getattr(n, '_parent', None), ast.Attribute) and n._parent.value is n:
                continue      # only maximal chains
            ch = _self_chain(n)
            if not ch or not isinstance(n.ctx, ast.Load):
                continue
            parts = ch.split('.')
            if len(parts) == 2 and parts[1] in c.methods:
                work.append(c.methods[parts[1]])
                continue
            chains.setdefault(ch, (f, n))
    for ch, (f, n) in sorted(chains.items()):
        root = '.'.join(ch.split('.')[:2])
        if root not in roots or ch == 'self._index_cache':
            continue
        if any(ch == e or ch.startswith(e + '.') for e in elems):
            rule.ok('MaterialIndexer._set_cache', 'fill reads %s; the registry key %s contains %s itself' % (ch, elems, root), f, n)
        else:
            rule.fail('MaterialIndexer._set_cache', 'key-projection',
                      'the shared index cache is filled from %s (in %s) but the registry key %s holds only a projection of %s: indexers whose %s '
                      'differ elsewhere (groups, aliases, order) share one lookup dict' % (ch, f.qualname, elems, root, root), sc, sc.node)


# ---------------------------------------------------------------------------------------------------------------
# stores on an instance created in the same function must be storable

def _injected_properties(prog):
    """class decorators of the form  def deco(cls): cls.NAME = obj; ...; return cls  where obj is a module-level
    @property function: {decorator name: {NAME: has_setter}}"""
    out = {}
    for m in prog.modules.values():
        props = {}
        for st in m.tree.body:
            if isinstance(st, ast.FunctionDef):
                decs = [src(d) for d in st.decorator_list]
                if 'property' in decs:
                    props.setdefault(st.name, False)
                for d in decs:
                    if d.endswith('.setter'):
                        props[d[:-7]] = True
        for st in m.tree.body:
            if isinstance(st, ast.FunctionDef) and st.args.args and not st.decorator_list:
                p0 = st.args.args[0].arg
                inj = {}
                for n in walk_no_nested(st):
                    if isinstance(n, ast.Assign) and len(n.targets) == 1 and isinstance(n.targets[0], ast.Attribute) \
                            and src(n.targets[0].value) == p0 and isinstance(n.value, ast.Name) and n.value.id in props:
                        inj[n.targets[0].attr] = props[n.value.id]
                if inj and any(isinstance(n, ast.Return) and src(n.value) == p0 for n in walk_no_nested(st)):
                    out[st.name] = inj
    return out


def _injectable_names(prog, modelled=()):
    """every attribute name that some function of the package binds on a class object it receives (cls.NAME = ...,
    setattr(cls, ...)): a class with a decorator the model does not resolve may get any of them re-bound"""
    names = set()
    for f in prog.all_functions():
        if not f.params:
            continue
        p0 = f.params[0]
        if p0 == 'self' or (f.cls is None and f.name in modelled):
            continue
        for n in walk_no_nested(f.node):
            if isinstance(n, ast.Attribute) and isinstance(n.ctx, ast.Store) and src(n.value) == p0:
                names.add(n.attr)
    return names


def _deco_name(d):
    """`utils.chemicals_user` and `chemicals_user` name the same decorator; a call form stays opaque"""
    if isinstance(d, ast.Attribute):
        return d.attr
    return src(d)


def storable_attributes(prog, rule, rels=None):
    """x = K.__new__(K) ; x.attr = v  raises AttributeError when attr is a property without a setter anywhere in K's
    MRO, or when every class of the MRO declares __slots__ and none lists attr.  Such a function can never return."""
    inj = _injected_properties(prog)
    injectable = _injectable_names(prog, set(inj))
    n_sites = 0

    def opaque_decorators(c):
        return [src(d) for k in c.mro() for d in k.node.decorator_list if _deco_name(d) not in inj]

    def prop_info(c):
        """name -> has_setter for the properties visible on instances of c (most derived definition wins)"""
        info = {}
        for k in reversed(c.mro()):
            for d in k.node.decorator_list:
                for nm, hs in inj.get(_deco_name(d), {}).items():
                    info[nm] = hs
            for nm, f in k.methods.items():
                if f.kind == 'getter':
                    info[nm] = nm in k.setters
                elif nm in info:
                    info.pop(nm)
            for nm in k.setters:
                if nm in info:
                    info[nm] = True
            for nm in k.aliases:
                if nm in info and nm not in k.methods:
                    info.pop(nm)       # re-bound at class level to something else
        return info

    def own_slots(k, depth=0):
        if k.slots is not None:
            return set(k.slots)
        e = k.aliases.get('__slots__')
        if e is None or depth > 5 or not isinstance(e, (ast.Tuple, ast.List)):
            return None
        out = set()
        for x in e.elts:
            if isinstance(x, ast.Constant) and isinstance(x.value, str):
                out.add(x.value)
            elif isinstance(x, ast.Starred) and isinstance(x.value, ast.Attribute) and x.value.attr == '__slots__' \
                    and isinstance(x.value.value, ast.Name) and x.value.value.id in k.module.classes:
                sub = own_slots(k.module.classes[x.value.value.id], depth + 1)
                if sub is None:
                    return None
                out |= sub
            else:
                return None
        return out

    def slot_set(c):
        s = set()
        for k in c.mro():
            ks = own_slots(k)
            if ks is None:
                return None
            unresolved = [b for b in k.base_exprs if b not in ('object',)]
            if len(k.bases) < len(unresolved):
                return None
            s |= ks
        return s
    for f in prog.all_functions():
        if rels and f.module.rel not in rels:
            continue
        fresh = {}
        own = {'self.__class__', 'type(self)'}          # expressions denoting the (dynamic) class of self
        if f.params and (f.kind == 'class' or f.name in ('__new__', '__init_subclass__', '__class_getitem__')):
            own.add(f.params[0])
        for n in walk_no_nested(f.node):
            if isinstance(n, ast.Assign) and len(n.targets) == 1 and isinstance(n.targets[0], ast.Name) and src(n.value) in ('self.__class__', 'type(self)'):
                own.add(n.targets[0].id)
        for n in walk_no_nested(f.node):
            if isinstance(n, ast.Assign) and len(n.targets) == 1 and isinstance(n.targets[0], ast.Name) and isinstance(n.value, ast.Call):
                fn = src(n.value.func)
                k = None
                if (fn.endswith('.__new__') or fn == '_new') and n.value.args:
                    a0 = src(n.value.args[0])
                    if a0 in own and f.cls is not None:
                        k = (f.cls, False)
                    elif a0 in f.module.classes:
                        k = (f.module.classes[a0], True)
                if k:
                    fresh[n.targets[0].id] = k
        if not fresh:
            continue
        for n in walk_no_nested(f.node):
            if not (isinstance(n, ast.Attribute) and isinstance(n.ctx, ast.Store) and isinstance(n.value, ast.Name) and n.value.id in fresh):
                continue
            c, exact = fresh[n.value.id]
            n_sites += 1
            info = prop_info(c)
            cons = f.qualname
            if n.attr in injectable and opaque_decorators(c):
                rule.skip(cons, '%s.%s may be re-bound by the class decorator %s' % (n.value.id, n.attr, opaque_decorators(c)[0]), f, n)
                continue
            if n.attr in info:
                if info[n.attr]:
                    rule.ok(cons, '%s.%s: property with a setter' % (n.value.id, n.attr), f, n)
                    continue
                # a subclass may add the setter when the class is only known as cls / self.__class__
                if not exact and any(n.attr in k.setters for m in prog.modules.values() for k in m.classes.values() if c in k.mro()):
                    rule.ok(cons, '%s.%s: a subclass defines the setter' % (n.value.id, n.attr), f, n)
                    continue
                rule.fail(cons, 'read-only-property-' + n.attr,
                          'stores to .%s of a new %s, but %s is a property without a setter there: the statement always raises AttributeError, '
                          'so %s can never return' % (n.attr, c.name, n.attr, f.qualname), f, n)
                continue
            ss = slot_set(c)
            if ss is not None and not exact:
                for m_ in prog.modules.values():
                    for k_ in m_.classes.values():
                        if c in k_.mro() and k_ is not c:
                            s2 = slot_set(k_)
                            ss = None if (s2 is None or ss is None) else ss | s2
            if ss is not None and n.attr not in ss:
                rule.fail(cons, 'not-a-slot-' + n.attr, 'stores to .%s of a new %s, whose classes all declare __slots__ without it: AttributeError' % (n.attr, c.name), f, n)
                continue
            rule.ok(cons, '%s.%s is storable on a new %s' % (n.value.id, n.attr, c.name), f, n)
    return n_sites


# ---------------------------------------------------------------------------------------------------------------
# definite assignment: a local read on some path on which it was never assigned

def _bound_names(t):
    out = []
    for x in ast.walk(t):
        if isinstance(x, ast.Name) and isinstance(x.ctx, (ast.Store,)):
            out.append(x.id)
    return out


def _loads(e, skip_scopes=True):
    """Name loads evaluated when e is evaluated (not inside lambdas / nested defs; comprehension variables excluded)"""
    out = []

    def rec(x, bound):
        if isinstance(x, (ast.Lambda, ast.FunctionDef, ast.AsyncFunctionDef, ast.ClassDef)):
            return
        if isinstance(x, (ast.ListComp, ast.SetComp, ast.GeneratorExp, ast.DictComp)):
            b2 = set(bound) | {w.target.id for w in ast.walk(x) if isinstance(w, ast.NamedExpr)}
            for i, g in enumerate(x.generators):
                rec(g.iter, b2 if i else bound)
                b2 |= set(_bound_names(g.target))
                for c in g.ifs:
                    rec(c, b2)
            for fld in ('elt', 'key', 'value'):
                if hasattr(x, fld):
                    rec(getattr(x, fld), b2)
            return
        if isinstance(x, ast.Name):
            if isinstance(x.ctx, ast.Load) and x.id not in bound:
                out.append(x)
            return
        for c in ast.iter_child_nodes(x):
            rec(c, bound)
    rec(e, set())
    return out


def possibly_unassigned(f, rule=None):
    """[(name, use_node)] for every read of a local of f that some CFG path reaches without any assignment of it.
    Path-insensitive (two tests of the same condition are not correlated)."""
    from .cfg import CFG, header_exprs
    fn = f.node
    a = fn.args
    params = {x.arg for x in a.posonlyargs + a.args + a.kwonlyargs}
    if a.vararg:
        params.add(a.vararg.arg)
    if a.kwarg:
        params.add(a.kwarg.arg)
    declared = set()
    for n in walk_no_nested(fn):
        if isinstance(n, (ast.Global, ast.Nonlocal)):
            declared |= set(n.names)
    locals_ = set()
    for n in walk_no_nested(fn):
        if isinstance(n, ast.Name) and isinstance(n.ctx, (ast.Store, ast.Del)):
            locals_.add(n.id)
        elif isinstance(n, (ast.FunctionDef, ast.AsyncFunctionDef, ast.ClassDef)) and n is not fn:
            locals_.add(n.name)
        elif isinstance(n, (ast.Import, ast.ImportFrom)):
            for al in n.names:
                locals_.add((al.asname or al.name).split('.')[0])
        elif isinstance(n, ast.ExceptHandler) and n.name:
            locals_.add(n.name)
    # comprehension targets are not function locals
    locals_ -= declared
    locals_ -= params
    if not locals_:
        return []
    cfg = CFG(fn)

    def defs_uses(nd):
        """(uses evaluated at nd, names bound at nd [on the True edge only for a for-header], names deleted)"""
        uses, defs, dels = [], [], []
        st = nd.ast
        if nd.kind == 'test':
            e = st.subject if isinstance(st, ast.Match) else st.test
            uses += _loads(e)
            defs += [x.target.id for x in ast.walk(e) if isinstance(x, ast.NamedExpr)]
        elif nd.kind == 'for':
            uses += _loads(st.iter)
            defs += _bound_names(st.target)
        elif nd.kind == 'with':
            for it in st.items:
                uses += _loads(it.context_expr)
                if it.optional_vars is not None:
                    defs += _bound_names(it.optional_vars)
        elif nd.kind == 'except':
            if st.type is not None:
                uses += _loads(st.type)
            if st.name:
                defs.append(st.name)
        elif nd.kind in ('stmt', 'return', 'raiseS'):
            if isinstance(st, (ast.FunctionDef, ast.AsyncFunctionDef, ast.ClassDef)):
                defs.append(st.name)
                for d in st.decorator_list:
                    uses += _loads(d)
            elif isinstance(st, (ast.Import, ast.ImportFrom)):
                defs += [(al.asname or al.name).split('.')[0] for al in st.names]
            elif isinstance(st, ast.Assign):
                uses += _loads(st.value)
                for t in st.targets:
                    for x in ast.walk(t):
                        if isinstance(x, ast.Name) and isinstance(x.ctx, ast.Store):
                            defs.append(x.id)
                    uses += [x for x in _loads(t)]
            elif isinstance(st, ast.AugAssign):
                uses += _loads(st.value)
                if isinstance(st.target, ast.Name):
                    uses.append(st.target)
                    defs.append(st.target.id)
                else:
                    uses += _loads(st.target)
            elif isinstance(st, ast.AnnAssign):
                if st.value is not None:
                    uses += _loads(st.value)
                    defs += _bound_names(st.target)
            elif isinstance(st, ast.Delete):
                for t in st.targets:
                    if isinstance(t, ast.Name):
                        dels.append(t.id)
                    else:
                        uses += _loads(t)
            else:
                uses += _loads(st)
            defs += [x.target.id for x in ast.walk(st) if isinstance(x, ast.NamedExpr)] if not isinstance(st, (ast.FunctionDef, ast.AsyncFunctionDef, ast.ClassDef)) else []
        return uses, defs, dels
    info = {nd.id: defs_uses(nd) for nd in cfg.nodes}
    ALL = frozenset(locals_)
    IN = {nd.id: ALL for nd in cfg.nodes}
    IN[cfg.entry.id] = frozenset()
    work = [cfg.entry]
    seen_ = {cfg.entry.id}
    while work:
        nd = work.pop()
        uses, defs, dels = info[nd.id]
        out_full = (IN[nd.id] | set(defs)) - set(dels)
        for s, lab in nd.succ:
            if lab == 'exc':
                o = IN[nd.id]                       # the statement may not have completed
            elif nd.kind == 'for' and lab is False:
                o = IN[nd.id] - set(dels)           # zero iterations: the target is not bound
            else:
                o = out_full
            new = IN[s.id] & o if s.id in seen_ else frozenset(o)
            if s.id not in seen_ or new != IN[s.id]:
                seen_.add(s.id)
                IN[s.id] = frozenset(new)
                work.append(s)
    return [(x.id, x, nd) for nd in cfg.nodes if nd.id in seen_ or nd is cfg.entry for x in info[nd.id][0]
            if x.id in locals_ and x.id not in IN[nd.id]]


# ---------------------------------------------------------------------------------------------------------------
# a boolean mask computed over a SELECTION of a container must not index the whole container

def selection_mask_misuse(prog, rule, rels=None):
    """m = X[I] <cmp> c      has one element per selected position (len(I)), so  X[m] = v  addresses the first len(I) positions
    of X, not the selected ones.  Correct uses index the selection again (X[I][m], I[m]) or build positions from I and m."""
    n_sites = 0
    for f in prog.all_functions():
        if rels and f.module.rel not in rels:
            continue
        masks = {}      # local -> (container text, selection text, stmt)
        for n in walk_no_nested(f.node):
            if isinstance(n, ast.Assign) and len(n.targets) == 1 and isinstance(n.targets[0], ast.Name):
                cmp_ = [c for c in ast.walk(n.value) if isinstance(c, ast.Compare)]
                if not cmp_:
                    continue
                sel = [s for c in cmp_ for s in ast.walk(c) if isinstance(s, ast.Subscript) and isinstance(s.value, ast.Name)
                       and isinstance(s.slice, ast.Name)]
                # the selection index must itself be a list of positions (assigned from a *_index()/nonzero()/where call)
                for s_ in sel:
                    idx = s_.slice.id
                    defs = [a for a in walk_no_nested(f.node) if isinstance(a, ast.Assign) and any(isinstance(t, ast.Name) and t.id == idx for t in a.targets)]
                    if defs and isinstance(defs[0].value, ast.Call) and re.search(r'(index|nonzero|where|keys)\b', src(defs[0].value.func)):
                        masks[n.targets[0].id] = (s_.value.id, idx, n)
        for name, (cont, idx, st) in masks.items():
            for n in walk_no_nested(f.node):
                if isinstance(n, ast.Subscript) and isinstance(n.value, ast.Name) and n.value.id == cont and isinstance(n.slice, ast.Name) and n.slice.id == name:
                    n_sites += 1
                    rule.fail(f.qualname, 'selection-mask-on-whole', '%s is a boolean array over the selection %s[%s] (one element per selected position) but is used to index %s '
                              'itself: it addresses the leading positions of %s, not the selected ones' % (name, cont, idx, cont, cont), f, n)
            used_ok = [n for n in walk_no_nested(f.node) if isinstance(n, ast.Name) and n.id == name and isinstance(n.ctx, ast.Load)]
            if used_ok and not any(isinstance(n, ast.Subscript) and isinstance(n.value, ast.Name) and n.value.id == cont and isinstance(n.slice, ast.Name) and n.slice.id == name
                                   for n in walk_no_nested(f.node)):
                n_sites += 1
                rule.ok(f.qualname, 'the mask %s over %s[%s] is combined with the selection again, not applied to %s as a whole' % (name, cont, idx, cont), f, st)
    return n_sites


def index_space(prog, rule, rels, chem_rel='thermosteam/_chemicals.py'):
    """Positions handed out by CompiledChemicals (get_vle_indices, get_lle_indices, _light_indices, ...) are positions in the FULL chemical
    tuple: compile() builds them as [index[i.ID] for i in <sub-list>].  The sub-lists themselves (vle_chemicals, lle_chemicals, ...) and
    everything gathered with such positions (mol[index], [chems[i] for i in index]) are SHORTER sequences in another order of positions.
    Subscripting one of those with full positions picks the wrong chemicals (or raises).  Both tables are read from compile(); every
    gather with full positions in the modules `rels` is an instance, a gather whose base is a sub-sequence is a finding."""
    cc = prog.cls('CompiledChemicals', chem_rel)
    subseq, fullidx = set(), set()
    for comp in cc.methods.values():       # the method that fills the instance dictionary (today: _compile)
        sub_lists = set()      # its locals filled by .append inside a loop (sub-lists of the chemicals)
        for n in walk_no_nested(comp.node):
            if isinstance(n, ast.For):
                for c in ast.walk(n):
                    if isinstance(c, ast.Call) and isinstance(c.func, ast.Attribute) and c.func.attr == 'append' and isinstance(c.func.value, ast.Name):
                        sub_lists.add(c.func.value.id)
        for n in walk_no_nested(comp.node):
            if isinstance(n, ast.Assign) and len(n.targets) == 1 and isinstance(n.targets[0], ast.Subscript) \
                    and isinstance(n.targets[0].slice, ast.Constant) and isinstance(n.targets[0].slice.value, str):
                name, v = n.targets[0].slice.value, n.value
                if isinstance(v, ast.Call) and len(v.args) == 1 and isinstance(v.args[0], ast.Name) and v.args[0].id in sub_lists:
                    subseq.add(name)
                if isinstance(v, ast.ListComp) and len(v.generators) == 1 and isinstance(v.generators[0].iter, ast.Name) \
                        and v.generators[0].iter.id in sub_lists and isinstance(v.elt, ast.Subscript):
                    fullidx.add(name)
    if len(subseq) < 2 or len(fullidx) < 2:
        raise AnalysisError('CompiledChemicals.compile: sub-sequences / position tables not recognised (%s / %s)' % (sorted(subseq), sorted(fullidx)))
    producers = set()      # methods returning a selection of one of the position tables
    for m in cc.methods.values():
        rets = [r for r in walk_no_nested(m.node) if isinstance(r, ast.Return) and r.value is not None]
        if rets and all(isinstance(r.value, ast.ListComp) and len(r.value.generators) == 1 and isinstance(r.value.generators[0].iter, ast.Attribute)
                        and r.value.generators[0].iter.attr in fullidx and isinstance(r.value.elt, ast.Name)
                        and isinstance(r.value.generators[0].target, ast.Name) and r.value.elt.id == r.value.generators[0].target.id for r in rets):
            producers.add(m.name)

    def is_full_positions(e, idx_names, idx_attrs):
        if isinstance(e, ast.Call) and isinstance(e.func, ast.Attribute) and e.func.attr in producers:
            return True
        if isinstance(e, ast.Attribute) and (e.attr in fullidx or src(e) in idx_attrs):
            return True
        if isinstance(e, ast.Name) and e.id in idx_names:
            return True
        if isinstance(e, ast.IfExp):
            # positions if recomputed else self._kept: the kept attribute is typed through its own assignments (validated below)
            arms = [e.body, e.orelse]
            full = [is_full_positions(a_, idx_names, idx_attrs) for a_ in arms]
            return any(full) and all(fl or (isinstance(a_, ast.Attribute) and isinstance(a_.value, ast.Name) and a_.value.id == 'self' and src(a_) not in banned)
                                     for fl, a_ in zip(full, arms))
        return False
    banned = set()
    n_inst = 0
    by_cls = {}
    for f in prog.all_functions():
        if f.module.rel not in rels:
            continue
        # attributes of self that hold full positions (assigned from them anywhere in the class)
        fams = list(f.cls.methods.values()) if f.cls is not None else [f]
        ck = id(f.cls) if f.cls is not None else id(f)
        banned.clear()         # per class
        while ck not in by_cls:
            idx_attrs = set()
            grew = True
            idx_by_fn = {}
            while grew:
                grew = False
                for g in fams:
                    names = idx_by_fn.setdefault(id(g), set())
                    for n in walk_no_nested(g.node):
                        if isinstance(n, ast.Assign) and is_full_positions(n.value, names, idx_attrs):
                            for t in n.targets:
                                for x in ([t] if not isinstance(t, ast.Tuple) else []):
                                    if isinstance(x, ast.Name) and x.id not in names:
                                        names.add(x.id)
                                        grew = True
                                    if isinstance(x, ast.Attribute) and isinstance(x.value, ast.Name) and x.value.id == 'self' and src(x) not in idx_attrs \
                                            and src(x) not in banned:
                                        idx_attrs.add(src(x))
                                        grew = True
            # an attribute holds full positions only if EVERY assignment of it in the class does (None = nothing remembered yet)
            wrong = set()
            for g in fams:
                for n in walk_no_nested(g.node):
                    if isinstance(n, ast.Assign):
                        for t in n.targets:
                            if isinstance(t, ast.Attribute) and src(t) in idx_attrs and not (
                                    is_full_positions(n.value, idx_by_fn.get(id(g), set()), idx_attrs)
                                    or (isinstance(n.value, ast.Constant) and n.value.value is None)
                                    or (isinstance(n.value, (ast.Tuple, ast.List)) and not n.value.elts)):
                                wrong.add(src(t))
            if not wrong:
                by_cls[ck] = (idx_attrs, idx_by_fn, set(banned))
                break
            banned |= wrong
        idx_attrs, idx_by_fn, bn = by_cls[ck]
        banned.clear()
        banned.update(bn)
        idx_names = idx_by_fn.get(id(f), set())
        # a name that is also bound to something else in this function is not typed
        for n in walk_no_nested(f.node):
            if isinstance(n, ast.Assign):
                for t in n.targets:
                    if isinstance(t, ast.Name) and t.id in idx_names and not is_full_positions(n.value, idx_names, idx_attrs):
                        idx_names = idx_names - {t.id}
        if not idx_names and not idx_attrs:
            continue
        alias = {}         # name -> every value bound to it in this function (None: a binding whose value is not an expression of its own)
        for n in walk_no_nested(f.node):
            if isinstance(n, ast.Assign):
                for t in n.targets:
                    if isinstance(t, ast.Name):
                        alias.setdefault(t.id, []).append(n.value)
                    else:
                        for x in ast.walk(t):
                            if isinstance(x, ast.Name) and isinstance(x.ctx, ast.Store):
                                alias.setdefault(x.id, []).append(None)
            elif isinstance(n, ast.Name) and isinstance(n.ctx, ast.Store) and not isinstance(getattr(n, '_parent', None), ast.Assign):
                alias.setdefault(n.id, []).append(None)
        for a_ in f.params:
            alias.setdefault(a_, []).append(None)

        cfg_box = []

        def reaching(name, at):
            """the values bound to `name` by the assignments that reach expression `at` (None in the list: some other kind of binding,
            or the function entry).  Falls back to every binding in the function when the flow graph cannot place `at`."""
            if not cfg_box:
                cfg_box.append(CFG(f.node))
            cfg = cfg_box[0]
            n0 = cfg.node_of(at)
            if n0 is None:
                return alias.get(name, [None])
            out, seen, stack = [], set(), [p_ for p_, _l in n0.pred]
            # the statement itself may bind the name (x = [x[i] for i in index]): its right-hand side sees the earlier bindings
            while stack:
                nd = stack.pop()
                if nd.id in seen:
                    continue
                seen.add(nd.id)
                bound = None
                for h in header_exprs(nd):
                    if isinstance(h, (ast.FunctionDef, ast.ClassDef, ast.AsyncFunctionDef)):
                        continue
                    if isinstance(h, ast.Assign):
                        for t in h.targets:
                            if isinstance(t, ast.Name) and t.id == name:
                                bound = ('v', h.value)
                            elif any(isinstance(x, ast.Name) and x.id == name and isinstance(x.ctx, ast.Store) for x in ast.walk(t)):
                                bound = ('v', None)
                    elif any(isinstance(x, ast.Name) and x.id == name and isinstance(x.ctx, (ast.Store, ast.Del)) for x in ast.walk(h)):
                        bound = ('v', None)
                if bound is not None:
                    out.append(bound[1])
                    continue
                if nd is cfg.entry or not nd.pred:
                    out.append(None)
                stack.extend(p_ for p_, _l in nd.pred)
            return out or [None]

        def sub_base(b, depth=0, at=None):
            """the reason `b` is a shorter sequence than the full tuple, or None"""
            if isinstance(b, ast.Attribute) and b.attr in subseq:
                return '%s is the sub-sequence %s built by compile()' % (src(b), b.attr)
            if isinstance(b, ast.Name) and depth < 3 and b.id in alias:
                vals = reaching(b.id, at if at is not None else b)
                why = [v is not None and (gathered(v) or sub_base(v, depth + 1, v)) for v in vals]
                if why and all(why):
                    return '%s = %s: %s' % (b.id, src(vals[0]), why[0])
            return None

        def gathered(v):
            if isinstance(v, ast.Subscript) and is_full_positions(v.slice, idx_names, idx_attrs):
                return 'gathered with full positions'
            if isinstance(v, ast.ListComp) and len(v.generators) == 1 and is_full_positions(v.generators[0].iter, idx_names, idx_attrs) \
                    and isinstance(v.elt, ast.Subscript) and isinstance(v.generators[0].target, ast.Name) \
                    and isinstance(v.elt.slice, ast.Name) and v.elt.slice.id == v.generators[0].target.id:
                return 'gathered with full positions'
            return None
        for n in ast.walk(f.node):
            gathers = []
            if isinstance(n, ast.Subscript) and is_full_positions(n.slice, idx_names, idx_attrs):
                gathers.append(n)
            if isinstance(n, (ast.ListComp, ast.GeneratorExp, ast.SetComp)):
                for gen in n.generators:
                    if is_full_positions(gen.iter, idx_names, idx_attrs) and isinstance(gen.target, ast.Name):
                        for s_ in ast.walk(n.elt):
                            if isinstance(s_, ast.Subscript) and isinstance(s_.slice, ast.Name) and s_.slice.id == gen.target.id:
                                gathers.append(s_)
            for s_ in gathers:
                n_inst += 1
                why = sub_base(s_.value)
                cons = f.qualname
                if why:
                    rule.fail(cons, 'full-positions-into-sub-sequence', '%s is subscripted with positions in the full chemical tuple, but %s: the positions '
                              'select other chemicals (or run past the end)' % (src(s_.value), why), f, s_)
                else:
                    rule.ok(cons, '%s[...] gathered with full positions: base is not a sub-sequence' % src(s_.value), f, s_)
    return n_inst, sorted(subseq), sorted(fullidx), sorted(producers)
