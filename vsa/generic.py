"""Rules shared by several properties."""
from __future__ import annotations
import ast
from .cfg import CFG, header_exprs
from .frontend import src, walk_no_nested


def _stmt_of(n):
    while not isinstance(n, ast.stmt):
        n = n._parent
    return n


def stale_alias(prog, eff, f, fields, rule, cons=None):
    """A local bound from self.A, then a call on self whose summary re-binds A,
    then a use of the local.  Reports each (local, call) once."""
    if f.cls is None:
        return 0
    cons = cons or f.qualname
    cfg = None
    n_checked = 0
    for n in walk_no_nested(f.node):
        if not (isinstance(n, ast.Assign) and len(n.targets) == 1 and isinstance(n.targets[0], ast.Name)
                and isinstance(n.value, ast.Attribute) and isinstance(n.value.value, ast.Name)
                and n.value.value.id == 'self' and n.value.attr in fields):
            continue
        if cfg is None:
            cfg = CFG(f.node)
        local, A = n.targets[0].id, n.value.attr
        n0 = cfg.node_of(n)
        if n0 is None:
            continue
        n_checked += 1

        def reassigns(nd):
            if nd is n0:
                return False
            for h in header_exprs(nd):
                if isinstance(h, (ast.FunctionDef, ast.ClassDef)):
                    continue
                for x in ast.walk(h):
                    if isinstance(x, ast.Name) and x.id == local and isinstance(x.ctx, ast.Store):
                        return True
            return False

        def uses(nd):
            for h in header_exprs(nd):
                for x in ast.walk(h):
                    if isinstance(x, ast.Name) and x.id == local and isinstance(x.ctx, ast.Load):
                        return x
            return None

        def rebinding_call(nd):
            for h in header_exprs(nd):
                for x in ast.walk(h):
                    if isinstance(x, ast.Call) and isinstance(x.func, ast.Attribute) and isinstance(x.func.value, ast.Name) \
                            and x.func.value.id == 'self':
                        if A in eff.rebinds(f.cls, x.func.attr):
                            return x
                    if isinstance(x, ast.Attribute) and isinstance(x.ctx, ast.Store) and isinstance(x.value, ast.Name) \
                            and x.value.id == 'self' and x.attr != A:
                        if prog.find_method(f.cls, x.attr, setter=True) is not None and A in eff.rebinds(f.cls, x.attr):
                            return x
            return None
        reach0 = cfg.reachable_from(n0, blocked=reassigns)
        found = False
        for nid in sorted(reach0):
            n1 = cfg.nodes[nid]
            call = rebinding_call(n1)
            if call is None:
                continue
            reach1 = cfg.reachable_from(n1, blocked=reassigns)
            for mid in sorted(reach1):
                n2 = cfg.nodes[mid]
                u = uses(n2)
                if u is not None and not reassigns(n2):
                    rule.fail(cons, 'stale-%s-after-%s' % (local, src(call.func) if isinstance(call, ast.Call) else src(call)),
                              'local %r aliases self.%s (bound at line %d) but %s may re-bind self.%s before %r is used again (line %d)'
                              % (local, A, n.lineno, src(call), A, local, u.lineno), f, _stmt_of(u))
                    found = True
                    break
            if found:
                break
        if not found:
            rule.ok(cons, 'local %r = self.%s is never used after a call that may re-bind self.%s' % (local, A, A), f, n)
    return n_checked
