"""Statement-level control-flow graph for one function.

Nodes are simple statements, branch tests (``If``/``While`` tests, ``For``
headers, ``with`` headers, ``except`` headers) and three synthetic nodes:
ENTRY, EXIT (normal return / fall off the end) and RAISE (exceptional exit).
Edges carry a label: None, True or False (outcome of a test node; for a ``For``
header True = "another item", False = "exhausted").

try/except is modelled conservatively: every node created inside a ``try``
body has an edge to every handler of that ``try`` (and to RAISE when no bare /
``Exception`` handler exists).  ``finally`` bodies are inlined on the normal
exit path and (once) on the exceptional path.
"""
from __future__ import annotations
import ast
from .frontend import src


class Node:
    __slots__ = ('id', 'kind', 'ast', 'succ', 'pred', 'loop')

    def __init__(self, id, kind, node=None):
        self.id = id
        self.kind = kind      # entry exit raise stmt test for with except return raiseS
        self.ast = node
        self.succ = []        # (Node, label)
        self.pred = []
        self.loop = None

    @property
    def lineno(self):
        return getattr(self.ast, 'lineno', 0)

    def __repr__(self):
        return '<%d %s %s>' % (self.id, self.kind, src(self.ast)[:50] if self.ast is not None else '')


class CFG:
    def __init__(self, fn_node):
        self.fn = fn_node
        self.nodes = []
        self.entry = self._new('entry')
        self.exit = self._new('exit')
        self.raise_ = self._new('raise')
        self._loops = []      # stack of (head node, break-exits list)
        self._handlers = []   # stack of lists of handler entry nodes (+ catch-all flag)
        self._finals = []
        outs = self._block(fn_node.body, [(self.entry, None)])
        for n, l in outs:
            self._edge(n, self.exit, l)

    # ------------------------------------------------------------------
    def _new(self, kind, node=None):
        n = Node(len(self.nodes), kind, node)
        self.nodes.append(n)
        return n

    def _edge(self, a, b, label=None):
        a.succ.append((b, label))
        b.pred.append((a, label))

    def _connect(self, preds, n):
        for p, l in preds:
            self._edge(p, n, l)

    def _may_raise(self, n):
        """inside try bodies: edge to each enclosing handler"""
        if self._handlers:
            hs, catch_all = self._handlers[-1]
            for h in hs:
                self._edge(n, h, 'exc')
            if not catch_all:
                self._raise_out(n, skip=1)
        # outside try: implicit raise edges are not materialised (too noisy);
        # rules that care about exceptional exits use explicit ``raise`` only.

    def _raise_out(self, n, skip=0):
        # propagate to outer handlers
        idx = len(self._handlers) - 1 - skip
        if idx >= 0:
            hs, catch_all = self._handlers[idx]
            for h in hs:
                self._edge(n, h, 'exc')
            if catch_all:
                return
            self._raise_out(n, skip + 1)
        else:
            self._edge(n, self.raise_, 'exc')

    def _block(self, stmts, preds):
        for st in stmts:
            preds = self._stmt(st, preds)
        return preds

    def _stmt(self, st, preds):
        if isinstance(st, ast.If):
            t = self._new('test', st)
            self._connect(preds, t)
            self._may_raise(t)
            a = self._block(st.body, [(t, True)])
            b = self._block(st.orelse, [(t, False)]) if st.orelse else [(t, False)]
            return a + b
        if isinstance(st, (ast.For, ast.AsyncFor)):
            h = self._new('for', st)
            self._connect(preds, h)
            self._may_raise(h)
            brk = []
            self._loops.append((h, brk))
            body = self._block(st.body, [(h, True)])
            self._loops.pop()
            for n, l in body:
                self._edge(n, h, l if n is h else 'back' if l is None else l)
            outs = self._block(st.orelse, [(h, False)]) if st.orelse else [(h, False)]
            return outs + brk
        if isinstance(st, ast.While):
            h = self._new('test', st)
            self._connect(preds, h)
            self._may_raise(h)
            brk = []
            self._loops.append((h, brk))
            body = self._block(st.body, [(h, True)])
            self._loops.pop()
            for n, l in body:
                self._edge(n, h, 'back' if l is None else l)
            const_true = isinstance(st.test, ast.Constant) and bool(st.test.value)
            outs = [] if const_true else [(h, False)]
            if st.orelse:
                outs = self._block(st.orelse, outs)
            return outs + brk
        if isinstance(st, (ast.With, ast.AsyncWith)):
            w = self._new('with', st)
            self._connect(preds, w)
            self._may_raise(w)
            return self._block(st.body, [(w, None)])
        if isinstance(st, ast.Try) or st.__class__.__name__ == 'TryStar':
            hnodes = []
            catch_all = False
            for h in st.handlers:
                hn = self._new('except', h)
                hnodes.append(hn)
                if h.type is None or src(h.type) in ('Exception', 'BaseException'):
                    catch_all = True
            self._handlers.append((hnodes, catch_all))
            start = self._new('try', st)
            self._connect(preds, start)
            body = self._block(st.body, [(start, None)])
            self._handlers.pop()
            if st.orelse:
                body = self._block(st.orelse, body)
            outs = list(body)
            for hn, h in zip(hnodes, st.handlers):
                outs += self._block(h.body, [(hn, None)])
            if st.finalbody:
                outs = self._block(st.finalbody, outs)
            return outs
        if isinstance(st, ast.Return):
            n = self._new('return', st)
            self._connect(preds, n)
            self._may_raise(n)
            self._edge(n, self.exit, None)
            return []
        if isinstance(st, ast.Raise):
            n = self._new('raiseS', st)
            self._connect(preds, n)
            self._raise_out(n)
            return []
        if isinstance(st, ast.Break):
            n = self._new('stmt', st)
            self._connect(preds, n)
            if self._loops:
                self._loops[-1][1].append((n, None))
            return []
        if isinstance(st, ast.Continue):
            n = self._new('stmt', st)
            self._connect(preds, n)
            if self._loops:
                self._edge(n, self._loops[-1][0], 'back')
            return []
        if isinstance(st, ast.Match):
            t = self._new('test', st)
            self._connect(preds, t)
            outs = []
            for case in st.cases:
                outs += self._block(case.body, [(t, True)])
            return outs + [(t, False)]
        if isinstance(st, (ast.FunctionDef, ast.AsyncFunctionDef, ast.ClassDef)):
            n = self._new('stmt', st)
            self._connect(preds, n)
            return [(n, None)]
        n = self._new('stmt', st)
        self._connect(preds, n)
        self._may_raise(n)
        return [(n, None)]

    # ------------------------------------------------------------------
    # queries
    def reachable_from(self, start, blocked=lambda n: False, labels=None, skip_exc=True):
        """nodes reachable from `start` (exclusive) without entering blocked nodes."""
        seen = set()
        stack = [start]
        while stack:
            n = stack.pop()
            for s, l in n.succ:
                if skip_exc and l == 'exc':
                    continue
                if s.id in seen or blocked(s):
                    continue
                seen.add(s.id)
                stack.append(s)
        return seen

    def path_avoiding(self, start, goal, blocked, skip_exc=True, edge_blocked=None):
        """A path (list of nodes) from start to goal that never enters a blocked
        node, or None.  BFS => shortest witness."""
        from collections import deque
        prev = {start.id: None}
        dq = deque([start])
        while dq:
            n = dq.popleft()
            if n is goal:
                out = []
                while n is not None:
                    out.append(n)
                    n = prev[n.id]
                return out[::-1]
            for s, l in n.succ:
                if skip_exc and l == 'exc':
                    continue
                if s.id in prev or (blocked(s) and s is not goal):
                    continue
                if edge_blocked is not None and edge_blocked(n, s, l):
                    continue
                prev[s.id] = n
                dq.append(s)
        return None

    def must_pass(self, start, pred, goal=None, skip_exc=True, edge_blocked=None):
        """True iff every path start ->* goal (default: normal EXIT) passes through a
        node satisfying pred.  Returns (ok, witness_path)."""
        goal = goal or self.exit
        if pred(start):
            return True, None
        p = self.path_avoiding(start, goal, pred, skip_exc, edge_blocked)
        return (p is None), p

    def dominators(self):
        """id -> set of ids dominating it (normal + exc edges)."""
        ids = [n.id for n in self.nodes]
        allset = set(ids)
        dom = {i: set(allset) for i in ids}
        dom[self.entry.id] = {self.entry.id}
        changed = True
        while changed:
            changed = False
            for n in self.nodes:
                if n is self.entry:
                    continue
                ps = [p for p, l in n.pred]
                if not ps:
                    new = {n.id}
                else:
                    new = set.intersection(*[dom[p.id] for p in ps]) | {n.id}
                if new != dom[n.id]:
                    dom[n.id] = new
                    changed = True
        return dom

    def node_of(self, stmt):
        for n in self.nodes:
            if n.ast is stmt:
                return n
        # statement nested inside a simple statement node
        for n in self.nodes:
            if n.ast is not None and n.kind in ('stmt', 'return', 'raiseS'):
                for sub in ast.walk(n.ast):
                    if sub is stmt:
                        return n
        # expression inside a test / for header / with header
        for n in self.nodes:
            if n.ast is None:
                continue
            hdr = header_exprs(n)
            for h in hdr:
                for sub in ast.walk(h):
                    if sub is stmt:
                        return n
        return None

    def paths(self, limit=4000, loop_unroll=1, skip_exc=True, goal_raise=False):
        """Enumerate entry->exit paths; each loop back edge is taken at most
        `loop_unroll` times per path.  Yields lists of (node, label_taken)."""
        out = []
        goal = {self.exit.id}
        if goal_raise:
            goal.add(self.raise_.id)

        def rec(n, path, backs):
            if len(out) >= limit:
                return
            if n.id in goal:
                out.append(list(path))
                return
            for s, l in n.succ:
                if skip_exc and l == 'exc':
                    continue
                key = (n.id, s.id)
                is_back = s.kind in ('for', 'test') and s.id <= n.id and any(
                    x[0] is s for x in path)
                if is_back:
                    c = backs.get(key, 0)
                    if c >= loop_unroll:
                        continue
                    backs = dict(backs)
                    backs[key] = c + 1
                path.append((s, l))
                rec(s, path, backs)
                path.pop()
        rec(self.entry, [(self.entry, None)], {})
        return out


def header_exprs(n):
    """expressions evaluated AT a non-simple node"""
    a = n.ast
    if n.kind == 'test':
        if isinstance(a, ast.Match):
            return [a.subject]
        return [a.test]
    if n.kind == 'for':
        return [a.iter, a.target]
    if n.kind == 'with':
        out = []
        for it in a.items:
            out.append(it.context_expr)
            if it.optional_vars is not None:
                out.append(it.optional_vars)
        return out
    if n.kind == 'except':
        return [a.type] if a.type is not None else []
    if n.kind in ('stmt', 'return', 'raiseS'):
        return [a]
    return []


def node_exprs(n):
    """Everything evaluated at node n, as a list of ast nodes to walk."""
    return header_exprs(n)
