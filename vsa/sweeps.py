"""Thorough tier: the property-independent rules swept over the WHOLE package.

Hits outside the property's anchored constructs are reported as notes in the
evidence (they are leads for triage, never violations: a sweep has no frozen
instance table and no proof that the hit lies inside a property's quantifier).
"""
from __future__ import annotations
import ast, re
from .frontend import src, walk_no_nested
from .effects import Effects
from .cfg import CFG


class _Collector:
    """duck-types report.Rule for the shared rule functions"""

    def __init__(self):
        self.hits = []
        self.n_ok = 0

    def ok(self, *a, **k):
        self.n_ok += 1

    def skip(self, *a, **k):
        pass

    def note(self, *a, **k):
        pass

    def fail(self, construct, tag, what, fn=None, node=None, witness=None):
        where = ''
        if fn is not None:
            where = fn.origin or '%s:%d' % (fn.module.rel, getattr(node, 'lineno', None) or fn.node.lineno)
        self.hits.append({'construct': construct, 'tag': tag, 'what': what, 'where': where})


def _blocks(fn):
    for n in ast.walk(fn):
        for fld in ('body', 'orelse', 'finalbody'):
            b = getattr(n, fld, None)
            if isinstance(b, list) and b and isinstance(b[0], ast.stmt):
                yield b


def dead_stores(prog):
    out = []
    n = 0
    for f in prog.all_functions():
        for blk in _blocks(f.node):
            for a, b in zip(blk, blk[1:]):
                if not (isinstance(a, ast.Assign) and isinstance(b, ast.Assign)):
                    continue
                for x in [t for t in a.targets if isinstance(t, (ast.Subscript, ast.Attribute))]:
                    n += 1
                    for y in [t for t in b.targets if isinstance(t, (ast.Subscript, ast.Attribute))]:
                        if src(x) == src(y):
                            base = x
                            while isinstance(base, (ast.Subscript, ast.Attribute)):
                                base = base.value
                            reads = [m for m in ast.walk(b.value) if (isinstance(m, (ast.Subscript, ast.Attribute)) and src(m) == src(x))
                                     or (isinstance(m, ast.Name) and isinstance(base, ast.Name) and m.id == base.id)]
                            calls = [m for m in ast.walk(b.value) if isinstance(m, ast.Call)]
                            if not reads and not (isinstance(x, ast.Attribute) and calls):
                                out.append({'construct': f.qualname, 'tag': 'dead-store', 'where': '%s:%d' % (f.module.rel, a.lineno),
                                            'what': '%s written and immediately overwritten without being read' % src(x)})
    return n, out


def one_sided_tolerances(prog):
    out = []
    n = 0
    for f in prog.all_functions():
        for node in walk_no_nested(f.node):
            if isinstance(node, ast.Compare) and len(node.ops) == 1 and isinstance(node.ops[0], (ast.Lt, ast.LtE)) \
                    and re.search(r'tol(erance)?\b|_tol\b', src(node.comparators[0])):
                n += 1
                left = node.left
                if isinstance(left, ast.BinOp) and isinstance(left.op, ast.Sub):
                    out.append({'construct': f.qualname, 'tag': 'one-sided-tolerance', 'where': '%s:%d' % (f.module.rel, node.lineno),
                                'what': 'signed difference compared with a tolerance: %s' % src(node)})
    return n, out


def discarded_optionals(prog):
    out = []
    n = 0
    for f in prog.all_functions():
        a = f.node.args
        params = [x.arg for x in a.posonlyargs + a.args + a.kwonlyargs if x.arg not in ('self', 'cls')]
        for p in params:
            tested = False
            uses = 0
            for m in walk_no_nested(f.node):
                if isinstance(m, ast.Name) and m.id == p and isinstance(m.ctx, ast.Load):
                    par = m._parent
                    if isinstance(par, ast.Compare) and len(par.comparators) == 1 and isinstance(par.comparators[0], ast.Constant) \
                            and par.comparators[0].value is None and par.left is m:
                        tested = True
                        continue
                    uses += 1
                if isinstance(m, ast.Name) and m.id == p and isinstance(m.ctx, ast.Store):
                    uses += 1    # re-bound (defaulting idiom  x = x or ...)
            if tested:
                n += 1
                if uses == 0:
                    out.append({'construct': f.qualname, 'tag': 'discarded-optional', 'where': '%s:%d' % (f.module.rel, f.node.lineno),
                                'what': 'parameter %r is compared with None but never used as a value' % p})
    return n, out


def nonsense_loops(prog):
    out = []
    n = 0
    for f in prog.all_functions():
        for node in walk_no_nested(f.node):
            if isinstance(node, ast.For):
                n += 1
                if isinstance(node.iter, ast.Constant) and not isinstance(node.iter.value, (str, bytes)):
                    out.append({'construct': f.qualname, 'tag': 'loop-over-noniterable', 'where': '%s:%d' % (f.module.rel, node.lineno),
                                'what': 'for-loop over the constant %r' % node.iter.value})
                # deleting from the dict being iterated
                it = src(node.iter)
                base = re.sub(r'\.(keys|items|values)\(\)$', '', it)
                for x in ast.walk(node):
                    if isinstance(x, ast.Delete) and any(isinstance(t, ast.Subscript) and src(t.value) == base for t in x.targets):
                        # `del d[k]; break` leaves the loop before the iterator is advanced again
                        blk = getattr(x._parent, 'body', [])
                        if x in blk and blk.index(x) + 1 < len(blk) and isinstance(blk[blk.index(x) + 1], ast.Break):
                            continue
                        out.append({'construct': f.qualname, 'tag': 'mutation-while-iterating', 'where': '%s:%d' % (f.module.rel, node.lineno),
                                    'what': 'entries of %s are deleted while it is being iterated' % base})
                        break
    return n, out


def stale_aliases(prog):
    from .generic import stale_alias
    eff = Effects(prog)
    col = _Collector()
    n = 0
    for m in prog.modules.values():
        for c in m.classes.values():
            # fields that some method of the class re-binds outside constructors
            fields = set()
            for f in list(c.methods.values()) + list(c.setters.values()):
                if f.cls is c and f.name not in ('__init__', '__new__'):
                    rb, mu, calls = eff.direct(f)
                    fields |= rb
            if not fields:
                continue
            seen = set()
            for f in list(c.methods.values()) + list(c.setters.values()):
                if f.cls is c and id(f) not in seen:
                    seen.add(id(f))
                    try:
                        n += stale_alias(prog, eff, f, fields, col) or 0
                    except RecursionError:
                        pass
    return n, col.hits


def refills(prog):
    from .generic import guarded_refill_needs_empty
    col = _Collector()
    n = 0
    for f in prog.all_functions():
        if f.module.rel.endswith('base/sparse.py'):
            continue      # arithmetic kernels: covered by the non-zero dataflow (C09-D1), the refill premise does not apply
        try:
            n += guarded_refill_needs_empty(prog, f, col) or 0
        except Exception:
            pass
    return n, col.hits


def unstorable(prog):
    from .generic import storable_attributes
    col = _Collector()
    n = storable_attributes(prog, col)
    return n, col.hits


def unassigned(prog):
    from .generic import possibly_unassigned
    n = 0
    out = []
    for f in prog.all_functions():
        try:
            hits = possibly_unassigned(f)
        except Exception:
            continue
        n += 1
        done = set()
        for name, x, nd in hits:
            # the loop variable read after the loop is an idiom (zero iterations are excluded by the callers)
            if name in done:
                continue
            done.add(name)
            out.append({'construct': f.qualname, 'tag': 'possibly-unassigned', 'where': '%s:%d' % (f.module.rel, x.lineno),
                        'what': 'local %r may be read before assignment (path-insensitive: correlated tests are not recognised)' % name})
    return n, out


def mask_misuse(prog):
    from .generic import selection_mask_misuse
    col = _Collector()
    n = selection_mask_misuse(prog, col)
    return n, col.hits


def run(prog):
    res = {}
    for name, fn in (('selection-mask', mask_misuse), ('possibly-unassigned', unassigned), ('unstorable-attribute', unstorable), ('dead-store', dead_stores), ('one-sided-tolerance', one_sided_tolerances), ('discarded-optional', discarded_optionals),
                     ('loop / iteration', nonsense_loops), ('stale-alias', stale_aliases), ('refill-needs-empty', refills)):
        try:
            n, hits = fn(prog)
        except Exception as e:      # pragma: no cover
            n, hits = 0, [{'construct': '?', 'tag': 'sweep-error', 'what': repr(e), 'where': ''}]
        res[name] = {'sites_examined': n, 'hits': hits}
    return res


if __name__ == '__main__':
    import sys, warnings
    warnings.simplefilter('ignore')
    from .frontend import Program
    r = run(Program())
    for k, v in r.items():
        print('%-22s %5d sites, %d hits' % (k, v['sites_examined'], len(v['hits'])))
        for h in v['hits']:
            print('    %s @%s -- %s' % (h['construct'], h['where'], h['what'][:200]))
