"""Run a property's rules; where a rule does not reach a verdict of `holds` on the source as written, decide it again
on the normal form of the program (normalize.py: helpers inlined, literal loops unrolled, ...).  The two programs are
equivalent, so a rule discharged on either one is discharged; a rule that reports a finding on both reports it."""
from __future__ import annotations
import importlib, os
from . import frontend, report


def _known_keys(pid):
    return {k['key'] for k in report.load_known().get('known', []) if k['property'] == pid}


def _bad(rule, known):
    if any(f['key'] not in known for f in rule.findings):
        return True
    return len(rule.instances) < rule.floor and not rule.findings


def decide(pid, repo=None, tier='quick', seed=0, only=None):
    """-> ctx (raises frontend.AnalysisError when an anchor is missing in both forms)"""
    mod = importlib.import_module('vsa.rules.' + pid)
    prog = frontend.Program(repo)
    ctx = report.Ctx(pid, tier, prog, seed)
    ctx.only = only
    err = None
    try:
        mod.run(ctx)
    except frontend.AnalysisError as e:
        err = e
    known = _known_keys(pid)
    bad = [r for r in ctx.rules if _bad(r, known)]
    force = os.environ.get('VSA_FORCE_NORMAL') == '1'     # debugging aid: decide everything on the normal form
    if force:
        prog2 = frontend.Program(repo)
        prog2.enable_normal_form()
        ctx2 = report.Ctx(pid, tier, prog2, seed)
        ctx2.only = only
        mod.run(ctx2)
        return ctx2
    if err is None and not bad:
        return ctx
    prog2 = frontend.Program(repo)
    nz = prog2.enable_normal_form()
    ctx2 = report.Ctx(pid, tier, prog2, seed)
    ctx2.only = only
    try:
        mod.run(ctx2)
    except frontend.AnalysisError:
        if err is not None:
            raise err
        return ctx
    info = {'reason': str(err) if err is not None else 'rules without a verdict on the source as written: ' +
            ', '.join(r.id for r in bad),
            'helpers_inlined': {k: v for k, v in sorted(nz.log.items()) if v},
            'helpers_absorbed': sorted(prog2.absorbed), 'rules_decided_on_normal_form': []}
    if err is not None:
        # the source as written hides an anchor; the normal form is the program that is analysed
        for r in ctx2.rules:
            r.desc += ' [normal form]'
        info['rules_decided_on_normal_form'] = [r.id for r in ctx2.rules]
        ctx2.extra['normal_form'] = info
        return ctx2
    by_id = {r.id: r for r in ctx2.rules}
    for i, r in enumerate(ctx.rules):
        r2 = by_id.get(r.id)
        if r in bad and r2 is not None and not _bad(r2, known):
            r2.ctx = ctx
            r2.desc += ' [normal form]'
            ctx.rules[i] = r2
            info['rules_decided_on_normal_form'].append(r.id)
    if info['rules_decided_on_normal_form']:
        ctx.extra['normal_form'] = info
    return ctx
