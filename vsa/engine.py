"""Run a property's rules on the source as written AND on the normal form of the program (normalize.py: helpers inlined, literal
loops unrolled, ...).  The two programs are equivalent.  Per rule:

  * no verdict on the source as written (finding, missing anchor, instance shortfall) but discharged on the normal form
    -> discharged (the rule did not recognise a shape; the equivalent program shows the clause holds);
  * discharged on the source as written, but the normal form yields a finding for a construct that the run on the source as
    written did NOT examine (no instance of that rule names it) -> the finding stands: the rule was vacuous there (typically
    the code it looks for sits in a helper); a finding for a construct that WAS examined and discharged as written is
    a disagreement about the same obligation and is dropped (recorded in the evidence) -- unless the offending statement comes from
    a helper body spliced in by the normal form (the run as written discharged the obligation without seeing that statement), or the
    rule is observational (its findings report a forbidden construct that was seen, its discharges only that none was): then the
    finding stands;
  * findings on both forms: per construct, a finding as written whose construct the normal form examines and discharges gives way
    (unrecognised shape), a finding of the normal form for a construct not examined or also failing as written is added; if the
    two forms disagree on every construct, all findings of both are reported."""
from __future__ import annotations
import importlib, os
from . import frontend, report


def _known_keys(pid):
    return {k['key'] for k in report.load_known().get('known', []) if k['property'] == pid}


def _bad(rule, known):
    if any(f['key'] not in known for f in rule.findings):
        return True
    return len(rule.instances) < rule.floor and not rule.findings


def decide(pid, repo=None, tier='quick', seed=0, only=None):
    """-> ctx (raises frontend.AnalysisError when an anchor is missing in both forms)"""
    mod = importlib.import_module('vsa.rules.' + pid)
    prog = frontend.Program(repo)
    ctx = report.Ctx(pid, tier, prog, seed)
    ctx.only = only
    err = None
    try:
        mod.run(ctx)
    except frontend.AnalysisError as e:
        err = e
    known = _known_keys(pid)
    bad = [r for r in ctx.rules if _bad(r, known)]
    force = os.environ.get('VSA_FORCE_NORMAL') == '1'     # debugging aid: decide everything on the normal form
    if force:
        prog2 = frontend.Program(repo)
        prog2.enable_normal_form()
        ctx2 = report.Ctx(pid, tier, prog2, seed)
        ctx2.only = only
        mod.run(ctx2)
        return ctx2
    prog2 = frontend.Program(repo)
    nz = prog2.enable_normal_form()
    ctx2 = report.Ctx(pid, tier, prog2, seed)
    ctx2.only = only
    err2 = None
    try:
        mod.run(ctx2)
    except frontend.AnalysisError as e2:
        err2 = e2
    if err2 is not None:
        if err is not None:
            raise err
        return ctx
    info = {'reason': (str(err) if err is not None else ('rules without a verdict on the source as written: ' + ', '.join(r.id for r in bad)) if bad else
                       'completion of the run on the source as written'),
            'helpers_inlined_in_functions': len([1 for v in nz.log.values() if v]),
            'helpers_absorbed': sorted(prog2.absorbed), 'rules_decided_on_normal_form': [],
            'findings_seen_only_on_normal_form': [], 'normal_form_findings_dropped_because_examined_and_discharged_as_written': []}
    if err is not None:
        # the source as written hides an anchor; the normal form is the program that is analysed
        for r in ctx2.rules:
            r.desc += ' [normal form]'
        info['rules_decided_on_normal_form'] = [r.id for r in ctx2.rules]
        ctx2.extra['normal_form'] = info
        return ctx2
    by_id = {r.id: r for r in ctx2.rules}
    for i, r in enumerate(ctx.rules):
        r2 = by_id.get(r.id)
        if r2 is None:
            continue
        if r in bad:
            if not _bad(r2, known):
                r2.ctx = ctx
                r2.desc += ' [normal form]'
                ctx.rules[i] = r2
                info['rules_decided_on_normal_form'].append(r.id)
            elif r.findings and r2.findings:
                # a finding on both forms.  Per construct: a finding as written for a construct that the normal form examines and
                # discharges is an unrecognised shape (same argument as above) and gives way to what the normal form reports; a
                # finding of the normal form for a construct not examined (or also failing) as written is added.  When the two forms
                # disagree on every construct, everything is reported.
                def discharged(rule):
                    failing = {f['construct'] for f in rule.findings}
                    return {x['construct'] for x in rule.instances} - failing
                d1_, d2_ = discharged(r), discharged(r2)
                k2 = {g['key'] for g in r2.findings}
                k1 = {f['key'] for f in r.findings}
                # (a private helper that the normal form absorbed is examined there in the context of each caller, not on its own)
                keep = [f for f in r.findings if f['key'] in known or f['key'] in k2
                        or (f['construct'] not in d2_ and f.get('fn') not in prog2.absorbed)]
                add = [g for g in r2.findings if g['key'] not in k1 and g['key'] not in known
                       and (g['construct'] not in d1_ or g.get('origin') or getattr(r2, 'observational', False))]
                if not any(f['key'] not in known for f in keep + add):
                    keep, add = list(r.findings), [g for g in r2.findings if g['key'] not in k1]
                dropped = [f['key'] for f in r.findings if f not in keep]
                r.findings[:] = keep
                for g in add:
                    g = dict(g)
                    g['what'] += '  [seen on the normal form]'
                    r.findings.append(g)
                    r.instances.append({'construct': g['construct'], 'fact': 'FAILED (normal form): ' + g['what'], 'where': g['where'], 'ok': False})
                    info['findings_seen_only_on_normal_form'].append(g['key'])
                if dropped:
                    info.setdefault('findings_as_written_dropped_because_examined_and_discharged_on_normal_form', []).extend(dropped)
            continue
        # completion: findings that only the normal form can see (constructs this rule did not examine as written)
        examined = {x['construct'] for x in r.instances}
        for f in r2.findings:
            if f['key'] in known or any(g['key'] == f['key'] for g in r.findings):
                continue
            opaque = f.get('origin')      # the offending statement comes from the body of a helper that the run on the source as written could not see
            if f['construct'] in examined and not opaque and not getattr(r2, 'observational', False):
                info['normal_form_findings_dropped_because_examined_and_discharged_as_written'].append(f['key'])
                continue
            f = dict(f)
            f['what'] += (('  [seen on the normal form only: as written, the fact sits behind the call of %s, which the rule does not look into]' % opaque
                           if opaque else '  [seen on the normal form only: the equivalent program shows the construct that the rule forbids]')
                          if f['construct'] in examined else
                          '  [seen on the normal form only: as written, the rule examines no instance of this construct]')
            r.findings.append(f)
            r.instances.append({'construct': f['construct'], 'fact': 'FAILED (normal form): ' + f['what'], 'where': f['where'], 'ok': False})
            info['findings_seen_only_on_normal_form'].append(f['key'])
    if info['rules_decided_on_normal_form'] or info['findings_seen_only_on_normal_form'] or \
            info.get('findings_as_written_dropped_because_examined_and_discharged_on_normal_form') or \
            info['normal_form_findings_dropped_because_examined_and_discharged_as_written']:
        ctx.extra['normal_form'] = info
    return ctx
