"""Self-test of the checker (part of every thorough run).

* must-fire: one-edit mutants of the current tree (scratch copies of the .py
  files, compiled with compile() only -- nothing is imported or run); the
  property's rules must report a finding on the mutated construct.
* must-stay-silent: behaviour-preserving variants of the whole tree
  (ast.unparse round trip: all positions/formatting change); the set of finding
  keys must equal the unchanged tree's.

Outcomes are evidence only; they never change a check's exit status.
"""
from __future__ import annotations
import ast, os, re, shutil, sys, tempfile, importlib, io, contextlib, warnings, json
from concurrent.futures import ProcessPoolExecutor
from . import REPO, PKG

warnings.simplefilter('ignore')


def copy_py_tree(src_repo, dst_repo):
    root = os.path.join(src_repo, PKG)
    for dp, dn, fn in os.walk(root):
        dn[:] = [d for d in dn if d != '__pycache__']
        rel = os.path.relpath(dp, src_repo)
        os.makedirs(os.path.join(dst_repo, rel), exist_ok=True)
        for f in fn:
            if f.endswith('.py'):
                shutil.copy2(os.path.join(dp, f), os.path.join(dst_repo, rel, f))


def run_rules(pid, repo):
    from . import frontend, report, engine
    try:
        ctx = engine.decide(pid, repo, 'quick', 0, None)
    except frontend.AnalysisError as e:
        return {'error': str(e), 'keys': [], 'floor': []}
    keys = []
    floor = []
    for r in ctx.rules:
        if len(r.instances) < r.floor and not r.findings:
            floor.append(r.id)
        for f in r.findings:
            keys.append(f['key'])
    known = {k['key'] for k in report.load_known().get('known', []) if k['property'] == pid}
    if any(k not in known for k in keys):
        floor = []          # same policy as report.finish: a located violation takes precedence over an instance shortfall
    return {'error': None, 'keys': sorted(set(keys)), 'floor': floor}


def _mutant_job(args):
    pid, m, base_keys, src_repo = args
    d = tempfile.mkdtemp(prefix='vsa_st_')
    try:
        copy_py_tree(src_repo, d)
        path = os.path.join(d, m['file'])
        with open(path, encoding='utf-8') as fh:
            s = fh.read()
        flags = re.S if m.get('dotall') else 0
        s2, n = re.subn(m['pat'], m['rep'], s, count=1, flags=flags)
        if n == 0:
            return {'name': m['name'], 'status': 'skipped', 'why': 'pattern not found (anchor changed)'}
        try:
            compile(s2, path, 'exec')
        except SyntaxError as e:
            return {'name': m['name'], 'status': 'skipped', 'why': 'mutant does not compile: %s' % e}
        with open(path, 'w', encoding='utf-8') as fh:
            fh.write(s2)
        with contextlib.redirect_stdout(io.StringIO()):
            res = run_rules(pid, d)
        new = [k for k in res['keys'] if k not in base_keys]
        exp = m.get('expect')
        if res['error'] or res['floor']:
            return {'name': m['name'], 'status': 'killed-as-analysis-error', 'detail': res['error'] or res['floor']}
        if new and (exp is None or any(exp in k for k in new)):
            return {'name': m['name'], 'status': 'killed', 'finding': new[0]}
        if new:
            return {'name': m['name'], 'status': 'killed-elsewhere', 'finding': new[0], 'expected': exp}
        return {'name': m['name'], 'status': 'SURVIVED', 'expected': exp}
    except Exception as e:       # pragma: no cover
        return {'name': m['name'], 'status': 'error', 'why': repr(e)}
    finally:
        shutil.rmtree(d, ignore_errors=True)


def _benign_job(args):
    pid, kind, base_keys, src_repo = args
    d = tempfile.mkdtemp(prefix='vsa_st_')
    try:
        copy_py_tree(src_repo, d)
        n = 0
        for dp, dn, fn in os.walk(os.path.join(d, PKG)):
            for f in fn:
                if not f.endswith('.py'):
                    continue
                p = os.path.join(dp, f)
                with open(p, encoding='utf-8') as fh:
                    s = fh.read()
                try:
                    with warnings.catch_warnings():
                        warnings.simplefilter('ignore')
                        tree = ast.parse(s)
                    if kind == 'unparse':
                        out = ast.unparse(tree)
                    elif kind == 'unparse+noise':
                        # insert a no-op statement at the top of every function body and a blank docstring-free pass at module end
                        for node in ast.walk(tree):
                            if isinstance(node, (ast.FunctionDef,)):
                                node.body.insert(1 if (node.body and isinstance(node.body[0], ast.Expr) and isinstance(getattr(node.body[0], 'value', None), ast.Constant)) else 0,
                                                 ast.parse('_vsa_noop_ = None').body[0])
                        ast.fix_missing_locations(tree)
                        out = ast.unparse(tree)
                    elif kind == 'rename-locals':
                        rename_locals(tree)
                        out = ast.unparse(tree)
                    else:
                        out = s
                    compile(out, p, 'exec')
                except Exception:
                    continue
                with open(p, 'w', encoding='utf-8') as fh:
                    fh.write(out)
                n += 1
        with contextlib.redirect_stdout(io.StringIO()):
            res = run_rules(pid, d)
        same = (res['keys'] == sorted(base_keys)) and not res['error'] and not res['floor']
        return {'variant': kind, 'files_rewritten': n, 'silent': bool(same),
                'extra': [k for k in res['keys'] if k not in base_keys], 'missing': [k for k in base_keys if k not in res['keys']],
                'error': res['error'], 'floor': res['floor']}
    finally:
        shutil.rmtree(d, ignore_errors=True)


def _seeded_job(args):
    pid, sdir, base_keys, src_repo = args
    import subprocess
    d = tempfile.mkdtemp(prefix='vsa_st_')
    try:
        copy_py_tree(src_repo, d)
        meta = json.load(open(os.path.join(sdir, 'meta.json')))
        patches = [os.path.join(sdir, 'patch.diff')]
        if meta.get('base'):
            # a seed written on top of a behaviour-preserving refactoring (benign/<id>): that refactoring is applied first
            patches.insert(0, os.path.join(os.path.dirname(os.path.dirname(os.path.abspath(sdir))), meta['base'], 'patch.diff'))
        for pf in patches:
            r = subprocess.run(['git', 'apply', '--unsafe-paths', '--directory=' + d, pf], cwd=d, capture_output=True, text=True)
            if r.returncode != 0:
                r = subprocess.run(['patch', '-p1', '-s', '-i', pf], cwd=d, capture_output=True, text=True)
            if r.returncode != 0:
                return {'seed': os.path.basename(sdir), 'status': 'skipped', 'why': 'patch does not apply to the current tree'}
        with contextlib.redirect_stdout(io.StringIO()):
            res = run_rules(pid, d)
        new = [k for k in res['keys'] if k not in base_keys]
        if res['error'] or res['floor']:
            return {'seed': os.path.basename(sdir), 'status': 'analysis-error', 'detail': res['error'] or res['floor']}
        if meta.get('expect') == 'silent':
            # an edit that stopped breaking the property after a repair in /repo: the check must NOT fire on it
            return {'seed': os.path.basename(sdir), 'status': 'silent-as-expected' if not new else 'FALSE-ALARM', 'finding': new[:2]}
        return {'seed': os.path.basename(sdir), 'status': 'detected' if new else 'MISSED', 'finding': new[:2]}
    finally:
        shutil.rmtree(d, ignore_errors=True)


def _benign_patch_job(args):
    """a behaviour-preserving refactoring written by an independent agent (benign/<id>/patch.diff): the check must stay silent"""
    pid, bdir, base_keys, src_repo = args
    import subprocess
    d = tempfile.mkdtemp(prefix='vsa_bp_')
    try:
        copy_py_tree(src_repo, d)
        r = subprocess.run(['git', 'apply', '--unsafe-paths', '--directory=' + d, os.path.join(bdir, 'patch.diff')], cwd=d, capture_output=True, text=True)
        if r.returncode != 0:
            r = subprocess.run(['patch', '-p1', '-s', '-i', os.path.join(bdir, 'patch.diff')], cwd=d, capture_output=True, text=True)
        if r.returncode != 0:
            return {'patch': os.path.basename(bdir), 'status': 'skipped', 'why': 'patch does not apply to the current tree'}
        with contextlib.redirect_stdout(io.StringIO()):
            res = run_rules(pid, d)
        extra = [k for k in res['keys'] if k not in base_keys]
        missing = [k for k in base_keys if k not in res['keys']]
        if res['error'] or res['floor'] or extra or missing:
            return {'patch': os.path.basename(bdir), 'status': 'FALSE-ALARM', 'extra': extra[:3], 'missing': missing[:3], 'error': res['error'], 'floor': res['floor']}
        return {'patch': os.path.basename(bdir), 'status': 'silent'}
    finally:
        shutil.rmtree(d, ignore_errors=True)


def _apply_patch(d, pfile):
    import subprocess
    r = subprocess.run(['git', 'apply', '--unsafe-paths', '--directory=' + d, pfile], cwd=d, capture_output=True, text=True)
    if r.returncode != 0:
        r = subprocess.run(['patch', '-p1', '-s', '-f', '-i', pfile], cwd=d, capture_output=True, text=True)
    return r.returncode == 0


def _cross_job(args):
    """refactored, then broken: an agent-written refactoring of this property's anchors is applied first, then a mutant / a seeded
    defect (where it still applies to the refactored text): the defect must still be reported (detection on reshaped code)"""
    pid, bdir, kind, item, base_keys, src_repo = args
    d = tempfile.mkdtemp(prefix='vsa_x_')
    name = '%s+%s' % (os.path.basename(bdir), item['name'] if kind == 'mutant' else os.path.basename(item))
    try:
        copy_py_tree(src_repo, d)
        if not _apply_patch(d, os.path.join(bdir, 'patch.diff')):
            return {'name': name, 'status': 'n/a', 'why': 'refactoring does not apply'}
        if kind == 'mutant':
            m = item
            path = os.path.join(d, m['file'])
            with open(path, encoding='utf-8') as fh:
                s = fh.read()
            s2, n = re.subn(m['pat'], m['rep'], s, count=1, flags=re.S if m.get('dotall') else 0)
            if n == 0:
                return {'name': name, 'status': 'n/a', 'why': 'mutant pattern not in the refactored text'}
            try:
                compile(s2, path, 'exec')
            except SyntaxError:
                return {'name': name, 'status': 'n/a', 'why': 'does not compile'}
            with open(path, 'w', encoding='utf-8') as fh:
                fh.write(s2)
        else:
            meta = json.load(open(os.path.join(item, 'meta.json')))
            if meta.get('expect') == 'silent' or not _apply_patch(d, os.path.join(item, 'patch.diff')):
                return {'name': name, 'status': 'n/a', 'why': 'seed does not apply to the refactored text'}
            for dp, dn, fn in os.walk(os.path.join(d, PKG)):
                for f in fn:
                    if f.endswith('.rej') or f.endswith('.orig'):
                        return {'name': name, 'status': 'n/a', 'why': 'seed applies only partially'}
        with contextlib.redirect_stdout(io.StringIO()):
            res = run_rules(pid, d)
        new = [k for k in res['keys'] if k not in base_keys]
        if new or res['error'] or res['floor']:
            return {'name': name, 'status': 'reported', 'finding': (new or [res['error'] or res['floor']])[:1]}
        return {'name': name, 'status': 'MISSED'}
    except Exception as e:       # pragma: no cover
        return {'name': name, 'status': 'n/a', 'why': repr(e)}
    finally:
        shutil.rmtree(d, ignore_errors=True)


def benign_patches():
    from . import VERIF
    root = os.path.join(VERIF, 'benign')
    if not os.path.isdir(root):
        return []
    return [os.path.join(root, n) for n in sorted(os.listdir(root)) if os.path.exists(os.path.join(root, n, 'patch.diff'))]


def _history_job(args):
    """the rules must report the defect on the tree just BEFORE its repair (the `fixed` entries of known_findings.json)"""
    pid, entry, base_keys, src_repo = args
    import subprocess
    keys = re.findall(r'(C\d\d-D\w+\|[^|,;()]+\|[A-Za-z0-9_\-\[\]:.]+)', entry.get('what', ''))
    constructs = {k.split('|')[1].split('[')[0] for k in keys}
    d = tempfile.mkdtemp(prefix='vsa_hx_')
    try:
        r = subprocess.run(['git', '-C', src_repo, 'archive', entry['commit'] + '~1', 'thermosteam'], capture_output=True)
        if r.returncode != 0:
            return {'commit': entry['commit'], 'status': 'skipped', 'why': 'git archive failed (no history available)'}
        subprocess.run(['tar', '-x', '-C', d], input=r.stdout, check=True)
        with contextlib.redirect_stdout(io.StringIO()):
            res = run_rules(pid, d)
        if res['error']:
            return {'commit': entry['commit'], 'status': 'analysis-error', 'detail': res['error'][:200]}
        new = [k for k in res['keys'] if k not in base_keys]
        hit = [k for k in new if any(c in k for c in constructs)]
        return {'commit': entry['commit'], 'status': 'reported' if hit else 'NOT-REPORTED', 'finding': (hit or new)[:2]}
    finally:
        shutil.rmtree(d, ignore_errors=True)


def seeded_for(pid):
    from . import VERIF
    out = []
    root = os.path.join(VERIF, 'seeded')
    if not os.path.isdir(root):
        return out
    for name in sorted(os.listdir(root)):
        mp = os.path.join(root, name, 'meta.json')
        if not os.path.exists(mp):
            continue
        meta = json.load(open(mp))
        if meta.get('superseded'):
            continue          # the code the patch edits was rewritten by a later repair; kept for the record only
        if any(str(x).startswith(pid + '-') for x in meta.get('detected_by', [])):
            out.append(os.path.join(root, name))
    return out


def rename_locals(tree):
    """Consistently rename the local variables (not parameters) of every function that has no nested
    scope other than comprehensions.  Semantics preserving."""
    for fn in ast.walk(tree):
        if not isinstance(fn, ast.FunctionDef):
            continue
        nested = False
        bad = False
        for n in ast.walk(fn):
            if n is fn:
                continue
            if isinstance(n, (ast.FunctionDef, ast.AsyncFunctionDef, ast.Lambda, ast.ClassDef)):
                nested = True
            if isinstance(n, (ast.Global, ast.Nonlocal)):
                bad = True
            if isinstance(n, ast.Name) and n.id in ('locals', 'exec', 'eval', 'vars'):
                bad = True
        if nested or bad:
            continue
        a = fn.args
        params = {x.arg for x in a.posonlyargs + a.args + a.kwonlyargs}
        if a.vararg:
            params.add(a.vararg.arg)
        if a.kwarg:
            params.add(a.kwarg.arg)
        assigned = set()
        for n in ast.walk(fn):
            if isinstance(n, ast.Name) and isinstance(n.ctx, (ast.Store, ast.Del)):
                assigned.add(n.id)
            if isinstance(n, ast.ExceptHandler) and n.name:
                bad = True
        if bad:
            continue
        locals_ = {x for x in assigned if x not in params and not x.startswith('__')}
        if not locals_:
            continue
        allnames = {n.id for n in ast.walk(fn) if isinstance(n, ast.Name)}
        mapping = {}
        for x in sorted(locals_):
            new = x + '_rn'
            while new in allnames or new in params:
                new += '_'
            mapping[x] = new
        for n in ast.walk(fn):
            if isinstance(n, ast.Name) and n.id in mapping:
                n.id = mapping[n.id]


def run_for(pid, seed=0, repo=None, workers=None, variants=('unparse', 'unparse+noise', 'rename-locals')):
    from .mutants import MUTANTS
    repo = repo or os.environ.get('VSA_REPO', REPO)
    with contextlib.redirect_stdout(io.StringIO()):
        base = run_rules(pid, repo)
    base_keys = base['keys']
    muts = MUTANTS.get(pid, [])
    jobs = [(pid, m, base_keys, repo) for m in muts]
    bjobs = [(pid, k, base_keys, repo) for k in variants]
    workers = workers or min(16, max(1, len(jobs) + len(bjobs)))
    results, benign = [], []
    sjobs = [(pid, sd, base_keys, repo) for sd in seeded_for(pid)]
    from . import report as _report
    hjobs = [(pid, e, base_keys, repo) for e in _report.load_known().get('fixed', []) if e.get('property') == pid]
    with ProcessPoolExecutor(max_workers=workers) as ex:
        fm = list(ex.map(_mutant_job, jobs))
        fb = list(ex.map(_benign_job, bjobs))
        fs = list(ex.map(_seeded_job, sjobs))
        fh = list(ex.map(_history_job, hjobs))
        fp = list(ex.map(_benign_patch_job, [(pid, bd, base_keys, repo) for bd in benign_patches()]))
        own = [bd for bd in benign_patches() if os.path.basename(bd).startswith(pid + '-')]
        xjobs = [(pid, bd, 'mutant', m, base_keys, repo) for bd in own for m in muts] + \
                [(pid, bd, 'seed', sd, base_keys, repo) for bd in own for sd in seeded_for(pid)]
        fx = list(ex.map(_cross_job, xjobs))
    results, benign = fm, fb
    killed = [r for r in results if r['status'].startswith('killed')]
    survived = [r for r in results if r['status'] == 'SURVIVED']
    skipped = [r for r in results if r['status'] in ('skipped', 'error')]
    out = {
        'mutants_total': len(results), 'mutants_killed': len(killed), 'mutants_survived': [r['name'] for r in survived],
        'mutants_skipped': [(r['name'], r.get('why')) for r in skipped],
        'benign_total': len(benign), 'benign_silent': sum(1 for b in benign if b['silent']),
        'benign_details': benign,
        'seeded_total': len(fs), 'seeded_detected': sum(1 for x in fs if x['status'] in ('detected', 'silent-as-expected')), 'seeded_details': fs,
        'mutant_details': results,
        'refactorings_total': len(fp), 'refactorings_silent': sum(1 for x in fp if x['status'] == 'silent'), 'refactoring_details': [x for x in fp if x['status'] != 'silent'],
        'refactored_then_broken_applicable': sum(1 for x in fx if x['status'] != 'n/a'),
        'refactored_then_broken_reported': sum(1 for x in fx if x['status'] == 'reported'),
        'refactored_then_broken_missed': [x['name'] for x in fx if x['status'] == 'MISSED'],
        'history_total': len(fh), 'history_reported': sum(1 for x in fh if x['status'] == 'reported'), 'history_details': fh,
    }
    print('selftest %s: %d/%d mutants killed, %d survived %s, %d skipped; benign variants silent %d/%d'
          % (pid, len(killed), len(results), len(survived), [r['name'] for r in survived], len(skipped), out['benign_silent'], len(benign)))
    if fs:
        print('  seeded defects attributed to %s: %d/%d detected %s' % (pid, out['seeded_detected'], len(fs), [x['seed'] + ':' + x['status'] for x in fs if x['status'] != 'detected']))
    if fp:
        print('  agent-written refactorings: silent on %d/%d %s' % (out['refactorings_silent'], len(fp), [x['patch'] + ':' + x['status'] for x in fp if x['status'] != 'silent']))
    if fx:
        print('  refactored-then-broken (own refactorings x mutants/seeds that still apply): %d/%d reported %s' % (
            out['refactored_then_broken_reported'], out['refactored_then_broken_applicable'], out['refactored_then_broken_missed']))
    if fh:
        print('  repaired defects of %s re-detected on the tree before their repair: %d/%d %s' % (
            pid, out['history_reported'], len(fh), [x['commit'] + ':' + x['status'] for x in fh if x['status'] != 'reported']))
    for b in benign:
        if not b['silent']:
            print('  benign variant %s NOT silent: extra=%s missing=%s error=%s floor=%s' % (b['variant'], b['extra'][:3], b['missing'][:3], b['error'], b['floor']))
    return out


if __name__ == '__main__':
    pids = sys.argv[1:] or None
    from .mutants import MUTANTS
    for pid in (pids or sorted(MUTANTS)):
        run_for(pid)
