"""Front end: parse every module of the package, expand ``exec(template.format())``
class-body statements, and build the class model (MRO, methods, properties,
class-level aliases).
"""
from __future__ import annotations
import ast, os, sys, warnings, hashlib
from . import REPO, PKG


class AnalysisError(Exception):
    """Anchor vanished / unparseable construct: the check is broken, not the code."""


# ----------------------------------------------------------------------------
# helpers on ast

def norm_dump(node) -> str:
    """Position-free dump of a node (used for structural equality and keys)."""
    if isinstance(node, list):
        return '[' + ','.join(norm_dump(n) for n in node) + ']'
    return ast.dump(node, annotate_fields=False, include_attributes=False)


def digest(node) -> str:
    return hashlib.sha1(norm_dump(node).encode()).hexdigest()[:10]


def src(node) -> str:
    try:
        s = ast.unparse(node)
    except Exception:  # pragma: no cover
        s = '<%s>' % type(node).__name__
    s = ' '.join(s.split())
    return s if len(s) <= 160 else s[:157] + '...'


def dotted(node):
    """'a.b.c' for Name/Attribute chains, else None."""
    parts = []
    while isinstance(node, ast.Attribute):
        parts.append(node.attr)
        node = node.value
    if isinstance(node, ast.Name):
        parts.append(node.id)
        return '.'.join(reversed(parts))
    return None


def walk_no_nested(node):
    """Walk a function body without descending into nested defs / lambdas /
    class definitions (comprehensions ARE descended)."""
    stack = list(ast.iter_child_nodes(node))
    while stack:
        n = stack.pop()
        yield n
        if isinstance(n, (ast.FunctionDef, ast.AsyncFunctionDef, ast.Lambda, ast.ClassDef)):
            continue
        stack.extend(ast.iter_child_nodes(n))


def set_parents(tree):
    for n in ast.walk(tree):
        for c in ast.iter_child_nodes(n):
            c._parent = n


# ----------------------------------------------------------------------------

class FuncInfo:
    __slots__ = ('name', '_node', '_norm', 'module', 'cls', 'origin', 'kind', 'decorators')

    def __init__(self, name, node, module, cls=None, origin=None, kind='method'):
        self.name = name
        self._node = node
        self._norm = None
        self.module = module          # ModuleInfo
        self.cls = cls                # ClassInfo or None
        self.origin = origin          # synthetic origin for generated methods
        self.kind = kind              # method / getter / setter / function / static / class
        self.decorators = [src(d) for d in getattr(node, 'decorator_list', [])]

    @property
    def node(self):
        """the function's syntax tree; in normal-form mode (Program.enable_normal_form) the equivalent tree with
        helpers inlined, literal loops unrolled etc. (see normalize.py)"""
        nz = self.module.prog._normalizer
        if nz is None:
            return self._node
        if self._norm is None:
            self._norm = nz.normalize(self)
        return self._norm

    @property
    def qualname(self):
        q = (self.cls.name + '.' if self.cls else '') + self.name
        if self.kind == 'setter':
            q += '.setter'
        return q

    @property
    def where(self):
        if self.origin:
            return self.origin
        return '%s:%d' % (self.module.rel, self.node.lineno)

    @property
    def params(self):
        a = self.node.args
        return [x.arg for x in a.posonlyargs + a.args]

    def __repr__(self):
        return '<Func %s @%s>' % (self.qualname, self.where)


class ClassInfo:
    def __init__(self, name, node, module):
        self.name = name
        self.node = node
        self.module = module
        self.base_exprs = [dotted(b) or src(b) for b in node.bases]
        self.bases = []               # resolved ClassInfo
        self.methods = {}             # name -> FuncInfo (own)
        self.setters = {}             # property name -> FuncInfo
        self.aliases = {}             # name -> ast expr (class level assignment)
        self.slots = None
        self.generated = []           # names of template-generated methods

    def mro(self):
        out, seen = [], set()

        def rec(c):
            if id(c) in seen:
                return
            seen.add(id(c))
            out.append(c)
            for b in c.bases:
                rec(b)
        rec(self)
        return out

    def __repr__(self):
        return '<Class %s>' % self.name


class ModuleInfo:
    def __init__(self, rel, path, tree, source, prog=None):
        self.prog = prog
        self.rel = rel
        self.path = path
        self.tree = tree
        self.source = source
        self.functions = {}           # module-level functions
        self.classes = {}
        self.consts = {}              # module-level string constants (templates)
        self.imports = {}             # local name -> dotted origin


class Program:
    def __init__(self, repo=None):
        self.repo = repo or REPO
        self.root = os.path.join(self.repo, PKG)
        self.modules = {}             # rel path -> ModuleInfo
        self.classes = {}             # class name -> [ClassInfo]
        self.n_exec = 0
        self.n_generated = 0
        self.n_templates = 0
        self._normalizer = None
        self.absorbed = set()         # helpers whose every reference is an inlined call site (normal-form mode)
        self._load()
        self._link()

    # -- loading -----------------------------------------------------------
    def _load(self):
        if not os.path.isdir(self.root):
            raise AnalysisError('package directory %s not found' % self.root)
        for dp, dn, fn in os.walk(self.root):
            dn[:] = sorted(d for d in dn if d != '__pycache__')
            for f in sorted(fn):
                if not f.endswith('.py'):
                    continue
                path = os.path.join(dp, f)
                rel = os.path.relpath(path, self.repo)
                with open(path, encoding='utf-8') as fh:
                    source = fh.read()
                with warnings.catch_warnings():
                    warnings.simplefilter('ignore')
                    try:
                        tree = ast.parse(source, filename=path)
                    except SyntaxError as e:
                        raise AnalysisError('cannot parse %s: %s' % (rel, e))
                set_parents(tree)
                m = ModuleInfo(rel, path, tree, source, self)
                self.modules[rel] = m
                self._scan_module(m)

    def _scan_module(self, m):
        for st in m.tree.body:
            if isinstance(st, (ast.FunctionDef, ast.AsyncFunctionDef)):
                m.functions[st.name] = FuncInfo(st.name, st, m, None, kind='function')
            elif isinstance(st, ast.ClassDef):
                self._scan_class(st, m)
            elif isinstance(st, ast.Assign) and len(st.targets) == 1 and isinstance(st.targets[0], ast.Name):
                v = self._fold_str(st.value, m)
                if v is not None:
                    m.consts[st.targets[0].id] = v
            elif isinstance(st, ast.ImportFrom):
                for a in st.names:
                    m.imports[a.asname or a.name] = ('.' * st.level) + (st.module or '') + ':' + a.name
            elif isinstance(st, ast.Import):
                for a in st.names:
                    m.imports[a.asname or a.name.split('.')[0]] = a.name
            elif isinstance(st, (ast.If, ast.Try)):
                # functions / classes defined under module-level guards
                for sub in ast.walk(st):
                    if isinstance(sub, ast.FunctionDef) and getattr(sub, '_parent', None) is not None \
                            and not isinstance(sub._parent, (ast.FunctionDef, ast.ClassDef)):
                        m.functions.setdefault(sub.name, FuncInfo(sub.name, sub, m, None, kind='function'))

    def _fold_str(self, node, m):
        if isinstance(node, ast.Constant) and isinstance(node.value, str):
            return node.value
        if isinstance(node, ast.Name):
            return m.consts.get(node.id)
        if isinstance(node, ast.BinOp) and isinstance(node.op, ast.Add):
            a = self._fold_str(node.left, m)
            b = self._fold_str(node.right, m)
            if a is not None and b is not None:
                return a + b
        return None

    def _scan_class(self, node, m):
        c = ClassInfo(node.name, node, m)
        m.classes[node.name] = c
        self.classes.setdefault(node.name, []).append(c)
        for st in node.body:
            self._scan_class_stmt(st, c, m)

    def _add_method(self, c, fn_node, m, origin=None):
        kind = 'method'
        for d in fn_node.decorator_list:
            s = src(d)
            if s == 'property':
                kind = 'getter'
            elif s.endswith('.setter'):
                kind = 'setter'
            elif s == 'staticmethod':
                kind = 'static'
            elif s == 'classmethod':
                kind = 'class'
        f = FuncInfo(fn_node.name, fn_node, m, c, origin=origin, kind=kind)
        if kind == 'setter':
            c.setters[fn_node.name] = f
        else:
            c.methods[fn_node.name] = f
        return f

    def _scan_class_stmt(self, st, c, m):
        if isinstance(st, (ast.FunctionDef, ast.AsyncFunctionDef)):
            self._add_method(c, st, m)
        elif isinstance(st, ast.Assign):
            for t in st.targets:
                if isinstance(t, ast.Name):
                    if t.id == '__slots__':
                        try:
                            c.slots = list(ast.literal_eval(st.value))
                        except Exception:
                            c.slots = None
                    c.aliases[t.id] = st.value
        elif isinstance(st, ast.Expr) and isinstance(st.value, ast.Call) \
                and isinstance(st.value.func, ast.Name) and st.value.func.id == 'exec':
            self._expand_exec(st, c, m)
        elif isinstance(st, (ast.If, ast.Try)):
            for sub in st.body + getattr(st, 'orelse', []):
                self._scan_class_stmt(sub, c, m)

    def _expand_exec(self, st, c, m):
        """exec(TEMPLATE.format(name='add', sign='>')) inside a class body."""
        self.n_exec += 1
        call = st.value
        if len(call.args) != 1:
            raise AnalysisError('%s:%d exec() with unexpected arguments' % (m.rel, st.lineno))
        arg = call.args[0]
        text = None
        tname = '?'
        if isinstance(arg, ast.Call) and isinstance(arg.func, ast.Attribute) and arg.func.attr == 'format' \
                and not arg.args:
            tmpl = self._fold_str(arg.func.value, m)
            tname = src(arg.func.value)
            if tmpl is not None:
                kw = {}
                ok = True
                for k in arg.keywords:
                    v = self._fold_str(k.value, m)
                    if k.arg is None or v is None:
                        ok = False
                        break
                    kw[k.arg] = v
                if ok:
                    try:
                        text = tmpl.format(**kw)
                    except Exception as e:
                        raise AnalysisError('%s:%d template %s does not format: %s' % (m.rel, st.lineno, tname, e))
        else:
            text = self._fold_str(arg, m)
        if text is None:
            raise AnalysisError('%s:%d exec() argument is not constant-foldable' % (m.rel, st.lineno))
        try:
            sub = ast.parse(text)
        except SyntaxError as e:
            raise AnalysisError('%s:%d generated code does not parse: %s' % (m.rel, st.lineno, e))
        set_parents(sub)
        self.n_templates += 1
        for fn in sub.body:
            if isinstance(fn, ast.FunctionDef):
                origin = '%s:%d::%s/%s' % (m.rel, st.lineno, tname, fn.name)
                self._add_method(c, fn, m, origin=origin)
                c.generated.append(fn.name)
                self.n_generated += 1
            elif isinstance(fn, ast.Assign):
                for t in fn.targets:
                    if isinstance(t, ast.Name):
                        c.aliases[t.id] = fn.value

    # -- linking -----------------------------------------------------------
    def _link(self):
        for m in self.modules.values():
            for c in m.classes.values():
                for b in c.base_exprs:
                    name = b.split('.')[-1]
                    cands = self.classes.get(name)
                    if cands:
                        # prefer same module
                        pick = [x for x in cands if x.module is m] or cands
                        c.bases.append(pick[0])
        # class-level aliases:  copy = Reaction.copy ;  _isub_scalar = __isub__
        for m in self.modules.values():
            for c in m.classes.values():
                for name, expr in list(c.aliases.items()):
                    tgt = None
                    if isinstance(expr, ast.Name) and expr.id in c.methods:
                        tgt = c.methods[expr.id]
                    elif isinstance(expr, ast.Attribute) and isinstance(expr.value, ast.Name):
                        oc = self.classes.get(expr.value.id)
                        if oc:
                            tgt = self.find_method(oc[0], expr.attr)
                    if tgt is not None and name not in c.methods:
                        c.methods[name] = tgt

    # -- queries -----------------------------------------------------------
    def module(self, rel):
        m = self.modules.get(rel)
        if m is None:
            raise AnalysisError('anchor module %s not found' % rel)
        return m

    def cls(self, name, rel=None):
        cands = self.classes.get(name) or []
        if rel:
            cands = [c for c in cands if c.module.rel == rel]
        if not cands:
            raise AnalysisError('anchor class %s%s not found' % (name, ' in ' + rel if rel else ''))
        return cands[0]

    def find_method(self, c, name, setter=False):
        for k in c.mro():
            d = k.setters if setter else k.methods
            if name in d:
                return d[name]
        return None

    def method(self, cname, mname, setter=False, rel=None):
        c = self.cls(cname, rel)
        f = self.find_method(c, mname, setter)
        if f is None:
            raise AnalysisError('anchor %s.%s%s not found' % (cname, mname, '.setter' if setter else ''))
        return f

    def func(self, rel, name):
        m = self.module(rel)
        f = m.functions.get(name)
        if f is None:
            raise AnalysisError('anchor function %s in %s not found' % (name, rel))
        return f

    def _all_functions_raw(self):
        for m in self.modules.values():
            for f in m.functions.values():
                yield f
            for c in m.classes.values():
                seen = set()
                for f in list(c.methods.values()) + list(c.setters.values()):
                    if f.cls is c and id(f) not in seen:
                        seen.add(id(f))
                        yield f

    def all_functions(self):
        for f in self._all_functions_raw():
            if f.qualname in self.absorbed:
                continue      # analysed in the context of each of its call sites
            yield f

    def normal_form(self, f):
        """the normal form (normalize.py) of one function, whatever the mode of the program"""
        if self._normalizer is not None:
            return f.node
        if getattr(self, '_nz_local', None) is None:
            from . import normalize
            self._nz_local = normalize.Normalizer(self)
            self._nf_cache = {}
        k = id(f)
        if k not in self._nf_cache:
            self._nf_cache[k] = self._nz_local.normalize(f)
        return self._nf_cache[k]

    def enable_normal_form(self):
        """switch every FuncInfo.node to its normal form (normalize.py); helpers that are only ever reached through
        inlined call sites are dropped from all_functions(): they are analysed in the context of their callers"""
        from . import normalize
        self._normalizer = nz = normalize.Normalizer(self)
        funcs = list(self._all_functions_raw())
        for f in funcs:
            f.node
        refs = {}
        seen = set()
        roots = [m.tree for m in self.modules.values()] + [f._node for f in funcs if f.origin]
        for root in roots:
            for n in ast.walk(root):
                if id(n) in seen:
                    continue
                seen.add(id(n))
                if isinstance(n, ast.Name) and isinstance(n.ctx, ast.Load):
                    refs[n.id] = refs.get(n.id, 0) + 1
                elif isinstance(n, ast.Attribute):
                    refs[n.attr] = refs.get(n.attr, 0) + 1
        byq = {}
        for f in funcs:
            byq.setdefault(f.qualname, []).append(f)
        for q, sites in nz.inlined.items():
            fs = byq.get(q, [])
            # only private helpers: a public function can be called from outside the package with any arguments
            if len(fs) == 1 and fs[0].name.startswith('_') and not fs[0].name.endswith('__') \
                    and refs.get(fs[0].name, 0) == len(sites):
                self.absorbed.add(q)
        return nz

    def subclasses(self, c):
        out = []
        for lst in self.classes.values():
            for k in lst:
                if c in k.mro():
                    out.append(k)
        return out

    def stats(self):
        nfun = sum(1 for _ in self.all_functions())
        return {
            'modules': len(self.modules),
            'classes': sum(len(v) for v in self.classes.values()),
            'functions': nfun,
            'exec_statements': self.n_exec,
            'generated_methods': self.n_generated,
            'lines': sum(m.source.count('\n') + 1 for m in self.modules.values()),
        }
