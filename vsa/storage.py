"""Who re-binds shared storage must refresh or drop what captured it (C11-D1, C12-D1, C14-D3)."""
from __future__ import annotations
import ast, re
from .cfg import CFG, header_exprs
from .frontend import src, walk_no_nested

FRESH_CALL = re.compile(r'(__new__|^_new$|^new$|_copy_without_data$|\.copy$|^copy$|\.blank$|\.from_data$)')


def fresh_names(fn_node):
    out = set()
    for n in walk_no_nested(fn_node):
        if isinstance(n, ast.Assign) and isinstance(n.value, ast.Call):
            c = src(n.value.func)
            if FRESH_CALL.search(c) or c.split('.')[-1][:1].isupper():
                for t in n.targets:
                    for x in ast.walk(t):
                        if isinstance(x, ast.Name) and isinstance(x.ctx, ast.Store):
                            out.add(x.id)
                    # new._imol = imol = fresh()
    # chained:  new._imol = imol = self._imol._copy_without_data()
    return out


def stmt_of(n):
    while not isinstance(n, ast.stmt):
        n = n._parent
    return n


def node_has(nd, pred):
    for h in header_exprs(nd):
        if nd.kind in ('test', 'for', 'with') and isinstance(h, (ast.If, ast.For, ast.While)):
            continue
        for x in ast.walk(h):
            if pred(x):
                return True
    return False


def holds_around(cfg, dom, node, pred):
    """pred-node occurs on every path after `node` up to exit, or dominates `node` (before)"""
    okk, wit = cfg.must_pass(node, lambda nd: nd is not node and node_has(nd, pred))
    if okk:
        return 'after', None
    for nd in cfg.nodes:
        if nd is not node and nd.id in dom[node.id] and node_has(nd, pred):
            return 'before', None
    if cfg.path_avoiding(cfg.entry, node, lambda nd: nd is not node and node_has(nd, pred)) is None:
        return 'before, on every path', None
    if node_has(node, pred):
        return 'same statement', None
    return None, wit


def alias_map(fn_node):
    """local name -> source text for simple aliases like  imol = self._imol"""
    m = {}
    for n in walk_no_nested(fn_node):
        if isinstance(n, ast.Assign) and isinstance(n.value, (ast.Attribute, ast.Name)):
            for t in n.targets:
                if isinstance(t, ast.Name):
                    m[t.id] = src(n.value)
    return m


def resolve(text, amap):
    parts = text.split('.')
    if parts[0] in amap:
        return '.'.join([amap[parts[0]]] + parts[1:])
    return text


def is_ctor(f):
    return f.name in ('__init__', '__new__') or f.name.startswith('_init') or f.kind == 'class' or f.name in ('from_data', 'blank', '_copy_without_data', '__setstate__')
