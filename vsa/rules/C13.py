"""C13 -- copies independent, links share, pickles round-trip (structural clauses)."""
from __future__ import annotations
import ast, re
from ..frontend import AnalysisError, src, walk_no_nested
from ..symx import run_paths
from ..lin import Form
from ..effects import Effects
from ..generic import stale_alias
from ..pathcond import implied

MANIFEST = {
    'technique': 'sharing-contract table (SHARED vs COPIED classification of each state component on every path of copy/proxy/flow_proxy/link_with/unlink); positional '
            'provenance check of __reduce__ tuples against reconstructor signatures; dead-optional-parameter rule for constructors; stale-alias rule for copy_like; '
            'must-follow rules for the cached views and the lookup cache of a copy target; storability rule for attributes of hand-built instances; must-pass rule '
            'for copy_like; proxy-aware unlink contract; constructor slot coverage; cross-package index-map rule',
    'text': 'Decides for every input: copy() copies flows, phase and thermal condition; flow_proxy shares flow data only; proxy shares the indexer and the thermal '
            'condition; link_with shares exactly the parts selected by its flags on every path; unlink copies data, phase and thermal condition and resets caches; '
            'every __reduce__ tuple lines up position by position with its reconstructor; every optional constructor argument that is compared with None is also '
            'used as a value (so it cannot be silently discarded); copy_like implementations use no stale alias of re-bound containers, and the storage / phase '
            "tuple they re-bind on the target is followed by dropping the target's cached mass/volume views and re-selecting its lookup cache; every attribute "
            'stored on an instance built with K.__new__(K) in the stream, indexer and sparse modules is storable. copy_like copies the thermal condition on every '
            'normal path; unlink re-binds the whole indexer (a proxy shares the indexer object); every slot the inherited copy/proxy/link methods read is assigned '
            'by MultiStream.__init__; on every path of copy_like where the property packages differ each value moves through the index_overlap pair, and the '
            'stream-level copy_like copies a raw flow vector by position only on paths where both streams use the same package object; ChemicalIndexer.copy_like '
            "stores the other indexer's phase on every copying path. Equality of observable state after unpickling is not decided.",
}

ST = 'thermosteam/_stream.py'
MS = 'thermosteam/_multi_stream.py'
IX = 'thermosteam/indexer.py'
PK = 'thermosteam/utils/pickle.py'


def run(ctx):
    prog = ctx.prog
    ctx.decided = [
        'D1 sharing contract of copy / flow_proxy / proxy / link_with / unlink / indexer copies',
        'D2 __reduce__ argument tuples match their reconstructors position by position; cucumber pickles every slot of the MRO',
        'D3 optional constructor arguments are used as values, not only tested (arguments reach state)',
        'D4 no stale alias in copy_like implementations',
        'D5 re-binding of view-wrapped storage (as done by copy_like through _expand_phases / row replacement) drops the cached mass/volume views',
        'D6 after copy_like / mix_from change the phase tuple the shared lookup cache is re-selected for the new (phases, chemicals) key',
        'D7 every attribute stored on an instance created with K.__new__(K) in the stream / indexer / sparse modules is storable there',
        'D10 in both copy_like implementations, on every path where the two chemicals objects differ, each store into the target\'s data takes its value from the '
        'source indexed by the right-hand result of index_overlap and writes it at the left-hand result (never a whole row or array by position)',
        'D9 MultiStream.__init__ does not call Stream.__init__; every slot that the copy / proxy / flow_proxy / link_with / unlink / copy_like methods it inherits read '
        'from self is assigned (transitively) by MultiStream.__init__ as well',
        'D8 copy_like between property packages maps positions through index_overlap: its memo is keyed by the ordered CAS tuple and kept on the package whose table the positions come from',
    ]
    ctx.not_decided = ['equality of observable state after unpickling', 'Chemical/Thermo pickles beyond the argument tuple']
    d1 = ctx.rule('D1', 'sharing contract table', floor=14)
    d2 = ctx.rule('D2', 'reduce tuple vs reconstructor', floor=6)
    d3 = ctx.rule('D3', 'optional arguments reach state', floor=8)
    d4 = ctx.rule('D4', 'stale alias in copy_like', floor=1)
    sharing(ctx, d1)
    reduce_rule(ctx, d2)
    ctor_args(ctx, d3)
    eff = Effects(prog)
    for cname in ('ChemicalIndexer', 'MaterialIndexer'):
        f = prog.method(cname, 'copy_like', rel=IX)
        stale_alias(prog, eff, f, {'_phases', '_phase_indexer', 'data', '_index_cache', '_data_cache'}, d4)
    # copy_like / copy_flow must make ALL flow views of the target equal to the source's: the cached mass/volume views of the
    # target have to follow the storage that copy_like re-binds (phase expansion, row replacement)
    d5 = ctx.rule('D5', 'cached views of the copy target follow the storage copy_like re-binds', floor=6)
    from .C11 import view_coherence
    view_coherence(ctx, d5)
    # copy_like onto a target with other phases re-binds the phase tuple: lookups by phase on the copy must use the new rows
    d6 = ctx.rule('D6', 'the per-(phases, chemicals) index cache of the copy target is refreshed after its inputs change', floor=3)
    from ..generic import index_cache_follows_inputs
    index_cache_follows_inputs(prog, d6)
    d10 = ctx.rule('D10', 'copy_like between property packages moves every value through the CAS index map', floor=4)
    cross_package_map(ctx, d10)
    d9 = ctx.rule('D9', 'slots read by the inherited copy/proxy/link methods are initialised by MultiStream.__init__ too', floor=5)
    ctor_slot_coverage(ctx, d9)
    d8 = ctx.rule('D8', 'cross-package copies: the position memo of index_overlap is keyed and owned consistently', floor=2)
    from .C01 import overlap_key_rule
    overlap_key_rule(ctx, d8)
    d7 = ctx.rule('D7', 'hand-built copies only store attributes that can be stored', floor=40)
    from ..generic import storable_attributes
    storable_attributes(prog, d7, rels={ST, MS, IX, 'thermosteam/_thermal_condition.py', 'thermosteam/base/sparse.py'})


def _stores(p):
    out = {}
    for e in p.events:
        if e.kind == 'store':
            out[e.target] = e.value.pretty()
    return out


def sharing(ctx, d1):
    prog = ctx.prog

    def expect(cons, f, got, table):
        for tgt, (want, meaning) in table.items():
            g = got.get(tgt)
            if g == want:
                d1.ok(cons, '%s = %s (%s)' % (tgt, want, meaning), f)
            else:
                d1.fail(cons, 'contract-' + tgt.split('.')[-1], '%s is %s, contract requires %s (%s)' % (tgt, g, want, meaning), f, f.node)
    # copy
    f = prog.method('Stream', 'copy', rel=ST)
    ps, _ = run_paths(f.node)
    for p in ps:
        got = _stores(p)
        new = 'self.__class__.__new__(self.__class__)'
        expect('Stream.copy', f, got, {
            new + '._imol': ('self._imol.copy()', 'flows and phase COPIED'),
            new + '._thermal_condition': ('self._thermal_condition.copy()', 'T and P COPIED'),
        })
        if any(e.kind == 'call' and e.target == new + '.reset_cache' for e in p.events):
            d1.ok('Stream.copy', 'fresh property memo (reset_cache on the copy)', f)
        else:
            d1.fail('Stream.copy', 'contract-memo', 'the copy does not get a fresh property memo', f, f.node)
        break
    # flow_proxy
    f = prog.method('Stream', 'flow_proxy', rel=ST)
    ps, _ = run_paths(f.node)
    got = _stores(ps[0])
    new = 'self.__class__.__new__(self.__class__)'
    # the shell may be built in a local first (imol = ...; new._imol = imol; imol.data = ...): a store through the local is a store to new._imol
    shell = got.get(new + '._imol')
    if shell and (new + '._imol.data') not in got and (shell + '.data') in got:
        got[new + '._imol.data'] = got[shell + '.data']
    expect('Stream.flow_proxy', f, got, {
        new + '._imol': ('self._imol._copy_without_data()', 'own indexer shell (phase COPIED)'),
        new + '._imol.data': ('self._imol.data', 'flow data SHARED'),
        new + '._thermal_condition': ('self._thermal_condition.copy()', 'T and P COPIED'),
    })
    # proxy
    f = prog.method('Stream', 'proxy', rel=ST)
    ps, _ = run_paths(f.node)
    got = _stores(ps[0])
    expect('Stream.proxy', f, got, {
        new + '._imol': ('self._imol', 'flows and phase SHARED'),
        new + '._thermal_condition': ('self._thermal_condition', 'T and P SHARED'),
    })
    # indexer shells
    for cname, fields in (('ChemicalIndexer', {'_phase': 'self._phase.copy()', '_data_cache': '<fresh>'}),
                          ('MaterialIndexer', {'_phases': 'self._phases', '_data_cache': '<fresh>'})):
        f = prog.method(cname, '_copy_without_data', rel=IX)
        ps, _ = run_paths(f.node)
        got = {k.split('.')[-1]: v for k, v in _stores(ps[0]).items()}
        for fld, want in fields.items():
            g = got.get(fld)
            if want == '<fresh>':
                st = [e for e in ps[0].events if e.kind == 'store' and e.target.endswith('.' + fld)]
                okk = st and isinstance(st[0].stmt.value, ast.Dict) and not st[0].stmt.value.keys
            else:
                okk = g == want
            if okk:
                d1.ok('%s._copy_without_data' % cname, '%s = %s' % (fld, want), f)
            else:
                d1.fail('%s._copy_without_data' % cname, 'contract-' + fld, '%s is %s, expected %s' % (fld, g, want), f, f.node)
        if 'data' in got:
            d1.fail('%s._copy_without_data' % cname, 'contract-data', 'the shell carries data', f, f.node)
    f = prog.method('Indexer', 'copy', rel=IX)
    ps, _ = run_paths(f.node)
    got = _stores(ps[0])
    if got.get('self._copy_without_data().data') == 'self.data.copy()':
        d1.ok('Indexer.copy', 'data COPIED into a fresh shell', f)
    else:
        d1.fail('Indexer.copy', 'contract-data', 'indexer copy does not copy the data: %s' % got, f, f.node)
    # link_with: exactly the selected parts
    f = prog.method('Stream', 'link_with', rel=ST)
    o = f.params[1]
    bad = {}
    n = 0
    import itertools
    for combo in itertools.product((True, False), repeat=3):
        flags = dict(zip(('flow', 'TP', 'phase'), combo))

        def tri(t):
            if isinstance(t, ast.Name) and t.id in flags:
                return flags[t.id]
            if isinstance(t, ast.UnaryOp) and isinstance(t.op, ast.Not):
                v = tri(t.operand)
                return None if v is None else (not v)
            if isinstance(t, ast.BoolOp):
                vals = [tri(v) for v in t.values]
                if isinstance(t.op, ast.And):
                    if any(v is False for v in vals):
                        return False
                    return True if all(v is True for v in vals) else None
                if any(v is True for v in vals):
                    return True
                return False if all(v is False for v in vals) else None
            return None
        ps, _ = run_paths(f.node, decide=lambda t, st: tri(t), max_paths=4000)
        for p in ps:
            if p.raised:
                continue
            n += 1
            got = _stores(p)
            has = {
                'flow': got.get('self._imol.data') == '%s._imol.data' % o,
                'TP': got.get('self._thermal_condition') == '%s._thermal_condition' % o,
                'phase': got.get('self._imol._phase') == '%s._imol._phase' % o,
            }
            for k in ('flow', 'TP'):
                if flags[k] is True and not has[k]:
                    bad[k] = 'selected part %s is not shared' % k
                if flags[k] is False and has[k]:
                    bad[k] = 'part %s is shared although it was not selected' % k
            if flags['phase'] is False and has['phase']:
                bad['phase'] = 'phase is shared although it was not selected'
            one_d = implied(p.conds, lambda e: src(e) == 'self._imol.data.ndim == 1')
            if flags['phase'] is True and one_d is True and not has['phase']:
                bad['phase'] = 'selected phase is not shared'
    for k in ('flow', 'TP', 'phase'):
        if k in bad:
            d1.fail('Stream.link_with', 'contract-' + k, bad[k], f, f.node)
        else:
            d1.ok('Stream.link_with', '%s shared exactly when selected (%d paths)' % (k, n), f)
    unlink_rule(ctx, d1, expect)
    copy_like_contract(ctx, d1)
    copy_like_phase(ctx, d1)


def copy_like_contract(ctx, d1):
    """copy_like: "copying the conditions of any stream onto any other makes all of those quantities equal" -- every normal exit
    must have copied the thermal condition (the flows are covered by the indexer rules).  Also used by C02: mix_from with a single
    inlet and the energy balance on IS copy_like."""
    prog = ctx.prog
    from ..cfg import CFG
    for cname, rel in (('Stream', ST), ('MultiStream', MS)):
        f = prog.method(cname, 'copy_like', rel=rel)
        cfg = CFG(f.node)
        o_ = f.params[1]

        def copies_tc(nd):
            return nd.kind == 'stmt' and any(isinstance(x, ast.Call) and isinstance(x.func, ast.Attribute) and x.func.attr in ('copy_like',)
                                            and 'thermal_condition' in src(x.func.value) and src(x.func.value).startswith('self')
                                            and x.args and 'thermal_condition' in src(x.args[0]) and src(x.args[0]).startswith(o_)
                                            for x in ast.walk(nd.ast))
        okk, wit = cfg.must_pass(cfg.entry, copies_tc)
        if okk:
            d1.ok('%s.copy_like' % cname, 'the thermal condition is copied on every normal path', f)
        else:
            last = [x for x in (wit or []) if x.lineno]
            d1.fail('%s.copy_like' % cname, 'contract-thermal-condition', 'some normal path returns without copying T and P from the other stream '
                    '(it leaves through line %s)' % (last[-1].lineno if last else '?'), f, last[-1].ast if last else f.node)


def copy_like_phase(ctx, d1):
    """copy_like of a single-phase indexer: "a copy has the same ... phase": on every path that copies data from another indexer (any path
    but the `self is other` shortcut) the phase of the other indexer is stored into this one -- whatever the property packages are."""
    prog = ctx.prog
    f = prog.method('ChemicalIndexer', 'copy_like', rel=IX)
    o_ = f.params[1]
    ps, _ = run_paths(prog.normal_form(f), max_paths=2000)
    n = 0
    bad = None
    for p in ps:
        if p.raised:
            continue
        same_obj = implied(p.conds, lambda t: isinstance(t, ast.Compare) and len(t.ops) == 1 and isinstance(t.ops[0], ast.Is)
                           and {src(t.left), src(t.comparators[0])} == {'self', o_})
        if same_obj is True:
            continue
        n += 1
        st = [e for e in p.events if e.kind == 'store' and e.target in ('self.phase', 'self._phase._phase', 'self._phase')]
        okk = any(e.value is not None and e.value.pretty() in ('%s.phase' % o_, '%s._phase._phase' % o_) for e in st)
        if not okk:
            bad = p
    if n == 0:
        raise AnalysisError('ChemicalIndexer.copy_like: no copying path')
    if bad is None:
        d1.ok('ChemicalIndexer.copy_like', 'the phase of the other indexer is stored on all %d copying paths' % n, f)
    else:
        d1.fail('ChemicalIndexer.copy_like', 'contract-phase', 'a path that copies the flows of the other indexer returns without copying its phase '
                '(conditions on that path: %s)' % '; '.join('%s is %s' % (src(t), o) for t, o in bad.conds if not isinstance(t, str))[:200], f,
                bad.ret_node if bad.ret_node is not None else f.node)


def unlink_rule(ctx, d1, expect=None):
    """unlink ends ALL sharing (also used by C11: after unlink the mass/volume view cache must be the stream's own)"""
    prog = ctx.prog
    if expect is None:
        def expect(cons, f, got, table):
            for tgt, (want, meaning) in table.items():
                g = got.get(tgt)
                if g == want:
                    d1.ok(cons, '%s = %s (%s)' % (tgt, want, meaning), f)
                else:
                    d1.fail(cons, 'contract-' + tgt.split('.')[-1], '%s is %s, contract requires %s (%s)' % (tgt, g, want, meaning), f, f.node)
    f = prog.method('Stream', 'unlink', rel=ST)
    ps, _ = run_paths(f.node)
    n = 0
    for p in ps:
        if p.raised:
            continue
        n += 1
        got = _stores(p)
        whole = got.get('self._imol') == 'self._imol.copy()'
        if whole:
            # the stream gets an indexer of its own: flow data, phase and view cache are all copies (ends proxy sharing as well)
            table = {
                'self._imol': ('self._imol.copy()', 'indexer COPIED (data, phase, view cache)'),
                'self._thermal_condition': ('self._thermal_condition.copy()', 'T and P COPIED'),
            }
        else:
            table = {
                'self._imol.data': ('self._imol.data.copy()', 'flow data COPIED'),
                'self._thermal_condition': ('self._thermal_condition.copy()', 'T and P COPIED'),
            }
            if implied(p.conds, lambda e: "hasattr(imol, '_phase')" in src(e)) is True:
                table['self._imol._phase'] = ('self._imol._phase.copy()', 'phase COPIED')
            # a proxy shares the indexer OBJECT: copying its parts in place leaves both streams on the same indexer
            d1.fail('Stream.unlink', 'contract-proxy-indexer', 'unlink copies the parts of self._imol in place but never re-binds self._imol: a proxy, which shares the '
                    'indexer object itself, keeps sharing every flow after unlink', f, f.node)
        expect('Stream.unlink', f, got, table)
        calls = [e.target for e in p.events if e.kind == 'call']
        if 'self.reset_cache' in calls:
            d1.ok('Stream.unlink', 'caches reset (property memo and mass/volume views)', f)
        else:
            d1.fail('Stream.unlink', 'contract-caches', 'unlink does not reset the caches', f, f.node)
    drops = [n_ for n_ in walk_no_nested(f.node)
             if (isinstance(n_, ast.Call) and src(n_.func) == 'self._streams.clear')
             or (isinstance(n_, ast.Assign) and any(src(t) == 'self._streams' for t in n_.targets) and src(n_.value) in ('{}', 'dict()'))]
    if drops:
        d1.ok('Stream.unlink', 'per-phase sub-streams (which share the old data and thermal condition) are dropped', f)
    else:
        d1.fail('Stream.unlink', 'contract-substreams', 'unlink leaves the per-phase sub-streams attached to the former partner\'s data / thermal condition', f, f.node)
    # sibling agreement: whatever link_with can make shared (X = other.X), unlink must re-bind (not merely empty)
    lw = prog.method('Stream', 'link_with', rel=ST)
    o_ = lw.params[1]
    shared = set()
    for n_ in walk_no_nested(lw.node):
        if isinstance(n_, ast.Assign) and len(n_.targets) == 1 and isinstance(n_.targets[0], ast.Attribute):
            tgt = src(n_.targets[0])
            if tgt.startswith('self.') and src(n_.value) == o_ + tgt[len('self'):]:
                shared.add(tgt)
    from ..storage import alias_map, resolve
    amap = alias_map(f.node)
    rebound = set()
    for n_ in walk_no_nested(f.node):
        if isinstance(n_, ast.Attribute) and isinstance(n_.ctx, ast.Store) and not isinstance(getattr(n_, '_parent', None), ast.AugAssign):
            rebound.add(resolve(src(n_), amap))
    for tgt in sorted(shared):
        if tgt in rebound or any(tgt.startswith(r + '.') for r in rebound):
            d1.ok('Stream.unlink', '%s (which link_with can share) is re-bound to an object of its own' % tgt, f)
        else:
            d1.fail('Stream.unlink', 'still-shared-' + tgt.split('.')[-1], 'link_with can make %s the very object of the other stream, but unlink never re-binds it: '
                    'the two streams keep sharing it after unlink' % tgt, f, f.node)
    locked = [n_ for n_ in walk_no_nested(f.node) if isinstance(n_, ast.Raise)]
    if locked:
        d1.ok('Stream.unlink', 'a locked phase (phase view) refuses to unlink', f, locked[0])


def _norm(s):
    s = re.sub(r'^self\.', '', s)
    s = re.sub(r'^get_', '', s)
    s = s.replace('()', '')
    return s.lstrip('_')


def reduce_rule(ctx, d2):
    prog = ctx.prog
    todo = [('Stream', ST), ('SplitIndexer', IX), ('ChemicalIndexer', IX), ('MaterialIndexer', IX)]
    for cname, rel in todo:
        c = prog.cls(cname, rel)
        f = c.methods.get('__reduce__')
        if f is None:
            raise AnalysisError('%s.__reduce__ missing' % cname)
        r = [n for n in walk_no_nested(f.node) if isinstance(n, ast.Return)][0].value
        if not (isinstance(r, ast.Tuple) and len(r.elts) == 2 and isinstance(r.elts[1], ast.Tuple)):
            d2.fail('%s.__reduce__' % cname, 'shape', 'not (callable, args)', f, f.node)
            continue
        ctor = src(r.elts[0]).split('.')[-1]
        g = prog.find_method(c, ctor)
        if g is None:
            d2.fail('%s.__reduce__' % cname, 'no-ctor', 'reconstructor %s not found' % ctor, f, f.node)
            continue
        params = g.params[1:] if g.params and g.params[0] in ('cls', 'self') else g.params
        args = r.elts[1].elts
        cons = '%s.__reduce__' % cname
        if len(args) > len(params):
            d2.fail(cons, 'arity', 'passes %d arguments to %s%s' % (len(args), ctor, tuple(params)), f, f.node)
            continue
        okk = True
        for i, (a, p) in enumerate(zip(args, params)):
            if isinstance(a, ast.Constant):
                continue
            na = _norm(src(a))
            if na == p or na == p.rstrip('s') or na + 's' == p:
                continue
            if na in params:
                d2.fail(cons, 'misaligned-%s' % p, 'position %d passes %s to parameter %r (it belongs to %r)' % (i, src(a), p, na), f, f.node)
                okk = False
            else:
                d2.skip(cons, 'cannot relate %s to parameter %r by provenance' % (src(a), p), f)
        if okk:
            d2.ok(cons, '(%s) lines up with %s(%s)' % (', '.join(src(a) for a in args), ctor, ', '.join(params)), f)
    # from_data forwards every reduce-fed parameter to __init__ / set_data
    g = prog.method('Stream', 'from_data', rel=ST)
    inst = [n.targets[0].id for n in walk_no_nested(g.node) if isinstance(n, ast.Assign) and isinstance(n.targets[0], ast.Name)
            and isinstance(n.value, ast.Call) and src(n.value.func).endswith('__new__')]
    V = inst[0] if inst else 'self'
    init_call = [n for n in walk_no_nested(g.node) if isinstance(n, ast.Call) and src(n.func) == V + '.__init__']
    setd = [n for n in walk_no_nested(g.node) if isinstance(n, ast.Call) and src(n.func) == V + '.set_data' and [src(a) for a in n.args] == [g.params[1]]]
    kw = {k.arg: src(k.value) for k in init_call[0].keywords} if init_call else {}
    need = [x for x in ('characterization_factors', 'price', 'thermo') if kw.get(x) != x]
    rets = [r for r in walk_no_nested(g.node) if isinstance(r, ast.Return)]
    if init_call and setd and not need and init_call[0].args and src(init_call[0].args[0]) == 'ID' and rets and src(rets[0].value) == V:
        d2.ok('Stream.from_data', 'forwards ID, price, characterization_factors, thermo to __init__ and restores the data', g)
    else:
        d2.fail('Stream.from_data', 'forwarding', 'from_data does not forward %s' % (need or 'ID / data'), g, g.node)
    # cucumber
    gs = prog.func(PK, 'get_state')
    slots_ok = any(isinstance(n, ast.ListComp) and isinstance(n.elt, ast.Attribute) and n.elt.attr == '__slots__'
                   and 'mro()[:-1]' in src(n.generators[0].iter) for n in ast.walk(gs.node))
    getf = [n for n in ast.walk(gs.node) if isinstance(n, ast.Call) and src(n.func) == 'getfields' and n.args and src(n.args[0]) == gs.params[0]]
    if slots_ok and getf:
        d2.ok('cucumber.get_state', 'state = every slot of every class in the MRO', gs)
    else:
        d2.fail('cucumber.get_state', 'slots', 'get_state does not collect the slots of the whole MRO', gs, gs.node)
    nf = prog.func(PK, 'new_from_state')
    objs = [n.targets[0].id for n in walk_no_nested(nf.node) if isinstance(n, ast.Assign) and isinstance(n.targets[0], ast.Name)
            and src(n.value) == 'object.__new__(%s)' % nf.params[0]]
    setf = [n for n in ast.walk(nf.node) if isinstance(n, ast.Call) and src(n.func) == 'setfields' and len(n.args) >= 3]
    if objs and setf and [src(a) for a in setf[0].args[:3]] == [objs[0], nf.params[1], nf.params[2]]:
        d2.ok('cucumber.new_from_state', 'restores the same slots on a bare instance', nf)
    else:
        d2.fail('cucumber.new_from_state', 'restore', 'new_from_state does not restore the recorded slots', nf, nf.node)


def ctor_args(ctx, d3):
    prog = ctx.prog
    for cname, mname, rel in (('Stream', '__init__', ST), ('MultiStream', '__init__', MS), ('Stream', 'from_data', ST)):
        f = prog.method(cname, mname, rel=rel)
        a = f.node.args
        params = [x.arg for x in a.posonlyargs + a.args + a.kwonlyargs if x.arg not in ('self', 'cls')]
        for p in params:
            tested_none = False
            value_uses = 0
            for n in walk_no_nested(f.node):
                if isinstance(n, ast.Name) and n.id == p and isinstance(n.ctx, ast.Load):
                    par = n._parent
                    if isinstance(par, ast.Compare) and len(par.comparators) == 1 and isinstance(par.comparators[0], ast.Constant) \
                            and par.comparators[0].value is None and par.left is n:
                        tested_none = True
                        continue
                    # bare truthiness test of the parameter
                    if isinstance(par, (ast.If, ast.IfExp, ast.While)) and par.test is n:
                        continue
                    if isinstance(par, ast.UnaryOp) and isinstance(par.op, ast.Not):
                        continue
                    value_uses += 1
            cons = '%s.%s(%s)' % (cname, mname, p)
            if tested_none and value_uses == 0:
                d3.fail('%s.%s' % (cname, mname), 'discarded-' + p,
                        'parameter %r is compared with None but its value is never used: the argument is silently discarded' % p, f, f.node)
            elif tested_none:
                d3.ok(cons, 'optional argument is used as a value (%d uses)' % value_uses, f)
            elif value_uses:
                d3.ok(cons, 'argument is used (%d uses)' % value_uses, f)
            else:
                d3.ok(cons, 'flag-like argument (only tested)', f)


def ctor_slot_coverage(ctx, rule):
    """MultiStream inherits proxy / flow_proxy / copy / link_with / unlink / copy_like from Stream but has a constructor of its own
    that does not call Stream.__init__.  A slot those methods READ from self and that only Stream.__init__ assigns is missing on
    every MultiStream built through its constructor: the method raises AttributeError instead of sharing / copying."""
    prog = ctx.prog
    eff = Effects(prog)
    S = prog.cls('Stream', ST)
    M = prog.cls('MultiStream', MS)
    if M.methods.get('__init__') is None or M.methods['__init__'].cls is not M:
        raise AnalysisError('MultiStream.__init__ not found')
    mi = eff.rebinds(M, '__init__')
    si = eff.rebinds(S, '__init__')
    slots = set()
    for k in S.mro():
        e = k.aliases.get('__slots__')
        if isinstance(e, (ast.Tuple, ast.List)):
            slots |= {x.value for x in e.elts if isinstance(x, ast.Constant) and isinstance(x.value, str)}
    n = 0
    for name in ('proxy', 'flow_proxy', 'copy', 'link_with', 'unlink', 'copy_like', 'copy_flow', 'copy_thermal_condition'):
        f = prog.find_method(M, name)
        if f is None or f.cls is M:
            continue            # overridden: written against MultiStream's own state
        reads = sorted({x.attr for x in walk_no_nested(f.node) if isinstance(x, ast.Attribute) and isinstance(x.ctx, ast.Load) and src(x.value) == 'self'
                        and x.attr in slots})
        missing = [r for r in reads if r in si and r not in mi]
        n += 1
        if missing:
            rule.fail('MultiStream.' + name, 'slot-not-initialised-' + missing[0], 'the inherited method reads self.%s, which Stream.__init__ assigns but MultiStream.__init__ '
                      'does not: on a MultiStream built by its constructor the method raises AttributeError' % missing[0], f, f.node)
        else:
            rule.ok('MultiStream.' + name, 'every slot it reads from self (%s) is assigned by MultiStream.__init__' % ', '.join(reads[:6]), f)
    if n < 5:
        raise AnalysisError('MultiStream: expected >= 5 inherited copy/proxy/link methods, found %d' % n)


def cross_package_map(ctx, rule):
    """Positions mean different chemicals in different property packages.  On a path where `self.chemicals is other.chemicals` is
    false, a value may reach the target only as  target[..., LEFT] (op)= source[..., RIGHT]  with (LEFT, RIGHT) the pair returned by
    index_overlap on that path."""
    prog = ctx.prog
    for cname in ('ChemicalIndexer', 'MaterialIndexer'):
        f = prog.method(cname, 'copy_like', rel=IX)
        o_ = f.params[1]
        ps, _ = run_paths(f.node, max_paths=4000)
        seen = {}
        for p in ps:
            if p.raised:
                continue
            from ..pathcond import implied2 as _imp2, resolved_conds as _rcs
            CH = {'self.chemicals', 'self._chemicals', '%s.chemicals' % o_, '%s._chemicals' % o_}

            def _pk(t, ops):
                return isinstance(t, ast.Compare) and len(t.ops) == 1 and isinstance(t.ops[0], ops) and {src(t.left), src(t.comparators[0])} <= CH \
                    and src(t.left).split('.')[0] != src(t.comparators[0]).split('.')[0]
            same = _imp2(_rcs(p, keep=set(f.params)), lambda t: _pk(t, ast.Is), lambda t: _pk(t, ast.IsNot))
            if same is None:
                from ..pathcond import entailed as _ent
                same = _ent(_rcs(p, keep=set(f.params)), lambda t: _pk(t, ast.Is), lambda t: _pk(t, ast.IsNot))
            if same is not False:
                continue
            pair = None      # texts of the (left, right) index of the overlap: two locals, or N[0] / N[1] of the local the pair is kept in
            for e in p.events:
                if e.kind == 'assign' and isinstance(e.stmt, ast.Assign) and isinstance(e.stmt.value, ast.Call) and src(e.stmt.value.func) == 'index_overlap':
                    t0 = e.stmt.targets[0]
                    if isinstance(t0, ast.Tuple) and len(t0.elts) == 2 and all(isinstance(x, ast.Name) for x in t0.elts):
                        pair = tuple(x.id for x in t0.elts)
                    elif isinstance(t0, ast.Name):
                        pair = ('%s[0]' % t0.id, '%s[1]' % t0.id)
            for e in p.events:
                if e.kind not in ('store', 'augstore') or not isinstance(e.node, ast.Subscript):
                    continue
                tgt = e.target
                if not (tgt.startswith('self.data') or tgt.startswith('self._imol')):
                    continue
                v = e.stmt.value
                if isinstance(v, ast.Constant):
                    continue
                key = (e.stmt.lineno,)
                tsl = src(e.node.slice)
                vsl = [src(x.slice) for x in ast.walk(v) if isinstance(x, ast.Subscript)]
                def _has(txt, name):
                    if '[' in name:
                        return name in txt
                    return name in txt.replace('(', ' ').replace(')', ' ').replace(',', ' ').split()
                good = pair is not None and _has(tsl, pair[0]) and any(_has(y, pair[1]) for y in vsl)
                seen.setdefault(key, []).append((good, e))
        if not seen:
            raise AnalysisError('%s.copy_like: no cross-package transfer found' % cname)
        for key, lst in sorted(seen.items()):
            e = lst[0][1]
            if all(g for g, _ in lst):
                rule.ok('%s.copy_like' % cname, 'cross-package transfer %s goes through the index_overlap pair' % src(e.stmt)[:80], f, e.stmt)
            else:
                rule.fail('%s.copy_like' % cname, 'cross-package-by-position', 'on a path where the two property packages differ, %s moves values by position, not through the CAS '
                          'index map returned by index_overlap: chemicals land on other species' % src(e.stmt)[:90], f, e.stmt)
    # the stream-level entry points hand the material over either to the indexers' copy_like (decided above) or, as a shortcut, copy a
    # raw flow vector by position: the shortcut needs the packages to be the same object on that path
    for cname, rel in (('Stream', ST), ('MultiStream', MS)):
        f = prog.cls(cname, rel).methods.get('copy_like')
        if f is None:
            continue
        o_ = f.params[1]
        ps, _ = run_paths(f.node, max_paths=4000)
        from ..pathcond import implied2 as _imp2, resolved_conds as _rcs
        CH = {'self.chemicals', 'self._chemicals', 'self._imol._chemicals', 'self._imol.chemicals', 'self.imol.chemicals'}
        CH |= {x.replace('self', o_, 1) for x in CH}

        def _pk2(t, ops):
            return isinstance(t, ast.Compare) and len(t.ops) == 1 and isinstance(t.ops[0], ops) and {src(t.left), src(t.comparators[0])} <= CH \
                and src(t.left).split('.')[0] != src(t.comparators[0]).split('.')[0]
        verdict = {}
        for p in ps:
            if p.raised:
                continue
            same = _imp2(_rcs(p, keep=set(f.params)), lambda t: _pk2(t, ast.Is), lambda t: _pk2(t, ast.IsNot))
            if same is None:
                from ..pathcond import entailed as _ent
                same = _ent(_rcs(p, keep=set(f.params)), lambda t: _pk2(t, ast.Is), lambda t: _pk2(t, ast.IsNot))
            for e in p.events:
                if e.kind != 'call' or not e.target.endswith('.copy_like'):
                    continue
                recv = e.target[:-len('.copy_like')]
                if 'thermal_condition' in recv:
                    continue
                raw = recv not in ('self._imol', 'self.imol')
                key = (e.stmt.lineno, recv)
                okk = (not raw) or same is True
                prev = verdict.get(key)
                verdict[key] = (okk and (prev[0] if prev else True), e, raw)
        if not verdict:
            raise AnalysisError('%s.copy_like: no material transfer found' % cname)
        for key, (okk, e, raw) in sorted(verdict.items()):
            if okk:
                rule.ok('%s.copy_like' % cname, ('raw flow vector copied by position only where both streams use the same package object: %s' if raw else
                                                 'material handed to the package-aware indexer copy: %s') % src(e.stmt)[:80], f, e.stmt)
            else:
                rule.fail('%s.copy_like' % cname, 'cross-package-by-position', '%s copies a raw flow vector by position on a path where the two streams may use different '
                          'property packages (no `chemicals is` test holds there): chemicals land on other species' % src(e.stmt)[:90], f, e.stmt)
