"""C05 -- reactions conserve and convert exactly X (structural clauses)."""
from __future__ import annotations
import ast
from ..frontend import AnalysisError, src, walk_no_nested
from ..symx import run_paths
from ..lin import Form, Lin
from ..cfg import CFG
import re
from ..generic import guarded_refill_needs_empty

MANIFEST = {
    'technique': 'symbolic linear forms of the reaction update statements; must-follow rule (rescale after every stoichiometry/reactant store); CFG must-pass rules for '
            'write-back and feasibility gate; sign provenance in the parsers; must-follow rule on re-bindings of view-wrapped storage (the mass view weight-basis '
            'reactions write through); selection-mask rule; copy-needs-write-back and container re-attachment rules',
    'text': 'Decides for every input the form of the update (material += material[r]*X*S; parallel extents all computed from the feed before the first update; '
            'series/system sequential), that the reactant coefficient is normalised to -1 after every store of stoichiometry or reactant index, that the weight-'
            'basis conversion is an inverse pair followed by rescale, that __call__/force_reaction always write back and restore the configuration, that both '
            'parsers negate left-hand coefficients, that a normal return passed the feasibility gate, and that every re-binding of the molar storage (the '
            'reset_chemicals pair of the configuration switch included) drops or replaces the cached mass view, without which a weight-basis reaction acts on '
            'discarded data. The round-off clean-up never applies a mask computed over the negative entries to the whole material; as_material_array returns the '
            "caller's object itself or a copy together with its write-back target; reset_chemicals(chemicals, container) re-binds the container as the indexer's "
            "storage in both indexer classes; the reacted copy is written back before the stream's chemicals configuration is restored. Mass/atom conservation "
            'additionally assumes a balanced stoichiometry (an input assumption) and is not decided numerically.',
}

RX = 'thermosteam/reaction/_reaction.py'
PRS = 'thermosteam/reaction/_parse.py'
XPRS = 'thermosteam/reaction/_xparse.py'

# functions that re-order / re-index coefficients without changing their values (reason per entry)
PERMUTERS = {
    'Reaction.reset_chemicals': 'copies each non-zero coefficient to the position of the same chemical in the new package',
    'ReactionSet.reset_chemicals': 'same, per row',
    'ReactionItem.reset_chemicals': 're-binds the view to the parent row after the parent was re-indexed',
    'ReactionItem.__init__': 'view of an already rescaled parent row',
    'ReactionSet.__init__': 'collects already rescaled member reactions',
    'ReactionSet.__getitem__': 'sub-set view of already rescaled rows',
    'Reaction.copy': 'field-by-field copy of a rescaled reaction',
    'ReactionItem.copy': 'field-by-field copy of a rescaled reaction',
    'ReactionSet.copy': 'field-by-field copy of a rescaled reaction set',
}


def run(ctx):
    prog = ctx.prog
    ctx.decided = [
        'D1 form of the update in Reaction/ParallelReaction/SeriesReaction/ReactionSystem._reaction and agreement of _conversion',
        'D2 reactant coefficient is -1: every store of _stoichiometry/_reactant_index is followed by _rescale() or divides inline by -S[r] (frozen permuter table otherwise)',
        'D3 basis change is an inverse pair (*MW, /MW) followed by rescale and basis record; __call__/force_reaction always write back and restore config',
        'D4 both parsers negate left-hand-side coefficients and keep right-hand-side ones',
        'D5 with the feasibility flag on, every normal return of __call__ passed "no negatives" or "negatives zeroed"; the raise is reachable',
        'D8 a boolean mask computed over the selection material[negative_index] is never used to index the whole material (the round-off clean-up that '
        '__call__ and force_reaction end with must zero the negative entries, not the leading ones)',
        'D7 Reaction.copy / ReactionSet.copy, whose result copy(basis) rescales in place, copy every mutable stoichiometry container element-wise',
        'D6 every re-binding of view-wrapped molar storage (reset_chemicals for the configuration switch, phase expansion ...) drops or replaces the cached mass view that weight-basis reactions write through',
    ]
    ctx.not_decided = ['mass/atom conservation for balanced stoichiometries on concrete numbers', 'cross-package index remapping at run time']
    d1 = ctx.rule('D1', 'update statements have the stated linear form', floor=7)
    d2 = ctx.rule('D2', 'reactant coefficient normalised to -1 after every stoichiometry / reactant store', floor=12)
    d3 = ctx.rule('D3', 'basis conversion inverse pair; write-back and config restore on all paths', floor=8)
    d4 = ctx.rule('D4', 'parsers: left-hand coefficients negative, right-hand positive', floor=6)
    d5 = ctx.rule('D5', 'feasibility gate', floor=3)
    update_forms(ctx, d1)
    rescale_rule(ctx, d2)
    basis_rule(ctx, d3)
    # the configuration switch (stream on another property package) re-indexes the flow data twice through reset_chemicals
    for cname in ('ChemicalIndexer', 'MaterialIndexer'):
        guarded_refill_needs_empty(prog, prog.method(cname, 'reset_chemicals', rel='thermosteam/indexer.py'), d3)
    parser_rule(ctx, d4)
    feasibility_rule(ctx, d5)
    # the configuration switch back: reset_chemicals(chemicals, container) must make the container the indexer's storage again
    for cname in ('ChemicalIndexer', 'MaterialIndexer'):
        g = prog.method(cname, 'reset_chemicals', rel='thermosteam/indexer.py')
        cp = g.params[2]
        from ..pathcond import scenario_decide as _sdc

        def _given(t, cp=cp):
            # scenario: the optional argument is given
            if isinstance(t, ast.Name) and t.id == cp:
                return True
            if isinstance(t, ast.Compare) and len(t.ops) == 1 and src(t.left) == cp and isinstance(t.comparators[0], ast.Constant) and t.comparators[0].value is None:
                return isinstance(t.ops[0], (ast.IsNot, ast.NotEq))
            return None
        ps_, _ = run_paths(g.node, decide=_sdc(_given))
        ps_ = [p for p in ps_ if not p.raised]
        okk = bool(ps_)
        for p in ps_:
            got = {e.target: e.value for e in p.events if e.kind == 'store' and e.target in ('self.data', 'self._data_cache')}
            okk = okk and set(got) == {'self.data', 'self._data_cache'} and all(isinstance(v, Form) and cp in v.pretty() for v in got.values())
        if okk:
            d3.ok('%s.reset_chemicals' % cname, 'with a container, self.data and self._data_cache are re-bound to its two parts on every path', g)
        else:
            d3.fail('%s.reset_chemicals' % cname, 'container-not-attached', 'with a container the indexer does not re-bind self.data / self._data_cache to it: after the reaction '
                    'switches the stream back to its own property package the stream keeps the reaction-ordered data', g, g.node)
    # weight-basis reactions act on the stream through its mass view: the view must wrap the data the molar flows live in
    d6 = ctx.rule('D6', 'mass views follow the molar storage (weight basis == molar basis on a stream)', floor=6)
    from .C11 import view_coherence
    view_coherence(ctx, d6)
    # copy(basis) converts the COPY in place (inverse pair of D3): it must not share a stoichiometry row with the original,
    # or the original keeps its basis label while its coefficients change
    d8 = ctx.rule('D8', 'clean-up of round-off negatives addresses the negative entries themselves', floor=1)
    from ..generic import selection_mask_misuse
    selection_mask_misuse(prog, d8, rels={'thermosteam/functional.py', 'thermosteam/reaction/_reaction.py'})
    d7 = ctx.rule('D7', 'copies that are re-based in place share no stoichiometry storage with the original', floor=2)
    from .C17 import copy_sharing
    copy_sharing(ctx, d7)


# ----------------------------------------------------------------------------
def update_forms(ctx, d1):
    prog = ctx.prog
    M = 'material_array'
    # Reaction
    f = prog.method('Reaction', '_reaction', rel=RX)
    ps, _ = run_paths(f.node)
    want = Form.atom('%s[self._reactant_index]' % f.params[1]) * Form.atom('self.X') * Form.atom('self._stoichiometry')
    ev = [e for p in ps for e in p.events if e.kind == 'augname' and e.target == f.params[1]]
    if len(ps) == 1 and len(ev) == 1 and ev[0].op == 'Add' and ev[0].value == want:
        d1.ok('Reaction._reaction', 'material += %s' % want.pretty(), f, ev[0].stmt)
    else:
        d1.fail('Reaction._reaction', 'form', 'update is not material += material[r]*X*S: %s' % [(e.op, e.value) for e in ev], f, f.node)
    g = prog.method('Reaction', '_conversion', rel=RX)
    ps, _ = run_paths(g.node)
    want_c = Form.atom('%s[self._reactant_index]' % g.params[1]) * Form.atom('self.X') * Form.atom('self._stoichiometry')
    if len(ps) == 1 and ps[0].ret == want_c and not ps[0].stores():
        d1.ok('Reaction._conversion', 'returns %s without mutating' % want_c.pretty(), g)
    else:
        d1.fail('Reaction._conversion', 'form', '_conversion does not return material[r]*X*S', g, g.node)

    # Parallel: extents from the feed before the first update
    for meth in ('_reaction', '_conversion'):
        f = prog.method('ParallelReaction', meth, rel=RX)
        m = f.params[1]
        ps, _ = run_paths(f.node)
        p = ps[0]
        cons = 'ParallelReaction.' + meth
        loop_ev = [e for e in p.events if e.kind == 'loop']
        if len(loop_ev) != 1:
            d1.fail(cons, 'shape', 'expected exactly one update loop', f, f.node)
            continue
        li = p.events.index(loop_ev[0])
        before = p.events[:li]
        inside = [e for e in p.events[li:] if e.depth >= 1]
        lp0 = loop_ev[0].stmt
        # zip(extents, self._stoichiometry) in either order: the extents are the other argument -- a local computed before the loop, or the
        # expression itself (zip evaluates its arguments once, before the first iteration)
        ext = None
        ext_node = None
        if isinstance(lp0.iter, ast.Call) and src(lp0.iter.func) == 'zip' and len(lp0.iter.args) == 2:
            others_ = [a_ for a_ in lp0.iter.args if src(a_) != 'self._stoichiometry']
            if len(others_) == 1:
                ext_node = others_[0]
                ext = src(ext_node)
        from ..resolve import resolved, path_defs
        okk = ext_node is not None
        why = ''
        if okk:
            defs_ = path_defs(p, loop_ev[0])
            rv = resolved(ext_node, defs_, keep={m})
            try:
                ext_form = Lin(dict(p.lin.env)).form(rv) if not isinstance(ext_node, ast.Name) else \
                    [e for e in before if e.kind == 'assign' and e.target == ext_node.id][-1].value
            except Exception:
                ext_form = None
            if ext_form is None:
                okk, why = False, 'extents are not computed before the loop'
        else:
            why = 'extents are not computed before the loop'
        if okk:
            txt = ext_form.pretty()
            # extent = X_k * feed[r_k] : uses self._X and a gather of material over self._reactant_index
            comp = [n for n in ast.walk(rv) if isinstance(n, ast.ListComp)]
            gather = comp and src(comp[0].elt) == '%s[%s]' % (m, comp[0].generators[0].target.id) \
                and src(comp[0].generators[0].iter) == 'self._reactant_index'
            if not (gather and 'self._X' in txt and ext_form.is_monomial()):
                okk, why = False, 'extents are not X*feed[reactants] (%s)' % src(rv)
        # loop pairs extents with stoichiometry rows
        lp = loop_ev[0].stmt
        if okk and not (isinstance(lp.iter, ast.Call) and src(lp.iter.func) == 'zip'
                        and sorted(src(a) for a in lp.iter.args) == sorted([ext, 'self._stoichiometry'])):
            okk, why = False, 'loop does not zip extents with self._stoichiometry'
        upd = [e for e in inside if e.kind == 'augname']
        if meth == '_reaction':
            tgt = m
        else:
            # the accumulator: a local initialised to 0*feed before the loop and returned afterwards
            tgt = upd[0].target if upd else None
            init_ = [e for e in before if e.kind == 'assign' and e.target == tgt]
            if not (tgt and init_ and init_[0].value.is_zero() or (init_ and init_[0].value == Form.const(0) * Form.atom(m))) \
                    or p.ret_node is None or src(p.ret_node.value) != tgt:
                if not (tgt and init_ and src(init_[0].stmt.value).replace(' ', '') in ('0*%s' % m, '%s*0' % m) and p.ret_node is not None and src(p.ret_node.value) == tgt):
                    okk, why = False, 'the conversion accumulator is not (0*feed ... returned)'
        if okk:
            a, b = (t.id for t in lp.target.elts)
            if not (len(upd) == 1 and upd[0].target == tgt and upd[0].op == 'Add'
                    and upd[0].value == Form.atom(a) * Form.atom(b)):
                okk, why = False, 'loop body is not %s += extent*row' % tgt
        # no read of the material inside the loop
        if okk:
            for e in inside:
                for n in ast.walk(e.stmt) if e.kind in ('augname', 'assign', 'store', 'augstore') else []:
                    if isinstance(n, ast.Subscript) and src(n.value) == m:
                        okk, why = False, 'the running material is read inside the update loop (series behaviour)'
        if okk and meth == '_conversion':
            if p.ret is None or p.ret.pretty() != '0*%s' % m and p.ret != Form.atom('conversion') and False:
                pass
        if okk:
            d1.ok(cons, 'all extents X_k*feed[r_k] evaluated before the loop; body is %s += extent_k*S_k' % tgt, f, lp)
        else:
            d1.fail(cons, 'parallel-form', why, f, f.node)

    # Series: reads inside the loop
    f = prog.method('SeriesReaction', '_reaction', rel=RX)
    m = f.params[1]
    ps, _ = run_paths(f.node)
    p = ps[0]
    lp = [e for e in p.events if e.kind == 'loop']
    upd = [e for e in p.events if e.kind == 'augname' and e.depth >= 1]
    okk = len(lp) == 1 and len(upd) == 1 and isinstance(lp[0].stmt.iter, ast.Call) \
        and [src(a) for a in lp[0].stmt.iter.args] == ['self._reactant_index', 'self.X', 'self._stoichiometry']
    if okk:
        i, j, k = (t.id for t in lp[0].stmt.target.elts)
        okk = upd[0].target == m and upd[0].op == 'Add' and \
            upd[0].value == Form.atom('%s[%s]' % (m, i)) * Form.atom(j) * Form.atom(k)
    if okk:
        d1.ok('SeriesReaction._reaction', 'for (r,X,S): material += material[r]*X*S (running composition)', f, lp[0].stmt)
    else:
        d1.fail('SeriesReaction._reaction', 'series-form', 'not a sequential update on the running composition', f, f.node)
    f = prog.method('SeriesReaction', '_conversion', rel=RX)
    ps, _ = run_paths(f.node)
    p = ps[0]
    upd = [e for e in p.events if e.kind == 'augname' and e.depth >= 1]
    m = f.params[1]
    okk = len(upd) == 1 and p.ret is not None
    if okk:
        R_ = upd[0].target
        lp = [e for e in p.events if e.kind == 'loop'][0]
        i, j, k = (t.id for t in lp.stmt.target.elts)
        # value uses running[i], result running - material
        okk = src(upd[0].stmt.value) == '%s[%s] * %s * %s' % (R_, i, j, k) and src(p.ret_node.value) == '%s - %s' % (R_, m)
        init = [e for e in p.events if e.kind == 'assign' and e.target == R_]
        okk = okk and init and init[0].value.pretty() == '%s.copy()' % m
    if okk:
        d1.ok('SeriesReaction._conversion', 'runs the series on a copy and returns final - feed', f)
    else:
        d1.fail('SeriesReaction._conversion', 'series-form', '_conversion is not the series update on a copy', f, f.node)

    # ReactionSystem
    f = prog.method('ReactionSystem', '_reaction', rel=RX)
    ps, _ = run_paths(f.node)
    good = False
    for p in ps:
        if p.raised:
            continue
        lp = [e for e in p.events if e.kind == 'loop']
        calls = [e for e in p.events if e.kind == 'call' and e.depth >= 1 and e.target.endswith('._reaction')]
        if len(lp) == 1 and lp[0].value == Form.atom('self._reactions') and len(calls) == 1 \
                and calls[0].target == lp[0].target + '._reaction' and calls[0].value == [Form.atom(f.params[1])]:
            good = True
    if good:
        d1.ok('ReactionSystem._reaction', 'applies each member in order to the same material', f)
    else:
        d1.fail('ReactionSystem._reaction', 'system-form', 'members are not applied in order to the material', f, f.node)


# ----------------------------------------------------------------------------
def rescale_rule(ctx, d2):
    prog = ctx.prog
    # _rescale itself
    f = prog.method('Reaction', '_rescale', rel=RX)
    ps, _ = run_paths(f.node)
    okp = [p for p in ps if not p.raised]
    e = [e for p in okp for e in p.events if e.kind == 'augstore' and e.target == 'self._stoichiometry']
    want = -Form.atom('self._stoichiometry[self._reactant_index]')
    if e and all(x.op == 'Div' and x.value == want for x in e):
        d2.ok('Reaction._rescale', 'self._stoichiometry /= -S[r]', f, e[0].stmt)
    else:
        d2.fail('Reaction._rescale', 'form', 'does not divide the stoichiometry by -S[reactant]', f, f.node)
    f = prog.method('ReactionSet', '_rescale', rel=RX)
    ps, _ = run_paths(f.node)
    p = ps[0]
    lp = [e for e in p.events if e.kind == 'loop']
    upd = [e for e in p.events if e.kind == 'augname' and e.depth >= 1]
    okk = False
    if len(lp) == 1 and len(upd) == 1 and isinstance(lp[0].stmt.target, ast.Tuple) and len(lp[0].stmt.target.elts) == 2 \
            and all(isinstance(t, ast.Name) for t in lp[0].stmt.target.elts) and isinstance(lp[0].stmt.iter, ast.Call):
        # the loop pairs every row with its own reactant position: enumerate(reactant_index) + S[i], enumerate(S) + reactant_index[i], or zip of the two
        a, b = (t.id for t in lp[0].stmt.target.elts)
        it = lp[0].stmt.iter
        fn_, args_ = src(it.func), [src(x) for x in it.args]
        S, R = 'self._stoichiometry', 'self._reactant_index'
        row = idx = None
        if fn_ == 'enumerate' and args_ == [R]:
            row, idx = '%s[%s]' % (S, a), b
        elif fn_ == 'enumerate' and args_ == [S]:
            row, idx = b, '%s[%s]' % (R, a)
        elif fn_ == 'zip' and args_ == [S, R]:
            row, idx = a, b
        elif fn_ == 'zip' and args_ == [R, S]:
            row, idx = b, a
        if row is not None:
            okk = upd[0].op == 'Div' and (upd[0].extra == Form.atom(row) or upd[0].target == row) and upd[0].value == -Form.atom('%s[%s]' % (row, idx))
    if okk:
        d2.ok('ReactionSet._rescale', 'for (i,r): row_i /= -row_i[r]', f, lp[0].stmt)
    else:
        d2.fail('ReactionSet._rescale', 'form', 'rows are not divided by minus their reactant coefficient', f, f.node)

    # every store
    rx = prog.module(RX)
    for f in prog.all_functions():
        if f.module is not rx:
            continue
        if f.cls is not None and f.cls.name.startswith('Kinetic'):
            continue
        if f.name == '_rescale':
            continue
        sites = []
        for n in walk_no_nested(f.node):
            if isinstance(n, ast.Attribute) and isinstance(n.ctx, ast.Store) and n.attr in ('_stoichiometry', '_reactant_index'):
                sites.append(n)
            # in-place element stores  self._stoichiometry[...] = x
            if isinstance(n, ast.Subscript) and isinstance(n.ctx, ast.Store) and isinstance(n.value, ast.Attribute) \
                    and n.value.attr == '_stoichiometry':
                sites.append(n)
            if isinstance(n, ast.AugAssign) and isinstance(n.target, ast.Attribute) and n.target.attr == '_stoichiometry' \
                    and f.name != '_rescale':
                sites.append(n.target)
        if not sites:
            continue
        cons = f.qualname
        if cons in PERMUTERS:
            d2.ok(cons, 'frozen exception (%d stores): %s' % (len(sites), PERMUTERS[cons]), f)
            continue
        cfg = CFG(f.node)
        paths_cache = {}
        for n in sites:
            recv = src(n.value) if isinstance(n, ast.Attribute) else src(n.value.value)
            stmt = n
            while not isinstance(stmt, ast.stmt):
                stmt = stmt._parent
            node = cfg.node_of(stmt)
            # empty reaction: an all-zero stoichiometry built in the same block needs no scaling
            blk = getattr(stmt, '_parent', None)
            sibs = []
            for fld in ('body', 'orelse', 'finalbody'):
                if stmt in getattr(blk, fld, []):
                    sibs = getattr(blk, fld)
            if any(isinstance(x, ast.Assign) and isinstance(x.value, ast.Call)
                   and src(x.value.func).split('.')[-1] in ('from_size', 'from_shape')
                   and any(isinstance(t, ast.Attribute) and t.attr == '_stoichiometry' and src(t.value) == recv for t in x.targets)
                   for x in sibs):
                d2.ok(cons, 'store to %s belongs to the empty-reaction branch (all-zero stoichiometry, nothing to scale)' % src(n), f, stmt)
                continue
            # the value stored, read per path with its locals resolved (a value built into a local first reads like the direct store):
            #   (a) inline normalisation  X._stoichiometry = s / -(s[X._reactant_index])
            #   (b) a copy of the stoichiometry of an operand that _math_compatible_reaction has accepted (same reactant, same basis): already normalised
            if isinstance(stmt, ast.Assign) and isinstance(n, ast.Attribute) and n.attr == '_stoichiometry':
                if paths_cache.get('ps') is None:
                    from ..resolve import resolved as _resolved, path_defs as _path_defs
                    paths_cache['ps'] = [p_ for p_ in run_paths(f.node, max_paths=2000)[0]]
                forms = []
                for p_ in paths_cache['ps']:
                    for e_ in p_.events:
                        if e_.kind == 'store' and e_.stmt is stmt and e_.node is n:
                            from ..resolve import resolved as _resolved, path_defs as _path_defs
                            defs_ = _path_defs(p_, e_)
                            vetted_names = {k_ for k_, v_ in defs_.items() if isinstance(v_, ast.Call) and src(v_.func) == 'self._math_compatible_reaction'}
                            forms.append((_resolved(stmt.value, {k_: v_ for k_, v_ in defs_.items() if k_ not in vetted_names}, keep=set(f.params) - set(defs_)), vetted_names))

                def form_ok(v, vetted_names):
                    if isinstance(v, ast.BinOp) and isinstance(v.op, ast.Div) and isinstance(v.right, ast.UnaryOp) \
                            and isinstance(v.right.op, ast.USub) and isinstance(v.right.operand, ast.Subscript) \
                            and ast.dump(v.right.operand.value) == ast.dump(v.left) \
                            and src(v.right.operand.slice) == recv + '._reactant_index':
                        return 'a'
                    if isinstance(v, ast.Call) and isinstance(v.func, ast.Attribute) and v.func.attr == 'copy' and not v.args \
                            and isinstance(v.func.value, ast.Attribute) and v.func.value.attr == '_stoichiometry' and isinstance(v.func.value.value, ast.Name) \
                            and v.func.value.value.id in vetted_names and recv == 'self':
                        return 'b'
                    return None
                kinds_ = [form_ok(v_, vn_) for v_, vn_ in forms]
                if forms and all(kinds_):
                    if set(kinds_) == {'a'}:
                        d2.ok(cons, '%s._stoichiometry = s / -(s[%s._reactant_index]) (inline normalisation)' % (recv, recv), f, stmt)
                    elif set(kinds_) == {'b'}:
                        d2.ok(cons, 'self._stoichiometry = <operand>._stoichiometry.copy(): copy of an operand vetted by _math_compatible_reaction (same reactant and basis, '
                              'hence already normalised)', f, stmt)
                    else:
                        d2.ok(cons, 'on every path the value stored is either normalised in line or the copy of a vetted operand\'s stoichiometry', f, stmt)
                    continue

            def is_rescale(nd, recv=recv):
                if nd.ast is None or nd.kind not in ('stmt',):
                    return False
                for c in ast.walk(nd.ast):
                    if isinstance(c, ast.Call) and isinstance(c.func, ast.Attribute) and c.func.attr == '_rescale' \
                            and src(c.func.value) == recv:
                        return True
                    if isinstance(c, ast.Call) and src(c.func) == 'set_reaction_basis' and c.args and src(c.args[0]) == recv:
                        return True
                return False
            if node is None:
                d2.skip(cons, 'store not located in CFG', f, stmt)
                continue
            okk, wit = cfg.must_pass(node, is_rescale)
            if okk:
                d2.ok(cons, 'store to %s is followed by %s._rescale() on every path to return' % (src(n), recv), f, stmt)
            else:
                d2.fail(cons, 'no-rescale-%s' % (n.attr if isinstance(n, ast.Attribute) else 'item'),
                        'store to %s can reach a return without %s._rescale()' % (src(n), recv), f, stmt,
                        witness=' -> '.join('L%d' % x.lineno for x in wit if x.lineno))


# ----------------------------------------------------------------------------
def basis_rule(ctx, d3):
    prog = ctx.prog
    f = prog.func(RX, 'set_reaction_basis')
    ps, _ = run_paths(f.node)
    r = f.params[0]
    seen = {}
    for p in ps:
        if p.raised:
            continue
        from ..pathcond import resolved_conds, implied as _imp
        rc = resolved_conds(p, keep=set(f.params))
        bp = f.params[1]

        def cmp_(t, ops, a, b):
            return isinstance(t, ast.Compare) and len(t.ops) == 1 and isinstance(t.ops[0], ops) and {src(t.left), src(t.comparators[0])} == {a, b}
        ne = _imp(rc, lambda t: cmp_(t, ast.NotEq, bp, '%s._basis' % r))
        eq = _imp(rc, lambda t: cmp_(t, ast.Eq, bp, '%s._basis' % r))
        changed = ne is True or eq is False
        if not changed:
            continue
        wt = _imp(rc, lambda t: cmp_(t, ast.Eq, bp, "'wt'")) is True
        is_set = _imp(rc, lambda t: isinstance(t, ast.Call) and src(t.func) == 'isinstance' and len(t.args) == 2 and src(t.args[0]) == r
                      and 'ReactionSet' in src(t.args[1])) is True
        ops = [e for e in p.events if e.kind in ('augstore', 'augname')]
        calls = [e.target for e in p.events if e.kind == 'call']
        stores = [e for e in p.events if e.kind == 'store']
        want_op = 'Mult' if wt else 'Div'
        okk = len(ops) == 1 and ops[0].op == want_op and ops[0].value == Form.atom('%s.MWs' % r)
        if okk and is_set:
            lp = [e for e in p.events if e.kind == 'loop']
            okk = len(lp) == 1 and lp[0].value == Form.atom('%s._stoichiometry' % r) and ops[0].target == lp[0].target
        elif okk:
            okk = ops[0].target == '%s._stoichiometry' % r
        after = p.events[p.events.index(ops[0]):] if ops else []
        okk = okk and any(e.kind == 'call' and e.target == '%s._rescale' % r for e in after) \
            and any(e.kind == 'store' and e.target == '%s._basis' % r and e.value == Form.atom('basis') for e in after)
        key = ('wt' if wt else 'mol', 'set' if is_set else 'single')
        seen[key] = okk
        cons = 'set_reaction_basis[%s,%s]' % key
        if okk:
            d3.ok(cons, 'stoichiometry %s= MWs, then _rescale(), then _basis recorded' % ('*' if wt else '/'), f)
        else:
            d3.fail(cons, 'basis-form', 'basis change is not (%s MWs; rescale; record basis)' % ('*' if wt else '/'), f, f.node)
    if len(seen) != 4:
        raise AnalysisError('set_reaction_basis: expected 4 conversion paths, found %s' % sorted(seen))

    # write-back / restore in __call__ and force_reaction
    for mname in ('__call__', 'force_reaction', 'conversion'):
        f = prog.method('Reaction', mname, rel=RX)
        cfg = CFG(f.node)
        cons = 'Reaction.' + mname
        # locate the as_material_array unpacking
        names = None
        for n in walk_no_nested(f.node):
            if isinstance(n, ast.Assign) and isinstance(n.value, ast.Call) and src(n.value.func) == 'as_material_array' \
                    and isinstance(n.targets[0], ast.Tuple) and len(n.targets[0].elts) == 3:
                names = [e.id for e in n.targets[0].elts]
                start = cfg.node_of(n)
        if names is None:
            raise AnalysisError('%s does not unpack as_material_array' % cons)
        values, config, original = names

        def wb(nd):
            return nd.kind == 'test' and isinstance(nd.ast, ast.If) and src(nd.ast.test) == '%s is not None' % original \
                and any(isinstance(b, ast.Assign) and src(b.targets[0]) == '%s[:]' % original and src(b.value) == values
                        for b in nd.ast.body)

        def rs(nd):
            return nd.kind == 'test' and isinstance(nd.ast, ast.If) and src(nd.ast.test) == config \
                and any('reset_chemicals(*%s)' % config in src(b) for b in nd.ast.body)
        if mname != 'conversion':
            okk, wit = cfg.must_pass(start, wb)
            if okk:
                d3.ok(cons, 'every normal path writes the reacted values back (original[:] = values when a copy was made)', f)
            else:
                d3.fail(cons, 'no-write-back', 'a normal return skips the write-back of the reacted copy', f, f.node,
                        witness=' -> '.join('L%d' % x.lineno for x in wit if x.lineno))
        if mname != 'conversion':
            # ... and before the configuration is restored: the restore re-binds the stream's data to its own package, after which
            # `original` (the mass view made while the reaction's package was in place) no longer wraps the stream's storage
            late = None
            for nd in cfg.nodes:
                if rs(nd):
                    reach = cfg.reachable_from(nd)
                    for other_ in cfg.nodes:
                        if wb(other_) and other_.id in reach:
                            late = other_
            if late is None:
                d3.ok(cons, 'the write-back happens before the chemicals configuration is restored', f)
            else:
                d3.fail(cons, 'write-back-after-restore', 'the reacted copy is written back after material._imol.reset_chemicals(*config) has restored the stream\'s own '
                        'package: the view it is written through no longer wraps the stream\'s storage, the reaction is lost', f, late.ast)
        okk, wit = cfg.must_pass(start, rs)
        if okk:
            d3.ok(cons, 'every normal path restores the stream\'s chemicals configuration', f)
        else:
            d3.fail(cons, 'no-restore', 'a normal return skips material._imol.reset_chemicals(*config)', f, f.node,
                    witness=' -> '.join('L%d' % x.lineno for x in wit if x.lineno))
    # as_material_array: wt basis returns (copy, config, original-view)
    f = prog.func(RX, 'as_material_array')
    ps, _ = run_paths(f.node)
    found = 0
    for p in ps:
        if p.raised or p.ret_node is None:
            continue
        from ..pathcond import implied2 as _imp2b, resolved_conds as _rcb, implied
        rcb = _rcb(p, keep=set(f.params))

        def _basis_is(k, rcb=rcb):
            return _imp2b(rcb, lambda t: isinstance(t, ast.Compare) and len(t.ops) == 1 and isinstance(t.ops[0], ast.Eq) and src(t.left) == f.params[1]
                          and isinstance(t.comparators[0], ast.Constant) and t.comparators[0].value == k,
                          lambda t: isinstance(t, ast.Compare) and len(t.ops) == 1 and isinstance(t.ops[0], ast.NotEq) and src(t.left) == f.params[1]
                          and isinstance(t.comparators[0], ast.Constant) and t.comparators[0].value == k)
        is_stream = implied(rcb, lambda t: isinstance(t, ast.Call) and src(t.func) in ('isinstance', 'isa') and len(t.args) == 2
                            and src(t.args[0]) == f.params[0] and 'Stream' in src(t.args[1]) and 'Multi' not in src(t.args[1])) is True
        wt_ = _basis_is('wt') is True
        mol_ = _basis_is('mol') is True
        if wt_ and is_stream:
            r = p.ret_node.value
            found += 1
            rt = p.tup.get('<ret>') or []
            if isinstance(r, ast.Tuple) and len(r.elts) == 3 and len(rt) == 3 and rt[0].pretty() == 'material.imass.data.copy()' \
                    and rt[2].pretty() == 'material.imass.data':
                d3.ok('as_material_array[wt]', 'returns (mass data copy, config, mass data view)', f, p.ret_node)
            else:
                d3.fail('as_material_array[wt]', 'wt-route', 'weight basis does not route through a copy of the mass view with write-back target', f, p.ret_node)
        if mol_ and is_stream:
            r = p.ret_node.value
            found += 1
            if isinstance(r, ast.Tuple) and src(r.elts[0]) == 'material._imol.data' and src(r.elts[2]) == 'None':
                d3.ok('as_material_array[mol]', 'returns the molar data itself (in-place reaction)', f, p.ret_node)
            else:
                d3.fail('as_material_array[mol]', 'mol-route', 'molar basis does not react the molar data in place', f, p.ret_node)
    if found < 2 or not any(i_['construct'] == 'as_material_array[wt]' for i_ in d3.instances) \
            or not any(i_['construct'] == 'as_material_array[mol]' for i_ in d3.instances):
        raise AnalysisError('as_material_array: stream branches (mol and wt) not found')
    # every return: (values, config, original) -- either values IS the caller's object (reacted in place, nothing to write back) or it is a
    # fresh object and `original` names where the result must be written; a fresh object with original=None is a lost update
    mp = f.params[0]
    rets = [n for n in walk_no_nested(f.node) if isinstance(n, ast.Return) and isinstance(n.value, ast.Tuple) and len(n.value.elts) == 3]
    for r in rets:
        v, _c, o = r.value.elts
        fresh = isinstance(v, ast.Call) and not (isinstance(v.func, ast.Attribute) and v.func.attr in ('view',))
        inplace = not fresh
        o_none = isinstance(o, ast.Constant) and o.value is None
        if fresh and o_none:
            d3.fail('as_material_array', 'copy-without-write-back', 'returns the fresh object %s with nothing to write the reacted values back to: the reaction is applied to a copy '
                    'and the caller\'s material stays unchanged' % src(v), f, r)
        elif inplace and not o_none:
            d3.fail('as_material_array', 'write-back-onto-itself', 'returns %s itself together with a write-back target' % src(v), f, r)
        else:
            d3.ok('as_material_array', 'return %s: %s' % (src(r.value), 'reacted in place' if inplace else 'copy + write-back target'), f, r)


# ----------------------------------------------------------------------------
def parser_rule(ctx, d4):
    prog = ctx.prog
    for rel in (PRS, XPRS):
        f = prog.func(rel, 'str2dct')
        ps, _ = run_paths(f.node)
        p = ps[0]
        # provenance: left, right = reaction.split('->')
        env = {}
        for e in p.events:
            if e.kind == 'assign':
                env[e.target] = e.value.pretty()
        calls = [e for e in p.events if e.kind == 'call' and e.target == 'extract_coefficients']
        lhs_ok = rhs_ok = False
        for c in calls:
            a0 = c.value[0].pretty()
            sign = c.value[2].const_value() if len(c.value) > 2 else None
            if "[0].split('+')" in a0 and "split('->')" in a0:
                lhs_ok = sign is not None and sign < 0
                lhs_stmt = c.stmt
            if "[1].split('+')" in a0 and "split('->')" in a0:
                rhs_ok = sign is not None and sign > 0
        tag = rel.split('/')[-1]
        if lhs_ok and rhs_ok and len(calls) == 2:
            d4.ok('%s:str2dct' % tag, 'left of "->" parsed with sign -1, right with +1', f)
        else:
            d4.fail('%s:str2dct' % tag, 'sign', 'left/right sides are not parsed with signs -1/+1', f, f.node)
        g = prog.func(rel, 'split_coefficient')
        ps, _ = run_paths(g.node, follow_except=False)
        okk = True
        n = 0
        for p in ps:
            if p.raised or p.ret_node is None:
                continue
            r = p.tup.get('<ret>')
            if not r:
                okk = False
                continue
            n += 1
            first = r[0]
            # every term has `sign` to the first power
            if first.is_zero() or not all(dict(k).get('sign') == 1 for k in first.t):
                okk = False
        if okk and n:
            d4.ok('%s:split_coefficient' % tag, 'returned coefficient is sign*|n| on all %d paths' % n, g)
        else:
            d4.fail('%s:split_coefficient' % tag, 'sign-lost', 'a path returns a coefficient that does not carry the sign', g, g.node)
        h = prog.func(rel, 'extract_coefficients')
        ps, _ = run_paths(h.node)
        okk = False
        for p in ps:
            if p.raised:
                continue
            cs = [e for e in p.events if e.kind == 'call' and e.target == 'split_coefficient']
            st = [e for e in p.events if e.kind == 'store' and e.target.startswith('dct[')]
            if cs and st and cs[0].value[1] == Form.atom('sign'):
                call_txt = 'split_coefficient(%s)' % ', '.join(a.pretty() for a in cs[0].value)
                v = st[0].value.pretty()
                vv = src(st[0].stmt.value)
                if ('(%s)[0]' % call_txt) in v or vv in ('n', '(phase, n)'):
                    okk = True
        if okk:
            d4.ok('%s:extract_coefficients' % tag, 'stores the signed coefficient returned by split_coefficient(nID, sign)', h)
        else:
            d4.fail('%s:extract_coefficients' % tag, 'store', 'does not store the signed coefficient', h, h.node)


# ----------------------------------------------------------------------------
def feasibility_rule(ctx, d5):
    prog = ctx.prog
    f = prog.method('Reaction', '__call__', rel=RX)
    ps, _ = run_paths(f.node, max_paths=2000)
    n_ok = 0
    bad = None
    raised = False
    for p in ps:
        from ..pathcond import implied
        if implied(p.conds, lambda e_: src(e_) == 'tmo.reaction.CHECK_FEASIBILITY') is not True:
            continue
        rc = {}
        for tmap, taken, test in p.rconds:
            rc[tmap.get(id(test), '')] = taken
        big = None
        hn = None
        for t_, taken in rc.items():
            if re.search(r'\.has_negatives\(\)$', t_):
                hn = taken
            if re.search(r'negative_index\(\)\]\.sum\(\) < -1/1000000000000\)$', t_) or re.search(r'\.sum\(\) < -1/1000000000000\)$', t_):
                big = taken
        if p.raised:
            if big is True:
                raised = True
            continue
        if hn is False:
            n_ok += 1
            continue
        zeroed = any(e.kind == 'store' and isinstance(e.node, ast.Subscript) and e.target.endswith('.negative_index()]')
                     and e.value.is_zero() for e in p.events)
        # Form for 0. is the zero form
        if hn is True and big is False and zeroed:
            n_ok += 1
        else:
            bad = p
    if bad is None and n_ok >= 2:
        d5.ok('Reaction.__call__', 'with the flag on every normal return saw no negatives or zeroed round-off negatives (%d paths)' % n_ok, f)
    else:
        d5.fail('Reaction.__call__', 'gate-bypassed', 'a normal return with the feasibility flag on neither checked nor zeroed negative flows', f, f.node)
    if raised:
        d5.ok('Reaction.__call__', 'InfeasibleRegion is raised when the negative sum is below -1e-12', f)
    else:
        d5.fail('Reaction.__call__', 'no-raise', 'no raising path for negative sums below -1e-12', f, f.node)
    # the raise statement is a real raise of InfeasibleRegion
    rz = [n for n in ast.walk(f.node) if isinstance(n, ast.Raise) and n.exc is not None and 'InfeasibleRegion' in src(n.exc)]
    if rz:
        d5.ok('Reaction.__call__', 'raise InfeasibleRegion(...) present under the threshold test', f, rz[0])
    else:
        d5.fail('Reaction.__call__', 'raise-kind', 'infeasible conversions do not raise InfeasibleRegion', f, f.node)
