"""C11 -- molar, mass and volumetric views agree (structural clauses)."""
from __future__ import annotations
import ast, re
from ..frontend import AnalysisError, src, walk_no_nested
from ..symx import run_paths
from ..lin import Form, Lin
from ..cfg import CFG
from .. import storage

MANIFEST = {
    'technique': "must-follow / who-may-write rule on every re-binding of a molar indexer's storage (the cached mass/volume views wrap the old dicts); linear-form "
            'inverse-pair checks for the unit and view conversions; totality of the dimension dispatch; sibling-agreement rule link_with/unlink',
    'text': 'Decides for every history: every statement that re-binds the storage a mass/volume view wraps (indexer.data, data.rows) outside constructors is '
            "accompanied on every path by dropping or replacing that indexer's cached views (emptying the cache in place does not count where the same cache object"
            ' is saved or handed out); get_flow/set_flow, get_total_flow/set_total_flow and the DictionaryView input/output pairs compose to the identity as '
            'symbolic forms; the total-flow setters scale the whole molar data by value/current; the units dispatch ends in DimensionError and takes each factor '
            'from the units object of the matching dimension; the volumetric view recomputes V when its cached thermal condition differs and caches a copy; unlink '
            're-binds everything link_with can share, the view cache included. Numerical conversion factors (pint) are not decided.',
}

ST = 'thermosteam/_stream.py'
MS = 'thermosteam/_multi_stream.py'
IX = 'thermosteam/indexer.py'
DV = 'thermosteam/base/dictionary_view.py'


def run(ctx):
    prog = ctx.prog
    ctx.decided = [
        'D1 re-binding of view-wrapped storage is accompanied by dropping/replacing the cached mass/volume views',
        'D2 inverse pairs: get/set flow, get/set total flow, DictionaryView output/input, total-flow setters scale the whole data',
        'D3 dimension dispatch ends in DimensionError; each factor from the units object of its own dimension',
        'D4 VolumetricFlowDict recomputes V when the cached thermal condition differs and caches a copy of TP',
        'D5 unlink re-binds everything link_with can share, including the view cache (a shared cache hands one stream the views of the other)',
    ]
    ctx.not_decided = ['numerical conversion factors', 'molar volume model values']
    d1 = ctx.rule('D1', 'views follow the storage', floor=6)
    d2 = ctx.rule('D2', 'inverse pairs (D-lin)', floor=8)
    d3 = ctx.rule('D3', 'dimension guard', floor=4)
    d4 = ctx.rule('D4', 'volumetric view re-evaluation', floor=2)
    view_coherence(ctx, d1)
    inverse_pairs(ctx, d2)
    dimension(ctx, d3)
    volumetric(ctx, d4)
    d5 = ctx.rule('D5', 'after unlink the mass/volume view cache is the stream\'s own', floor=4)
    from .C13 import unlink_rule
    unlink_rule(ctx, d5)


def _cache_captured(fn_node, recv):
    """the cache object of `recv` is taken as a value somewhere in the function (saved in a local / tuple, returned, passed on): emptying
    it in place would also empty the saved one, and the saved one would stay the live one -- only a re-bind separates them"""
    for x in walk_no_nested(fn_node):
        if isinstance(x, ast.Attribute) and isinstance(x.ctx, ast.Load) and x.attr == '_data_cache' and src(x.value) == recv:
            par = getattr(x, '_parent', None)
            if isinstance(par, ast.Subscript) and par.value is x:
                continue          # an entry of the cache is read / written
            if isinstance(par, ast.Attribute) and par.value is x:
                continue          # a method of the cache (clear, get, pop, ...)
            return True
    return False


def _cache_drop_pred(recv, clear_counts=True):
    """a node that drops / replaces recv._data_cache"""
    def pred(x):
        if clear_counts and isinstance(x, ast.Call) and isinstance(x.func, ast.Attribute) and x.func.attr == 'clear' \
                and src(x.func.value) == recv + '._data_cache':
            return True
        if isinstance(x, ast.Attribute) and isinstance(x.ctx, ast.Store) and x.attr == '_data_cache' and src(x.value) == recv:
            return True
        return False
    return pred


def view_coherence(ctx, d1):
    prog = ctx.prog
    # the views wrap data.dct / row.dct  (anchor of the rule)
    n_views = 0
    for f in prog.module(IX).functions.values():
        pass
    n_views = 0
    for n in ast.walk(prog.module(IX).tree):
        if isinstance(n, ast.Call) and src(n.func) in ('MassFlowDict', 'VolumetricFlowDict') and n.args \
                and isinstance(n.args[0], ast.Attribute) and n.args[0].attr == 'dct':
            n_views += 1
    ctx.anchor(n_views >= 4, 'by_mass/by_volume no longer wrap the molar dicts (found %d view constructions)' % n_views)
    for rel in (IX, ST, MS):
        for f in prog.all_functions():
            if f.module.rel != rel:
                continue
            fresh = storage.fresh_names(f.node)
            amap = storage.alias_map(f.node)
            sites = []
            for n in walk_no_nested(f.node):
                if isinstance(n, ast.Attribute) and isinstance(n.ctx, ast.Store) and n.attr in ('data', 'rows'):
                    if isinstance(getattr(n, '_parent', None), ast.AugAssign):
                        continue     # in-place operator of the sparse classes (returns self: same storage)
                    sites.append(n)
            if not sites:
                continue
            cfg = dom = None
            for n in sites:
                recv = src(n.value)
                root = recv.split('.')[0]
                st = storage.stmt_of(n)
                cons = f.qualname
                if n.attr == 'rows':
                    # data.rows = ... : the owner indexer is the object whose .data this is
                    owner = storage.resolve(recv, amap)
                    if not owner.endswith('.data'):
                        if f.cls is not None and f.cls.name in ('SparseArray',):
                            continue
                        if f.module.rel != IX:
                            continue
                    owner = owner[:-len('.data')] if owner.endswith('.data') else recv
                    if f.cls is not None and f.cls.name == 'SparseArray':
                        continue
                    recv_for_cache = owner
                else:
                    if f.cls is None:
                        continue
                    is_indexer = rel == IX and (recv == 'self' or recv in fresh) and any(
                        k.name in ('ChemicalIndexer', 'MaterialIndexer') for k in f.cls.mro())
                    is_stream_imol = rel in (ST, MS) and (storage.resolve(recv, amap).endswith('._imol') or recv.endswith('_imol'))
                    if not (is_indexer or is_stream_imol):
                        continue
                    if f.cls.name in ('StreamData', 'TemporaryPhase', 'TemporaryStream') or f.cls.name.startswith('Temporary'):
                        continue
                    recv_for_cache = recv
                if root in fresh or (root == 'self' and storage.is_ctor(f)):
                    d1.ok(cons, '%s.%s bound on a freshly built object (no views can exist yet)' % (recv, n.attr), f, st)
                    continue
                if storage.resolve(recv, amap).split('.')[0] in fresh:
                    d1.ok(cons, '%s.%s bound on a freshly built object' % (recv, n.attr), f, st)
                    continue
                # mass/volume indexers (views themselves) have no cached views of their own
                if f.cls is not None and rel == IX and not _is_molar(prog, f.cls):
                    pass
                if cfg is None:
                    cfg = CFG(f.node)
                    dom = cfg.dominators()
                node = cfg.node_of(st)
                where, wit = storage.holds_around(cfg, dom, node, _cache_drop_pred(recv_for_cache, not _cache_captured(f.node, recv_for_cache)))
                if where is None and recv_for_cache != recv:
                    where, wit = storage.holds_around(cfg, dom, node, _cache_drop_pred(recv, not _cache_captured(f.node, recv)))
                if where is None:
                    # a call on the same receiver that (transitively) drops the cache, e.g. self._set_cache() does not; reset_chemicals does
                    pass
                if where:
                    d1.ok(cons, '%s.%s re-bound; %s._data_cache dropped/replaced (%s)' % (recv, n.attr, recv_for_cache, where), f, st)
                else:
                    d1.fail(cons, 'views-kept-%s' % n.attr,
                            '%s.%s is re-bound but the cached mass/volume views of %s (which wrap the old dicts) are kept%s'
                            % (recv, n.attr, recv_for_cache,
                               ' (the cache object is saved / handed out in this function, so emptying it in place empties the saved one too and leaves it live: '
                               'only a re-bind separates them)' if _cache_captured(f.node, recv_for_cache) else ''), f, st)


def _is_molar(prog, c):
    return True


def inverse_pairs(ctx, d2):
    prog = ctx.prog
    S = prog.cls('Stream', ST)
    g = S.methods['get_flow']
    s = S.methods['set_flow']
    pg, _ = run_paths(g.node)
    ps, _ = run_paths(s.node)
    call = "(self._get_flow_name_and_factor(units))"
    name, factor = Form.atom(call + '[0]'), Form.atom(call + '[1]')
    okg = len(pg) == 1 and pg[0].ret is not None and pg[0].ret.coeff(call + '[1]', "getattr(self, 'i'*(%s)[0])[key]" % call[0:]) == 1
    # robust formulation: ret == factor * <indexer>[key]; store == data / factor into the same indexer[key]
    r = pg[0].ret
    ind = [a for a in r.atoms() if a.startswith('getattr(self,')]
    okg = len(ind) == 1 and r == factor * Form.atom(ind[0]) and ind[0].endswith('[key]')
    st = [e for e in ps[0].events if e.kind == 'store']
    oks = len(ps) == 1 and len(st) == 1 and st[0].target == ind[0] if ind else False
    if oks:
        v = st[0].value
        inv = Form({((call + '[1]', -1),): 1})
        data_atoms = [a for a in v.atoms() if a.startswith('np.asarray(')]
        oks = len(data_atoms) == 1 and v == Form.atom(data_atoms[0]) * inv
    if okg and oks:
        d2.ok('Stream.get_flow/set_flow', 'get = factor * indexer[key]; set stores data / factor into the same indexer[key] (inverse pair)', g)
    else:
        d2.fail('Stream.get_flow/set_flow', 'not-inverse', 'get_flow and set_flow are not factor*x and x/factor on the same indexer', s, s.node)
    g = S.methods['get_total_flow']
    s = S.methods['set_total_flow']
    pg, _ = run_paths(g.node)
    ps, _ = run_paths(s.node)
    r = pg[0].ret
    tot = [a for a in r.atoms() if a.startswith('getattr(self,')]
    okg = len(tot) == 1 and r == factor * Form.atom(tot[0])
    c = [e for e in ps[0].events if e.kind == 'call' and e.target == 'setattr']
    oks = len(c) == 1 and len(c[0].value) == 3 and c[0].value[2] == Form.atom('value') * Form({((call + '[1]', -1),): 1}) \
        and tot and c[0].value[1].pretty() in tot[0]
    if okg and oks:
        d2.ok('Stream.get_total_flow/set_total_flow', 'get = factor * F_name; set assigns value / factor to the same F_name', g)
    else:
        d2.fail('Stream.get_total_flow/set_total_flow', 'not-inverse', 'total-flow getter and setter are not inverse', s, s.node)
    # F_* setters scale the whole molar data by value/current
    for nm in ('F_mol', 'F_mass', 'F_vol'):
        f = S.setters[nm]
        ps, _ = run_paths(f.node)
        okk = False
        n = 0
        for p in ps:
            if p.raised:
                continue
            aug = [e for e in p.events if e.kind == 'augstore']
            if not aug:
                continue
            n += 1
            e = aug[0]
            want = Form.atom('value') * Form({(('self.' + nm, -1),): 1})
            okk = len(aug) == 1 and e.op == 'Mult' and e.target in ('self._imol.data', 'self.imol.data') and e.value == want
            if not okk:
                break
        if okk and n:
            d2.ok('Stream.%s.setter' % nm, 'whole molar data *= value / current %s (composition unchanged)' % nm, f)
        else:
            d2.fail('Stream.%s.setter' % nm, 'scale-form', 'setter does not scale the whole molar data by value/current', f, f.node)
    # DictionaryView: output/input inverse; __getitem__/__setitem__ go through them
    for cname in ('MassFlowDict', 'VolumetricFlowDict'):
        c = prog.cls(cname, DV)
        o, i = c.methods['output'], c.methods['input']
        po, _ = run_paths(o.node)
        pi, _ = run_paths(i.node)
        okk = True
        if cname == 'VolumetricFlowDict':
            # the factor is the cached molar volume: per path, output returns value*F and input value/F, where F is the third element of
            # the remembered entry on a path that re-uses it and the volume just recorded on a path that re-evaluates it
            def _unparen(t):
                return re.sub(r'\(([\w.]+\([^()]*\))\)\[', r'\1[', t)
            for meth, sign in ((o, 1), (i, -1)):
                vp_ = meth.params[2]
                mps, _ = run_paths(prog.normal_form(meth), follow_except=False)
                n_ = 0
                for p in mps:
                    if p.raised:
                        continue
                    n_ += 1
                    if p.ret is None:
                        okk = False
                        continue
                    st_ = [e for e in p.events if e.kind == 'store' and e.target.startswith('self.cache[') and e.extra and len(e.extra) == 3]
                    if st_:
                        F = st_[-1].extra[2]
                        want_ = Form.atom(vp_) * (F if sign == 1 else F.inv()) if (sign == 1 or F.inv() is not None) else None
                        if want_ is None or p.ret != want_:
                            okk = False
                    else:
                        gets = [e for e in p.events if e.kind == 'call' and e.target == 'self.cache.get']
                        fac = p.ret * Form({((vp_, -1),): 1})
                        if not gets or len(fac.t) != 1:
                            okk = False
                            continue
                        (k_, c_), = fac.t.items()
                        entry = 'self.cache.get(%s)' % ', '.join(a.pretty() for a in gets[-1].value)
                        okk = okk and c_ == 1 and len(k_) == 1 and k_[0][1] == sign and _unparen(k_[0][0]) == entry + '[2]'
                if not n_:
                    okk = False
            po = pi = []
        for p in po:
            for q in pi:
                if p.ret is None or q.ret is None:
                    okk = False
                    continue
                fo = p.ret * Form({(('value', -1),): 1})
                fi = q.ret * Form({(('value', -1),): 1})
                # same branch choice <=> same conds; compare factor forms when the branch histories agree
                if [t for _, t in p.conds] == [t for _, t in q.conds]:
                    if not (fo * fi == Form.const(1)):
                        okk = False
        if okk:
            d2.ok(cname, 'input(output(x)) == x : factors are reciprocal on every branch', o)
        else:
            d2.fail(cname, 'not-inverse', 'output and input factors are not reciprocal', i, i.node)
    dvc = prog.cls('DictionaryView', DV)
    gi, si = dvc.methods['__getitem__'], dvc.methods['__setitem__']
    pg, _ = run_paths(gi.node)
    ps, _ = run_paths(si.node)
    okg = pg[0].ret == Form.atom('self.output(key, self.dct[key])')
    st = [e for e in ps[0].events if e.kind == 'store']
    oks = len(st) == 1 and st[0].target == 'self.dct[key]' and 'self.input(key, value)' in st[0].value.pretty() and '__float__' in st[0].value.pretty()
    if okg and oks:
        d2.ok('DictionaryView', 'reads go through output(), writes through input() on the wrapped molar dict', gi)
    else:
        d2.fail('DictionaryView', 'bypass', 'item access bypasses output()/input()', gi, gi.node)
    # every value-returning accessor converts
    for nm in ('items', 'values', 'get', 'pop', 'popitem', 'copy'):
        f = dvc.methods[nm]
        t = ' '.join(ast.unparse(f.node).split())
        if 'self.output(' in t:
            d2.ok('DictionaryView.' + nm, 'values handed out are converted with output()', f)
        else:
            d2.fail('DictionaryView.' + nm, 'raw-values', '%s hands out unconverted molar values' % nm, f, f.node)


def _unroll_literal_for(loop, fn):
    """for <targets> in <literal tuple of tuples>: if <test>: <body>; break  [else: <orelse>]   ->   the equivalent if/elif chain (as an AST)"""
    import copy as _copy
    it = loop.iter
    if isinstance(it, ast.Name):
        defs = [n for n in walk_no_nested(fn) if isinstance(n, ast.Assign) and len(n.targets) == 1 and isinstance(n.targets[0], ast.Name) and n.targets[0].id == it.id]
        it = defs[0].value if len(defs) == 1 else None
    if not isinstance(it, (ast.Tuple, ast.List)) or not it.elts:
        return None
    tg = loop.target.elts if isinstance(loop.target, ast.Tuple) else [loop.target]
    if not all(isinstance(t, ast.Name) for t in tg):
        return None
    if len(loop.body) != 1 or not isinstance(loop.body[0], ast.If) or loop.body[0].orelse or not isinstance(loop.body[0].body[-1], ast.Break):
        return None
    inner = loop.body[0]
    chain = None
    last = None
    for el in it.elts:
        vals = el.elts if isinstance(el, (ast.Tuple, ast.List)) else [el]
        if len(vals) != len(tg):
            return None
        sub = {t.id: v for t, v in zip(tg, vals)}

        class R(ast.NodeTransformer):
            def visit_Name(self, nd):
                if isinstance(nd.ctx, ast.Load) and nd.id in sub:
                    return _copy.deepcopy(sub[nd.id])
                return nd
        test = R().visit(_copy.deepcopy(inner.test))
        body = [R().visit(_copy.deepcopy(b)) for b in inner.body[:-1]]
        # the loop targets stay bound to this element after the break
        body = [ast.Assign(targets=[ast.Name(id=t.id, ctx=ast.Store())], value=_copy.deepcopy(v)) for t, v in zip(tg, vals)] + body
        node = ast.If(test=test, body=body or [ast.Pass()], orelse=[])
        if chain is None:
            chain = node
        else:
            last.orelse = [node]
        last = node
    last.orelse = [_copy.deepcopy(x) for x in loop.orelse]
    ast.fix_missing_locations(chain)
    for x in ast.walk(chain):
        if not hasattr(x, 'lineno'):
            x.lineno = loop.lineno
    return chain


def dimension(ctx, d3):
    """decided on the paths of the normal form: a path that answers (name, factor) for units that are not memoised has taken exactly one
    test  dimensionality(units) == X_units.dimensionality  and returns ('X', X_units.conversion_factor(units)); when all three
    tests fail the path raises DimensionError"""
    prog = ctx.prog
    f = prog.method('Stream', '_get_flow_name_and_factor', rel=ST)
    up = f.params[1]
    node = prog.normal_form(f)
    ps, trunc = run_paths(node, follow_except=False, max_paths=2000)
    if trunc:
        raise AnalysisError('_get_flow_name_and_factor: path enumeration truncated')
    DIM = re.compile(r'^\(\w[\w.]*get_dimensionality\(%s\) == (\w+)_units\.dimensionality\)$' % re.escape(up))
    seen = {}
    rejected = False
    n_paths = 0
    for p in ps:
        tests = []
        for tmap, taken, test in p.rconds:
            mm = DIM.match(tmap.get(id(test), ''))
            if mm:
                tests.append((mm.group(1), taken))
        if not tests:
            continue            # the memoised answer
        n_paths += 1
        yes = [k for k, t in tests if t]
        if p.raised:
            rz = [e for e in p.events if e.kind == 'raise']
            if not yes and rz and 'DimensionError' in src(rz[-1].stmt):
                rejected = True
            continue
        if len(yes) != 1:
            d3.fail('Stream._get_flow_name_and_factor', 'no-dimension-error', 'units of another dimension are not rejected', f, node)
            continue
        k = yes[0]
        ret = p.tup.get('<ret>') or []
        got = [r.pretty() for r in ret]
        if got == [repr(k), '%s_units.conversion_factor(%s)' % (k, up)]:
            seen.setdefault(k, []).append(True)
        else:
            seen.setdefault(k, []).append(False)
            d3.fail('Stream._get_flow_name_and_factor[%s]' % k, 'factor-mismatch', 'dimension %s yields %s' % (k, got), f,
                    p.ret_node if p.ret_node is not None else node)
    if not n_paths:
        raise AnalysisError('dimension dispatch not found')
    for k, lst in sorted(seen.items()):
        if all(lst):
            d3.ok('Stream._get_flow_name_and_factor[%s]' % k, 'name %r with the factor of %s_units' % (k, k), f)
    if rejected:
        d3.ok('Stream._get_flow_name_and_factor', 'any other dimensionality raises DimensionError', f)
    else:
        d3.fail('Stream._get_flow_name_and_factor', 'no-dimension-error', 'units of another dimension are not rejected', f, node)
    if len(seen) != 3:
        d3.fail('Stream._get_flow_name_and_factor', 'dimensions', 'expected molar, mass and volumetric branches, found %d' % len(seen), f, node)


def volumetric(ctx, d4):
    """The cached molar volume depends on (chemical, phase, T, P).  Decided on the paths of the normal form of output / input (a shared
    helper is inlined): a path that uses the remembered volume has established BOTH that the current phase equals the recorded one and
    that the recorded T,P are in equilibrium with the current ones; a path that evaluates V(*self.TP) records (copy of TP, phase, V)."""
    from ..resolve import resolved, path_defs
    prog = ctx.prog
    c = prog.cls('VolumetricFlowDict', DV)
    for nm in ('output', 'input'):
        f = c.methods[nm]
        node = prog.normal_form(f)
        ps, _ = run_paths(node, follow_except=False)
        cons = 'VolumetricFlowDict.' + nm
        vp = f.params[2]

        def is_phase(x):
            t = src(x)
            return 'self.phase' in t and 'phase_container' in t

        def ev(t, scen):
            if isinstance(t, ast.UnaryOp) and isinstance(t.op, ast.Not):
                v = ev(t.operand, scen)
                return None if v is None else not v
            if isinstance(t, ast.BoolOp):
                vs = [ev(v, scen) for v in t.values]
                if isinstance(t.op, ast.And):
                    return False if any(v is False for v in vs) else (True if all(v is True for v in vs) else None)
                return True if any(v is True for v in vs) else (False if all(v is False for v in vs) else None)
            if isinstance(t, ast.Compare) and len(t.ops) == 1 and isinstance(t.ops[0], (ast.Eq, ast.NotEq)) \
                    and (is_phase(t.left) != is_phase(t.comparators[0])):
                return scen['eq'] if isinstance(t.ops[0], ast.Eq) else not scen['eq']
            if isinstance(t, ast.Call) and isinstance(t.func, ast.Attribute) and t.func.attr == 'in_equilibrium' and [src(a) for a in t.args] == ['self.TP']:
                return scen['tp']
            return None

        n_hit = n_miss = 0
        bad = {}
        for p in ps:
            if p.raised:
                continue
            evals = [e for e in p.events if e.kind == 'call' and any(isinstance(a, ast.Starred) and src(a.value) == 'self.TP' for a in e.node.args)]
            conds = []
            for e in p.events:
                if e.kind == 'cond' and isinstance(e.stmt, ast.If):
                    conds.append((resolved(e.stmt.test, path_defs(p, e), keep=set(f.params)), e.value))
            if p.ret is None:
                bad['paths'] = 'unexpected control flow'
                continue
            if evals:
                n_miss += 1
                st = [e for e in p.events if e.kind == 'store' and e.target.startswith('self.cache[') and e.extra and len(e.extra) == 3]
                if not st or st[-1].extra[0].pretty() != 'self.TP.copy()':
                    bad['stale-V'] = 'molar volume is not re-evaluated (or the live TP object is cached) when T or P changed'
                    continue
                rec = st[-1].extra
                if not ('self.phase' in rec[1].pretty() and 'phase_container' in rec[1].pretty()):
                    bad['stale-V-phase'] = 'the cached molar volume depends on the phase, but the cached entry does not record the phase it was computed for'
                want = Form.atom(vp) * rec[2] if nm == 'output' else Form.atom(vp) * rec[2].inv() if rec[2].inv() is not None else None
                if want is None or p.ret != want:
                    bad['form'] = 'the value returned on a miss is not value %s the volume that was just recorded' % ('*' if nm == 'output' else '/')
            else:
                n_hit += 1
                for scen, tag, why in (({'eq': True, 'tp': False}, 'stale-V', 'molar volume is not re-evaluated (or the live TP object is cached) when T or P changed'),
                                       ({'eq': False, 'tp': True}, 'stale-V-phase', 'the cached molar volume depends on the phase, but the validity test / cached entry '
                                        'does not cover it: after a phase change at the same T and P the volume of the old phase is reported')):
                    excluded = any(v is not None and v != taken for v, taken in ((ev(t, scen), taken) for t, taken in conds))
                    if not excluded:
                        bad[tag] = why
        if not n_miss:
            d4.fail(cons, 'anchor', 'molar volume evaluation V(*self.TP) not found', f, f.node)
            continue
        if not n_hit:
            bad.setdefault('paths', 'unexpected control flow')
        if 'stale-V' not in bad:
            d4.ok(cons, 'V is re-evaluated when the cached T,P differ; the entry caches a copy of TP', f)
        if 'stale-V-phase' not in bad:
            d4.ok(cons, 'the entry records the phase it was computed for and a different current phase invalidates it', f)
        for tag, why in sorted(bad.items()):
            d4.fail(cons, tag, why, f, f.node)
        if 'form' not in bad and 'paths' not in bad:
            d4.ok(cons, 'hit paths use the remembered volume, miss paths the one just recorded (%d + %d paths): value %s V' % (n_hit, n_miss, '*' if nm == 'output' else '/'), f)
