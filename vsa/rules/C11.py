"""C11 -- molar, mass and volumetric views agree (structural clauses)."""
from __future__ import annotations
import ast, re
from ..frontend import AnalysisError, src, walk_no_nested
from ..symx import run_paths
from ..lin import Form, Lin
from ..cfg import CFG
from .. import storage

MANIFEST = {
    'technique': "must-follow / who-may-write rule on every re-binding of a molar indexer's storage (the cached mass/volume views wrap the old dicts); linear-form "
            'inverse-pair checks for the unit and view conversions; totality of the dimension dispatch; sibling-agreement rule link_with/unlink',
    'text': 'Decides for every history: every statement that re-binds the storage a mass/volume view wraps (indexer.data, data.rows) outside constructors is '
            "accompanied on every path by dropping or replacing that indexer's cached views; get_flow/set_flow, get_total_flow/set_total_flow and the "
            'DictionaryView input/output pairs compose to the identity as symbolic forms; the total-flow setters scale the whole molar data by value/current; the '
            'units dispatch ends in DimensionError and takes each factor from the units object of the matching dimension; the volumetric view recomputes V when its '
            'cached thermal condition differs and caches a copy; unlink re-binds everything link_with can share, the view cache included. Numerical conversion '
            'factors (pint) are not decided.',
}

ST = 'thermosteam/_stream.py'
MS = 'thermosteam/_multi_stream.py'
IX = 'thermosteam/indexer.py'
DV = 'thermosteam/base/dictionary_view.py'


def run(ctx):
    prog = ctx.prog
    ctx.decided = [
        'D1 re-binding of view-wrapped storage is accompanied by dropping/replacing the cached mass/volume views',
        'D2 inverse pairs: get/set flow, get/set total flow, DictionaryView output/input, total-flow setters scale the whole data',
        'D3 dimension dispatch ends in DimensionError; each factor from the units object of its own dimension',
        'D4 VolumetricFlowDict recomputes V when the cached thermal condition differs and caches a copy of TP',
        'D5 unlink re-binds everything link_with can share, including the view cache (a shared cache hands one stream the views of the other)',
    ]
    ctx.not_decided = ['numerical conversion factors', 'molar volume model values']
    d1 = ctx.rule('D1', 'views follow the storage', floor=6)
    d2 = ctx.rule('D2', 'inverse pairs (D-lin)', floor=8)
    d3 = ctx.rule('D3', 'dimension guard', floor=4)
    d4 = ctx.rule('D4', 'volumetric view re-evaluation', floor=2)
    view_coherence(ctx, d1)
    inverse_pairs(ctx, d2)
    dimension(ctx, d3)
    volumetric(ctx, d4)
    d5 = ctx.rule('D5', 'after unlink the mass/volume view cache is the stream\'s own', floor=4)
    from .C13 import unlink_rule
    unlink_rule(ctx, d5)


def _cache_drop_pred(recv):
    """a node that drops / replaces recv._data_cache"""
    def pred(x):
        if isinstance(x, ast.Call) and isinstance(x.func, ast.Attribute) and x.func.attr == 'clear' \
                and src(x.func.value) == recv + '._data_cache':
            return True
        if isinstance(x, ast.Attribute) and isinstance(x.ctx, ast.Store) and x.attr == '_data_cache' and src(x.value) == recv:
            return True
        return False
    return pred


def view_coherence(ctx, d1):
    prog = ctx.prog
    # the views wrap data.dct / row.dct  (anchor of the rule)
    n_views = 0
    for f in prog.module(IX).functions.values():
        pass
    n_views = 0
    for n in ast.walk(prog.module(IX).tree):
        if isinstance(n, ast.Call) and src(n.func) in ('MassFlowDict', 'VolumetricFlowDict') and n.args \
                and isinstance(n.args[0], ast.Attribute) and n.args[0].attr == 'dct':
            n_views += 1
    ctx.anchor(n_views >= 4, 'by_mass/by_volume no longer wrap the molar dicts (found %d view constructions)' % n_views)
    for rel in (IX, ST, MS):
        for f in prog.all_functions():
            if f.module.rel != rel:
                continue
            fresh = storage.fresh_names(f.node)
            amap = storage.alias_map(f.node)
            sites = []
            for n in walk_no_nested(f.node):
                if isinstance(n, ast.Attribute) and isinstance(n.ctx, ast.Store) and n.attr in ('data', 'rows'):
                    if isinstance(getattr(n, '_parent', None), ast.AugAssign):
                        continue     # in-place operator of the sparse classes (returns self: same storage)
                    sites.append(n)
            if not sites:
                continue
            cfg = dom = None
            for n in sites:
                recv = src(n.value)
                root = recv.split('.')[0]
                st = storage.stmt_of(n)
                cons = f.qualname
                if n.attr == 'rows':
                    # data.rows = ... : the owner indexer is the object whose .data this is
                    owner = storage.resolve(recv, amap)
                    if not owner.endswith('.data'):
                        if f.cls is not None and f.cls.name in ('SparseArray',):
                            continue
                        if f.module.rel != IX:
                            continue
                    owner = owner[:-len('.data')] if owner.endswith('.data') else recv
                    if f.cls is not None and f.cls.name == 'SparseArray':
                        continue
                    recv_for_cache = owner
                else:
                    if f.cls is None:
                        continue
                    is_indexer = rel == IX and (recv == 'self' or recv in fresh) and any(
                        k.name in ('ChemicalIndexer', 'MaterialIndexer') for k in f.cls.mro())
                    is_stream_imol = rel in (ST, MS) and (storage.resolve(recv, amap).endswith('._imol') or recv.endswith('_imol'))
                    if not (is_indexer or is_stream_imol):
                        continue
                    if f.cls.name in ('StreamData', 'TemporaryPhase', 'TemporaryStream') or f.cls.name.startswith('Temporary'):
                        continue
                    recv_for_cache = recv
                if root in fresh or (root == 'self' and storage.is_ctor(f)):
                    d1.ok(cons, '%s.%s bound on a freshly built object (no views can exist yet)' % (recv, n.attr), f, st)
                    continue
                if storage.resolve(recv, amap).split('.')[0] in fresh:
                    d1.ok(cons, '%s.%s bound on a freshly built object' % (recv, n.attr), f, st)
                    continue
                # mass/volume indexers (views themselves) have no cached views of their own
                if f.cls is not None and rel == IX and not _is_molar(prog, f.cls):
                    pass
                if cfg is None:
                    cfg = CFG(f.node)
                    dom = cfg.dominators()
                node = cfg.node_of(st)
                where, wit = storage.holds_around(cfg, dom, node, _cache_drop_pred(recv_for_cache))
                if where is None and recv_for_cache != recv:
                    where, wit = storage.holds_around(cfg, dom, node, _cache_drop_pred(recv))
                if where is None:
                    # a call on the same receiver that (transitively) drops the cache, e.g. self._set_cache() does not; reset_chemicals does
                    pass
                if where:
                    d1.ok(cons, '%s.%s re-bound; %s._data_cache dropped/replaced (%s)' % (recv, n.attr, recv_for_cache, where), f, st)
                else:
                    d1.fail(cons, 'views-kept-%s' % n.attr,
                            '%s.%s is re-bound but the cached mass/volume views of %s (which wrap the old dicts) are kept'
                            % (recv, n.attr, recv_for_cache), f, st)


def _is_molar(prog, c):
    return True


def inverse_pairs(ctx, d2):
    prog = ctx.prog
    S = prog.cls('Stream', ST)
    g = S.methods['get_flow']
    s = S.methods['set_flow']
    pg, _ = run_paths(g.node)
    ps, _ = run_paths(s.node)
    call = "(self._get_flow_name_and_factor(units))"
    name, factor = Form.atom(call + '[0]'), Form.atom(call + '[1]')
    okg = len(pg) == 1 and pg[0].ret is not None and pg[0].ret.coeff(call + '[1]', "getattr(self, 'i'*(%s)[0])[key]" % call[0:]) == 1
    # robust formulation: ret == factor * <indexer>[key]; store == data / factor into the same indexer[key]
    r = pg[0].ret
    ind = [a for a in r.atoms() if a.startswith('getattr(self,')]
    okg = len(ind) == 1 and r == factor * Form.atom(ind[0]) and ind[0].endswith('[key]')
    st = [e for e in ps[0].events if e.kind == 'store']
    oks = len(ps) == 1 and len(st) == 1 and st[0].target == ind[0] if ind else False
    if oks:
        v = st[0].value
        inv = Form({((call + '[1]', -1),): 1})
        data_atoms = [a for a in v.atoms() if a.startswith('np.asarray(')]
        oks = len(data_atoms) == 1 and v == Form.atom(data_atoms[0]) * inv
    if okg and oks:
        d2.ok('Stream.get_flow/set_flow', 'get = factor * indexer[key]; set stores data / factor into the same indexer[key] (inverse pair)', g)
    else:
        d2.fail('Stream.get_flow/set_flow', 'not-inverse', 'get_flow and set_flow are not factor*x and x/factor on the same indexer', s, s.node)
    g = S.methods['get_total_flow']
    s = S.methods['set_total_flow']
    pg, _ = run_paths(g.node)
    ps, _ = run_paths(s.node)
    r = pg[0].ret
    tot = [a for a in r.atoms() if a.startswith('getattr(self,')]
    okg = len(tot) == 1 and r == factor * Form.atom(tot[0])
    c = [e for e in ps[0].events if e.kind == 'call' and e.target == 'setattr']
    oks = len(c) == 1 and len(c[0].value) == 3 and c[0].value[2] == Form.atom('value') * Form({((call + '[1]', -1),): 1}) \
        and tot and c[0].value[1].pretty() in tot[0]
    if okg and oks:
        d2.ok('Stream.get_total_flow/set_total_flow', 'get = factor * F_name; set assigns value / factor to the same F_name', g)
    else:
        d2.fail('Stream.get_total_flow/set_total_flow', 'not-inverse', 'total-flow getter and setter are not inverse', s, s.node)
    # F_* setters scale the whole molar data by value/current
    for nm in ('F_mol', 'F_mass', 'F_vol'):
        f = S.setters[nm]
        ps, _ = run_paths(f.node)
        okk = False
        n = 0
        for p in ps:
            if p.raised:
                continue
            aug = [e for e in p.events if e.kind == 'augstore']
            if not aug:
                continue
            n += 1
            e = aug[0]
            want = Form.atom('value') * Form({(('self.' + nm, -1),): 1})
            okk = len(aug) == 1 and e.op == 'Mult' and e.target in ('self._imol.data', 'self.imol.data') and e.value == want
            if not okk:
                break
        if okk and n:
            d2.ok('Stream.%s.setter' % nm, 'whole molar data *= value / current %s (composition unchanged)' % nm, f)
        else:
            d2.fail('Stream.%s.setter' % nm, 'scale-form', 'setter does not scale the whole molar data by value/current', f, f.node)
    # DictionaryView: output/input inverse; __getitem__/__setitem__ go through them
    for cname in ('MassFlowDict', 'VolumetricFlowDict'):
        c = prog.cls(cname, DV)
        o, i = c.methods['output'], c.methods['input']
        po, _ = run_paths(o.node)
        pi, _ = run_paths(i.node)
        okk = True
        for p in po:
            for q in pi:
                if p.ret is None or q.ret is None:
                    okk = False
                    continue
                fo = p.ret * Form({(('value', -1),): 1})
                fi = q.ret * Form({(('value', -1),): 1})
                # same branch choice <=> same conds; compare factor forms when the branch histories agree
                if [t for _, t in p.conds] == [t for _, t in q.conds]:
                    if not (fo * fi == Form.const(1)):
                        okk = False
        if okk:
            d2.ok(cname, 'input(output(x)) == x : factors are reciprocal on every branch', o)
        else:
            d2.fail(cname, 'not-inverse', 'output and input factors are not reciprocal', i, i.node)
    dvc = prog.cls('DictionaryView', DV)
    gi, si = dvc.methods['__getitem__'], dvc.methods['__setitem__']
    pg, _ = run_paths(gi.node)
    ps, _ = run_paths(si.node)
    okg = pg[0].ret == Form.atom('self.output(key, self.dct[key])')
    st = [e for e in ps[0].events if e.kind == 'store']
    oks = len(st) == 1 and st[0].target == 'self.dct[key]' and 'self.input(key, value)' in st[0].value.pretty() and '__float__' in st[0].value.pretty()
    if okg and oks:
        d2.ok('DictionaryView', 'reads go through output(), writes through input() on the wrapped molar dict', gi)
    else:
        d2.fail('DictionaryView', 'bypass', 'item access bypasses output()/input()', gi, gi.node)
    # every value-returning accessor converts
    for nm in ('items', 'values', 'get', 'pop', 'popitem', 'copy'):
        f = dvc.methods[nm]
        t = ' '.join(ast.unparse(f.node).split())
        if 'self.output(' in t:
            d2.ok('DictionaryView.' + nm, 'values handed out are converted with output()', f)
        else:
            d2.fail('DictionaryView.' + nm, 'raw-values', '%s hands out unconverted molar values' % nm, f, f.node)


def _unroll_literal_for(loop, fn):
    """for <targets> in <literal tuple of tuples>: if <test>: <body>; break  [else: <orelse>]   ->   the equivalent if/elif chain (as an AST)"""
    import copy as _copy
    it = loop.iter
    if isinstance(it, ast.Name):
        defs = [n for n in walk_no_nested(fn) if isinstance(n, ast.Assign) and len(n.targets) == 1 and isinstance(n.targets[0], ast.Name) and n.targets[0].id == it.id]
        it = defs[0].value if len(defs) == 1 else None
    if not isinstance(it, (ast.Tuple, ast.List)) or not it.elts:
        return None
    tg = loop.target.elts if isinstance(loop.target, ast.Tuple) else [loop.target]
    if not all(isinstance(t, ast.Name) for t in tg):
        return None
    if len(loop.body) != 1 or not isinstance(loop.body[0], ast.If) or loop.body[0].orelse or not isinstance(loop.body[0].body[-1], ast.Break):
        return None
    inner = loop.body[0]
    chain = None
    last = None
    for el in it.elts:
        vals = el.elts if isinstance(el, (ast.Tuple, ast.List)) else [el]
        if len(vals) != len(tg):
            return None
        sub = {t.id: v for t, v in zip(tg, vals)}

        class R(ast.NodeTransformer):
            def visit_Name(self, nd):
                if isinstance(nd.ctx, ast.Load) and nd.id in sub:
                    return _copy.deepcopy(sub[nd.id])
                return nd
        test = R().visit(_copy.deepcopy(inner.test))
        body = [R().visit(_copy.deepcopy(b)) for b in inner.body[:-1]]
        # the loop targets stay bound to this element after the break
        body = [ast.Assign(targets=[ast.Name(id=t.id, ctx=ast.Store())], value=_copy.deepcopy(v)) for t, v in zip(tg, vals)] + body
        node = ast.If(test=test, body=body or [ast.Pass()], orelse=[])
        if chain is None:
            chain = node
        else:
            last.orelse = [node]
        last = node
    last.orelse = [_copy.deepcopy(x) for x in loop.orelse]
    ast.fix_missing_locations(chain)
    for x in ast.walk(chain):
        if not hasattr(x, 'lineno'):
            x.lineno = loop.lineno
    return chain


def dimension(ctx, d3):
    prog = ctx.prog
    f = prog.method('Stream', '_get_flow_name_and_factor', rel=ST)
    up = f.params[1]
    dims = {t.id for n in walk_no_nested(f.node) if isinstance(n, ast.Assign) and 'get_dimensionality(%s)' % up in src(n.value)
            for t in n.targets if isinstance(t, ast.Name)}
    chain = None
    for n in walk_no_nested(f.node):
        if isinstance(n, ast.If) and isinstance(n.test, ast.Compare) and src(n.test.left) in dims and isinstance(n.test.ops[0], ast.Eq) \
                and not isinstance(getattr(n, '_parent', None), ast.For):
            chain = n
            break
    if chain is None:
        # the same dispatch written as a loop over a literal table:  for name, U in ((..., ...), ...): if dim == U.dimensionality: ...; break / else: raise
        for n in walk_no_nested(f.node):
            if isinstance(n, ast.For):
                chain = _unroll_literal_for(n, f.node)
                if chain is not None:
                    break
    if chain is None:
        raise AnalysisError('dimension dispatch not found')
    rets = [r for r in walk_no_nested(f.node) if isinstance(r, ast.Return) and isinstance(r.value, ast.Tuple) and len(r.value.elts) == 2]
    if not rets:
        raise AnalysisError('_get_flow_name_and_factor: (name, factor) return not found')
    name_v, factor_v = (src(e) for e in rets[0].value.elts)
    cur = chain
    n = 0
    while True:
        m = re.match(r'^(\w+)_units\.dimensionality$', src(cur.test.comparators[0])) if isinstance(cur.test, ast.Compare) and src(cur.test.left) in dims else None
        if not m:
            d3.fail('Stream._get_flow_name_and_factor', 'test-shape', 'unexpected dimension test %s' % src(cur.test), f, cur)
            break
        k = m.group(1)
        body = {src(s.targets[0]): src(s.value) for s in cur.body if isinstance(s, ast.Assign)}
        if body.get(name_v) == repr(k) and body.get(factor_v) == '%s_units.conversion_factor(%s)' % (k, up):
            d3.ok('Stream._get_flow_name_and_factor[%s]' % k, 'name %r with the factor of %s_units' % (k, k), f, cur)
        else:
            d3.fail('Stream._get_flow_name_and_factor[%s]' % k, 'factor-mismatch', 'dimension %s yields %s' % (k, sorted(body.values())), f, cur)
        n += 1
        if len(cur.orelse) == 1 and isinstance(cur.orelse[0], ast.If):
            cur = cur.orelse[0]
            continue
        if cur.orelse and isinstance(cur.orelse[0], ast.Raise) and 'DimensionError' in src(cur.orelse[0]):
            d3.ok('Stream._get_flow_name_and_factor', 'any other dimensionality raises DimensionError', f, cur.orelse[0])
        else:
            d3.fail('Stream._get_flow_name_and_factor', 'no-dimension-error', 'units of another dimension are not rejected', f, cur)
        break
    if n != 3:
        d3.fail('Stream._get_flow_name_and_factor', 'dimensions', 'expected molar, mass and volumetric branches, found %d' % n, f, chain)


def volumetric(ctx, d4):
    """The cached molar volume depends on (chemical, phase, T, P): the validity test must cover phase and TP,
    and the entry must record a copy of TP and the phase it was computed for."""
    prog = ctx.prog
    c = prog.cls('VolumetricFlowDict', DV)
    for nm in ('output', 'input'):
        f = c.methods[nm]
        ps, _ = run_paths(f.node)
        cons = 'VolumetricFlowDict.' + nm
        # inputs of the recomputation
        def tp_calls(fn_):
            return [n for n in walk_no_nested(fn_.node) if isinstance(n, ast.Call) and any(isinstance(a, ast.Starred) and src(a.value) == 'self.TP' for a in n.args)]
        calls = tp_calls(f)
        if not calls:
            # the cached molar volume may live in a private helper shared by output and input
            for n in walk_no_nested(f.node):
                if isinstance(n, ast.Call) and isinstance(n.func, ast.Attribute) and src(n.func.value) == 'self' and n.func.attr in c.methods \
                        and tp_calls(c.methods[n.func.attr]):
                    f = c.methods[n.func.attr]
                    ps, _ = run_paths(f.node)
                    calls = tp_calls(f)
                    break
        if not calls:
            d4.fail(cons, 'anchor', 'molar volume evaluation V(*self.TP) not found', f, f.node)
            continue
        guards = [n for n in walk_no_nested(f.node) if isinstance(n, ast.If) and any(x is calls[0] for b in n.body for x in ast.walk(b))]
        if not guards:
            d4.fail(cons, 'stale-V', 'the molar volume is not re-evaluated under a validity test', f, f.node)
            continue
        g = guards[0]
        lin_names = {}
        for n in walk_no_nested(f.node):
            if isinstance(n, ast.Assign) and len(n.targets) == 1 and isinstance(n.targets[0], ast.Name):
                lin_names[n.targets[0].id] = src(n.value)
        test = src(g.test)
        tp_ok = 'in_equilibrium(self.TP)' in test and test.count('not') >= 1
        # phase: the test compares the current phase with the one stored in the entry
        phase_names = [k for k, v in lin_names.items() if 'self.phase' in v and 'phase_container' in v]
        ph_ok = any(re.search(r'\b%s\b\s*!=' % re.escape(k), test) or re.search(r'!=\s*\b%s\b' % re.escape(k), test) for k in phase_names)
        stores = [n for n in ast.walk(g) if isinstance(n, ast.Assign) and isinstance(n.targets[0], ast.Subscript) and src(n.targets[0].value) == 'self.cache']
        copy_ok = bool(stores) and isinstance(stores[0].value, ast.Tuple) and src(stores[0].value.elts[0]) == 'self.TP.copy()'
        rec_phase = bool(stores) and isinstance(stores[0].value, ast.Tuple) and any(src(e) in phase_names for e in stores[0].value.elts)
        if tp_ok and copy_ok:
            d4.ok(cons, 'V is re-evaluated when the cached T,P differ; the entry caches a copy of TP', f, g)
        else:
            d4.fail(cons, 'stale-V', 'molar volume is not re-evaluated (or the live TP object is cached) when T or P changed', f, g)
        if ph_ok and rec_phase:
            d4.ok(cons, 'the entry records the phase it was computed for and a different current phase invalidates it', f, g)
        else:
            d4.fail(cons, 'stale-V-phase', 'the cached molar volume depends on the phase, but the validity test / cached entry does not cover it: '
                    'after a phase change at the same T and P the volume of the old phase is reported', f, g)
        # on a hit the stored V is used, on a miss the recomputed one: value (*|/) V
        okk = all(p.ret is not None for p in ps) and len(ps) == 2
        if not okk:
            d4.fail(cons, 'paths', 'unexpected control flow', f, f.node)
