"""C14 -- no stale derived property (structural clauses of the property memo)."""
from __future__ import annotations
import ast, re
from ..frontend import AnalysisError, src, walk_no_nested
from ..symx import run_paths
from ..lin import Form
from ..cfg import CFG
from .. import storage
from ..pathcond import implied

MANIFEST = {
    'technique': 'def-use rule tying every argument of the mixture call to a component of the validity key read in the same invocation; typestate rule "memo and key are '
            'one unit" (no function may make two objects share the memo dict); must-follow rule reset_cache after a property-package change; load/try/finally-clear '
            'rule for solver scratch state on the shared mixture object',
    'text': 'Decides for every history: in both _get_property implementations everything passed to the mixture model (phase(s), composition, T, P) is derived from '
            'a component of the validity key read in that invocation, a hit requires both key parts to match and a miss clears the memo and stores a copy of the '
            'composition key; no function makes two stream objects share _property_cache (the key is re-bound on every miss, so a shared dict with private keys '
            'returns stale values); every assignment of a property package outside constructors is followed by reset_cache(); free-energy arguments loaded into the '
            '(package-wide) mixture object for a temperature solve are cleared by a finally clause on every exit. Equality with a freshly created stream '
            'additionally needs model determinism and is not decided.',
}

ST = 'thermosteam/_stream.py'
MS = 'thermosteam/_multi_stream.py'


def run(ctx):
    prog = ctx.prog
    ctx.decided = [
        'D1 the validity key covers every input of the mixture call; hit needs both parts equal; miss clears and re-keys with a copy',
        'D2 the memo dict is never shared between objects (memo and key are one unit)',
        'D3 a change of property package is followed by reset_cache()',
        'D4 free-energy arguments loaded into the shared mixture object for a T solve are cleared by a finally clause on every exit',
    ]
    ctx.not_decided = ['equality with a freshly created stream (needs model determinism)', 'interleavings of reads and mutations at run time']
    d1 = ctx.rule('D1', 'key covers inputs', floor=8)
    d2 = ctx.rule('D2', 'memo never shared', floor=4)
    d3 = ctx.rule('D3', 'reset_cache after thermo change', floor=1)
    for cname, rel in (('Stream', ST), ('MultiStream', MS)):
        key_rule(ctx, d1, prog.method(cname, '_get_property', rel=rel), cname)
    share_rule(ctx, d2)
    thermo_rule(ctx, d3)
    # the mixture object is shared by every stream of the package: arguments loaded into it for a temperature solve and not
    # released make every later H/S read (of any stream) use a stale composition / pressure
    d4 = ctx.rule('D4', 'solver scratch state on the shared mixture object is released on every exit', floor=4)
    from .C02 import scratch
    scratch(ctx, d4)


def key_rule(ctx, d1, f, cname):
    cons = '%s._get_property' % cname
    fnode = ctx.prog.normal_form(f)       # helpers inlined, conditional expressions as statements
    ps, _ = run_paths(fnode, max_paths=4000)
    multi = cname == 'MultiStream'
    # --- roles of the locals, discovered from the structure
    unp = [n for n in walk_no_nested(fnode) if isinstance(n, ast.Assign) and src(n.value) == 'self._property_cache_key'
           and isinstance(n.targets[0], ast.Tuple) and len(n.targets[0].elts) == 2]
    if not unp:
        d1.fail(cons, 'key-source', 'the previous key is not read from self._property_cache_key', f, f.node)
        return
    LAST_LIT, LAST_COMP = (e.id for e in unp[0].targets[0].elts)
    pairs = {}
    for n in walk_no_nested(fnode):
        if isinstance(n, ast.Compare) and len(n.ops) == 1 and isinstance(n.ops[0], (ast.Eq, ast.NotEq)) and isinstance(n.left, ast.Name) \
                and isinstance(n.comparators[0], ast.Name):
            a, b = n.left.id, n.comparators[0].id
            if b in (LAST_LIT, LAST_COMP):
                pairs[b] = a
            elif a in (LAST_LIT, LAST_COMP):
                pairs[a] = b
    LIT, COMPKEY = pairs.get(LAST_LIT), pairs.get(LAST_COMP)
    if LIT is None or COMPKEY is None:
        d1.fail(cons, 'hit-test', 'the hit test does not compare both parts of the remembered key', f, f.node)
        return
    memo_names = {t.id for n in walk_no_nested(fnode) if isinstance(n, ast.Assign) and src(n.value) == 'self._property_cache'
                  for t in n.targets if isinstance(t, ast.Name)} | {'self._property_cache'}

    def ev(t, scen):
        """three-valued value of a test when literal / composition parts (do not) match and the name is (not) in the memo"""
        if isinstance(t, ast.UnaryOp) and isinstance(t.op, ast.Not):
            v = ev(t.operand, scen)
            return None if v is None else not v
        if isinstance(t, ast.BoolOp):
            vs = [ev(v, scen) for v in t.values]
            if isinstance(t.op, ast.And):
                return False if any(v is False for v in vs) else (True if all(v is True for v in vs) else None)
            return True if any(v is True for v in vs) else (False if all(v is False for v in vs) else None)
        if isinstance(t, ast.Compare) and len(t.ops) == 1:
            a, b, op = src(t.left), src(t.comparators[0]), t.ops[0]
            if isinstance(op, (ast.Eq, ast.NotEq)):
                which = 'lit' if {a, b} == {LIT, LAST_LIT} else 'comp' if {a, b} == {COMPKEY, LAST_COMP} else None
                if which and scen.get(which) is not None:
                    return scen[which] if isinstance(op, ast.Eq) else not scen[which]
            if isinstance(op, (ast.In, ast.NotIn)) and a == f.params[1] and b in memo_names and scen.get('in') is not None:
                return scen['in'] if isinstance(op, ast.In) else not scen['in']
        return None

    def excluded(p, scen):
        return any(v is not None and v != taken for v, taken in ((ev(t, scen), taken) for t, taken in p.conds if not isinstance(t, str)))

    def mentions_key(p):
        return any(isinstance(x, ast.Name) and x.id in (LAST_LIT, LAST_COMP) for t, taken in p.conds if not isinstance(t, str) for x in ast.walk(t))

    hit_bad = clear_bad = None
    n_hit = 0
    for p in ps:
        if p.raised or p.ret is None or not mentions_key(p):
            continue
        is_miss = any(e.kind == 'call' and e.target.startswith('getattr(self.mixture') for e in p.events)
        if not is_miss:
            n_hit += 1
            for scen in ({'lit': False, 'comp': True, 'in': True}, {'lit': True, 'comp': False, 'in': True}, {'lit': True, 'comp': True, 'in': False}):
                if not excluded(p, scen):
                    hit_bad = scen
        else:
            mismatch_possible = not excluded(p, {'lit': False, 'comp': True}) or not excluded(p, {'lit': True, 'comp': False})
            cleared = any(e.kind == 'call' and e.target in ('self._property_cache.clear',) + tuple(m + '.clear' for m in memo_names) for e in p.events)
            if mismatch_possible and not cleared:
                clear_bad = p
    hit = unp[0]
    if not n_hit:
        d1.fail(cons, 'hit-test', 'the hit test does not compare both parts of the remembered key', f, f.node)
        return
    if hit_bad is None and clear_bad is None:
        d1.ok(cons, 'hit requires literal AND composition to match and the name to be cached; any mismatch clears the memo', f, hit)
    elif hit_bad is not None and (hit_bad.get('lit') is False or hit_bad.get('comp') is False):
        d1.fail(cons, 'hit-test', 'the hit test does not compare both parts of the remembered key', f, f.node)
        return
    else:
        d1.fail(cons, 'hit-test', 'a key mismatch does not clear the memo (or a hit does not require the name to be cached)', f, hit)
    n_miss = 0
    for p in ps:
        if p.raised or p.ret is None:
            continue
        nophase = implied(p.conds, lambda e: src(e) == 'nophase')
        calls = [e for e in p.events if e.kind == 'call' and e.target.startswith('getattr(self.mixture')]
        if not calls:
            continue
        n_miss += 1
        c = calls[-1]
        env = p.lin.env
        lit = p.tup.get(LIT) or []
        lit_txt = [x.pretty() for x in lit]
        tag = 'nophase' if nophase else 'phase'
        tc_ok = 'self._thermal_condition._T' in lit_txt and 'self._thermal_condition._P' in lit_txt
        star = [a for a in c.node.args if isinstance(a, ast.Starred) and not (isinstance(a.value, ast.Name) and a.value.id in p.tup)]
        def _resolved(x):
            try:
                return p.lin.form(x).pretty()
            except Exception:
                return src(x)
        # (a local alias of the thermal condition is as good as the attribute itself)
        tc_arg_ok = len(star) == 1 and _resolved(star[0].value) in ('self._thermal_condition', 'self.thermal_condition')
        if tc_ok and tc_arg_ok:
            d1.ok(cons + '[%s]' % tag, 'T and P of the key are those of the thermal condition passed to the model', f, c.stmt)
        else:
            d1.fail(cons + '[%s]' % tag, 'TP-not-in-key', 'the model is evaluated at a thermal condition that is not part of the validity key (%s)' % lit_txt, f, c.stmt)
        if not nophase:
            if multi:
                ph_ok = "self._imol._phases" in lit_txt and any('self._imol._phases' in a.pretty() for a in c.value)
            else:
                ph_ok = 'self._imol._phase._phase' in lit_txt and c.value and c.value[0].pretty() == 'self._imol._phase._phase'
            if ph_ok:
                d1.ok(cons + '[%s]' % tag, 'the phase(s) passed to the model are the phase component of the key', f, c.stmt)
            else:
                d1.fail(cons + '[%s]' % tag, 'phase-not-in-key', 'the phase passed to the model is not the one recorded in the key', f, c.stmt)
        # composition: the key is derived from the very composition object that is passed to the model
        ckdef = [n for n in walk_no_nested(fnode) if isinstance(n, ast.Assign) and src(n.targets[0]) == COMPKEY]
        comp_names = {x.id for n in ckdef for x in ast.walk(n.value) if isinstance(x, ast.Name)}
        comp_forms = [env[k] for k in comp_names if k in env and env[k].pretty().startswith('self._imol.data*')]
        comp_txt = comp_forms[0].pretty() if comp_forms else ''
        passed = any(comp_txt and comp_txt in a.pretty() for a in c.value)
        if passed and comp_txt:
            d1.ok(cons + '[%s]' % tag, 'the composition passed to the model is the one the key is derived from (data/total)', f, c.stmt)
        else:
            d1.fail(cons + '[%s]' % tag, 'composition-not-in-key', 'the composition passed to the model is not the one recorded in the key', f, c.stmt)
        st = [e for e in p.events if e.kind == 'store' and e.target == 'self._property_cache_key']
        copied = st and isinstance(st[-1].stmt.value, ast.Tuple) and 'copy()' in src(st[-1].stmt.value.elts[1]) \
            and src(st[-1].stmt.value.elts[0]) == LIT and COMPKEY in {x.id for x in ast.walk(st[-1].stmt.value.elts[1]) if isinstance(x, ast.Name)}
        if copied:
            d1.ok(cons + '[%s]' % tag, 'a miss stores (literal, copy of the composition key)', f, st[-1].stmt)
        else:
            d1.fail(cons + '[%s]' % tag, 'key-not-copied', 'the stored key aliases live data or omits the literal', f, f.node)
    if n_miss < 2:
        raise AnalysisError('%s: miss paths not found' % cons)
    d1.ok(cons, 'last key is read from self._property_cache_key', f, unp[0])
    for nm in (LAST_LIT, LAST_COMP):
        defs = [x for x in walk_no_nested(fnode) if isinstance(x, ast.Name) and x.id == nm and isinstance(x.ctx, ast.Store)]
        if len(defs) == 1:
            d1.ok(cons, 'a remembered key part is compared exactly as stored (single definition)', f, unp[0])
        else:
            from ..storage import stmt_of
            others = [stmt_of(d) for d in defs if stmt_of(d) is not unp[0]]
            st = others[0] if others else stmt_of(defs[0])
            d1.fail(cons, 'remembered-key-rewritten', 'a remembered key part is re-computed (%s) before the hit test: the comparison no longer '
                    'tests the state the cached values were computed for' % src(st), f, st)


def share_rule(ctx, d2):
    prog = ctx.prog
    n = 0
    for f in prog.all_functions():
        for node in walk_no_nested(f.node):
            if isinstance(node, ast.Attribute) and isinstance(node.ctx, ast.Store) and node.attr == '_property_cache':
                st = storage.stmt_of(node)
                v = st.value if isinstance(st, ast.Assign) else None
                n += 1
                if isinstance(v, ast.Dict) and not v.keys:
                    d2.ok(f.qualname, '%s gets a fresh memo dict' % src(node), f, st)
                elif v is not None and '_property_cache' in src(v):
                    d2.fail(f.qualname, 'memo-shared', '%s shares the memo dict of another object (%s) while each object re-binds its own key: '
                            'values cached under the other object\'s key are returned as current' % (src(node), src(v)), f, st)
                else:
                    d2.fail(f.qualname, 'memo-unknown', 'memo bound to %s' % (src(v) if v is not None else '?'), f, st)
            if isinstance(node, ast.Attribute) and isinstance(node.ctx, ast.Store) and node.attr == '_property_cache_key':
                st = storage.stmt_of(node)
                v = st.value if isinstance(st, ast.Assign) else None
                if v is not None and '_property_cache_key' in src(v) and src(node.value) != 'self':
                    d2.fail(f.qualname, 'key-copied', '%s copies another object\'s validity key' % src(node), f, st)
    # builders of new stream objects give them a memo through reset_cache
    for name in ('copy', 'flow_proxy', 'proxy'):
        f = prog.method('Stream', name, rel=ST)
        ps, _ = run_paths(f.node)
        okk = all(any(e.kind == 'call' and e.target.endswith('.reset_cache') and e.target != 'self.reset_cache' for e in p.events) for p in ps)
        if okk:
            d2.ok('Stream.' + name, 'the new object gets its own memo and key through reset_cache()', f)
        else:
            d2.fail('Stream.' + name, 'no-own-memo', 'the new object is not given its own memo/key', f, f.node)
    rc = prog.method('Stream', 'reset_cache', rel=ST)
    ps, _ = run_paths(rc.node)
    st = {e.target: e for e in ps[0].events if e.kind == 'store'}
    k = st.get('self._property_cache_key')
    if k is not None and 'self._property_cache' in st and src(k.stmt.value).replace(' ', '') in ('None,None', '(None,None)'):
        d2.ok('Stream.reset_cache', 'memo and key are reset together', rc)
    else:
        d2.fail('Stream.reset_cache', 'partial-reset', 'reset_cache does not reset memo and key together', rc, rc.node)


def thermo_rule(ctx, d3):
    prog = ctx.prog
    for cname, rel in (('Stream', ST), ('MultiStream', MS)):
        c = prog.cls(cname, rel)
        for f in list(c.methods.values()) + list(c.setters.values()):
            if f.cls is not c or storage.is_ctor(f):
                continue
            fresh = storage.fresh_names(f.node)
            for node in walk_no_nested(f.node):
                if isinstance(node, ast.Attribute) and isinstance(node.ctx, ast.Store) and node.attr == '_thermo':
                    recv = src(node.value)
                    if recv in fresh or recv != 'self':
                        continue
                    cfg = CFG(f.node)
                    st = storage.stmt_of(node)
                    okk, wit = cfg.must_pass(cfg.node_of(st), lambda nd: storage.node_has(
                        nd, lambda x: isinstance(x, ast.Call) and src(x.func) == 'self.reset_cache'))
                    if okk:
                        d3.ok(f.qualname, 'self._thermo re-bound; reset_cache() follows on every path', f, st)
                    else:
                        d3.fail(f.qualname, 'no-reset-after-thermo', 'the property package is replaced without resetting the memo', f, st)
