"""C08 -- bubble and dew points (structural clauses)."""
from __future__ import annotations
import ast, re
from ..frontend import AnalysisError, src, walk_no_nested
from ..symx import run_paths
from ..lin import Form, Lin

MANIFEST = {
    'technique': 'homogeneity-degree analysis (D-hom) of the residual functions in the composition vector, must-pass rule "returned composition goes through normalize", quantity-kind rule for the single-component shortcut, key-covers-inputs rule for the instance caches',
    'text': 'Decides for every input: every non-reactive return of solve_Ty/solve_Py/solve_Tx/solve_Px passes the composition through normalize; '
            'the residual 1 - sum(y) (resp. x) is homogeneous of degree 0 in z exactly when every z-derived argument handed to the residual function '
            'has degree 0 (otherwise the result depends on the scale of z); the single-component shortcut returns Tsat for the T-methods and Psat for the '
            'P-methods; the per-class instance cache key contains the chemicals and every attribute of the property package that __new__ reads. '
            'Residual magnitudes, T-P inversion, bubble <= dew and permutation invariance are numerical and not decided.',
}

BP = 'thermosteam/equilibrium/bubble_point.py'
DP = 'thermosteam/equilibrium/dew_point.py'
SOLVERS = [('BubblePoint', BP, 'solve_Ty', 'T'), ('BubblePoint', BP, 'solve_Py', 'P'),
           ('DewPoint', DP, 'solve_Tx', 'T'), ('DewPoint', DP, 'solve_Px', 'P')]


def degree(form, zname='z'):
    """homogeneity degree of a Form in z (z and z.sum() have degree 1); None if mixed"""
    degs = set()
    for k, v in form.t.items():
        d = 0
        for a, e in k:
            if a == zname or a == '%s.sum()' % zname:
                d += e
            elif re.search(r'(?<![A-Za-z0-9_.])%s(?![A-Za-z0-9_])' % zname, a):
                # z inside an opaque atom: np.array(..), self.gamma(z/z.sum(), T) ...
                inner = _inner_degree(a, zname)
                if inner is None:
                    return None
                d += inner * e
        degs.add(d)
    if len(degs) == 1:
        return degs.pop()
    return None


def _inner_degree(atom, zname):
    # an opaque call evaluated at a degree-0 argument is degree 0; anything else is unknown
    m = re.findall(r'%s\*%s\.sum\(\)\*\*-1' % (zname, zname), atom)
    rest = re.sub(r'%s\*%s\.sum\(\)\*\*-1' % (zname, zname), '', atom)
    if re.search(r'(?<![A-Za-z0-9_.])%s(?![A-Za-z0-9_])' % zname, rest):
        return None
    return 0


def run(ctx):
    prog = ctx.prog
    ctx.decided = [
        'D1 returned compositions are normalised',
        'D2 residuals are homogeneous of degree 0 in z (scale freedom)',
        'D3 single-component shortcut: T-methods return Tsat, P-methods return Psat',
        'D4 instance-cache key covers what __new__ reads',
    ]
    ctx.not_decided = ['residual magnitude at the solution', 'T(P(T)) = T', 'bubble T <= dew T', 'permutation invariance']
    d1 = ctx.rule('D1', 'normalised result', floor=8)
    d2 = ctx.rule('D2', 'residual homogeneous of degree 0 in z', floor=4)
    d3 = ctx.rule('D3', 'single-component shortcut kinds', floor=4)
    d4 = ctx.rule('D4', 'instance cache key', floor=2)
    for cname, rel, mname, kind in SOLVERS:
        f = prog.method(cname, mname, rel=rel)
        cons = '%s.%s' % (cname, mname)
        # ---- D1
        rets = [n for n in walk_no_nested(f.node) if isinstance(n, ast.Return)]
        for r in rets:
            if not isinstance(r.value, ast.Tuple):
                d1.fail(cons, 'return-shape', 'return is not a tuple', f, r)
                continue
            comp = r.value.elts[1] if len(r.value.elts) == 2 else r.value.elts[2]
            if isinstance(comp, ast.Call) and src(comp.func) == 'fn.normalize':
                d1.ok(cons, 'returns %s' % src(comp), f, r)
            else:
                d1.fail(cons, 'not-normalised', 'the composition returned (%s) is not passed through fn.normalize' % src(comp), f, r)
        # ---- D3
        one = [n for n in walk_no_nested(f.node) if isinstance(n, ast.If) and isinstance(n.test, ast.Compare)
               and isinstance(n.test.comparators[0], ast.Constant) and n.test.comparators[0].value == 1 and isinstance(n.test.ops[0], ast.Eq)
               and any(isinstance(b, ast.Return) for b in n.body)]
        if not one:
            d3.fail(cons, 'no-shortcut', 'single-component shortcut missing', f, f.node)
        else:
            b = one[0]
            ret = [n for n in b.body if isinstance(n, ast.Return)]
            want = 'Tsat' if kind == 'T' else 'Psat'
            crit = 'Tc' if kind == 'T' else 'Pc'
            first = src(ret[0].value.elts[0]) if ret and isinstance(ret[0].value, ast.Tuple) else None
            asg = [n for n in b.body if isinstance(n, ast.Assign) and src(n.targets[0]) == first]
            okk = bool(asg and ret)
            if okk:
                v = asg[0].value
                if isinstance(v, ast.IfExp):
                    okk = re.search(r'\.%s\(' % want, src(v.body)) is not None and src(v.orelse).endswith('.' + crit)
                else:
                    okk = re.search(r'\.%s\(' % want, src(v)) is not None
            if okk:
                d3.ok(cons, 'single component: returns %s = chemical.%s(...) (critical value beyond the critical point)' % (kind, want), f, b)
            else:
                d3.fail(cons, 'shortcut-kind', 'single-component shortcut does not return the chemical\'s %s' % want, f, b)
        # ---- D2
        homogeneity(ctx, d2, prog, f, cname, mname, rel)
    # ---- D4
    for cname, rel in (('BubblePoint', BP), ('DewPoint', DP)):
        f = prog.method(cname, '__new__', rel=rel)
        caches = {t.id for n in walk_no_nested(f.node) if isinstance(n, ast.Assign) and src(n.value).endswith('._cached') for t in n.targets if isinstance(t, ast.Name)}
        knames = {src(n.left) for n in walk_no_nested(f.node) if isinstance(n, ast.Compare) and isinstance(n.ops[0], ast.In) and src(n.comparators[0]) in caches}
        key = [n for n in walk_no_nested(f.node) if isinstance(n, ast.Assign) and src(n.targets[0]) in knames]
        if not key or not isinstance(key[0].value, ast.Tuple):
            d4.fail('%s.__new__' % cname, 'no-key', 'cache key not found', f, f.node)
            continue
        kel = {src(e) for e in key[0].value.elts}
        reads = set()
        for n in walk_no_nested(f.node):
            if isinstance(n, ast.Attribute) and src(n.value) == 'thermo' and isinstance(n.ctx, ast.Load):
                reads.add(src(n))
        miss = sorted(r for r in reads if r not in kel)
        if f.params[1] in kel and not miss:
            d4.ok('%s.__new__' % cname, 'key %s covers chemicals and every thermo attribute read (%s)' % (sorted(kel), sorted(reads)), f, key[0])
        else:
            d4.fail('%s.__new__' % cname, 'key-misses', 'the instance cache key does not contain %s' % (miss or ['chemicals']), f, key[0])
        # the key is normalised the same way as what is stored under it
        cp = f.params[1]
        pre = [n for n in walk_no_nested(f.node) if isinstance(n, ast.Assign) and src(n.targets[0]) == cp and src(n.value) == 'tuple(%s)' % cp]
        if pre and pre[0].lineno < key[0].lineno:
            d4.ok('%s.__new__' % cname, 'chemicals are normalised to a tuple before the key is built', f, pre[0])
        else:
            d4.fail('%s.__new__' % cname, 'key-normalisation', 'chemicals are not normalised to a tuple before keying', f, f.node)


def homogeneity(ctx, d2, prog, f, cname, mname, rel):
    cons = '%s.%s' % (cname, mname)

    def decide(t, st):
        s = src(t)
        if isinstance(t, ast.Compare) and isinstance(t.ops[0], ast.Eq) and isinstance(t.comparators[0], ast.Constant) and t.comparators[0].value in (0, 1):
            return False
        if 'conversion is None' in s:
            return True
        if s.startswith('T >') or s.startswith('T <'):
            return False
        return None
    ps, _ = run_paths(f.node, decide=decide, follow_except=False)
    ps = [p for p in ps if not p.raised]
    if not ps:
        raise AnalysisError('%s: no non-reactive path' % cons)
    p = ps[0]
    # the solver call: first argument = residual function, one positional/keyword argument = the args tuple
    sc = [e for e in p.events if e.kind == 'call' and e.target in ('flx.aitken_secant', 'flx.IQ_interpolation')]
    args = fa = None
    if sc:
        call = sc[0].node
        fn_txt = sc[0].value[0].pretty() if sc[0].value else ''
        for a in list(call.args) + [k.value for k in call.keywords]:
            if isinstance(a, ast.Name) and a.id in p.tup and len(p.tup[a.id]) >= 3:
                args = p.tup[a.id]
        if fn_txt.startswith('self._'):
            fa = [sc[0]]
            resid_name = fn_txt.split('.')[-1]
    if not args or not fa:
        raise AnalysisError('%s: args / residual function not found' % cons)
    g = prog.method(cname, resid_name, rel=rel)
    params = g.params[2:]      # self, unknown, *args
    if len(params) != len(args):
        d2.fail(cons, 'args-arity', '%s takes %s after the unknown but %d arguments are supplied' % (resid_name, params, len(args)), f, fa[-1].stmt)
        return
    degs = {}
    for prm, a in zip(params, args):
        d = degree(a)
        degs[prm] = d
    # which parameters enter the residual multiplicatively
    gp, _ = run_paths(g.node, follow_except=False)
    gp = [q for q in gp if not q.raised][0]
    env = gp.lin.env
    # the quantity summed in the residual: the value solved into x / y
    yv = None
    for e in gp.events:
        # the quantity handed to the inner composition solve whose result is stored into the composition buffer
        if e.kind == 'store' and e.target.endswith('[::]') and isinstance(e.stmt.value, ast.Call) and e.stmt.value.args:
            yv = gp.lin.form(e.stmt.value.args[0])
    if yv is None:
        raise AnalysisError('%s: residual quantity not found' % resid_name)
    total = None
    bad_inner = None
    for k, v in yv.t.items():
        d = 0
        for a, e in k:
            if a in degs:
                if degs[a] is None:
                    d = None
                    break
                d += degs[a] * e
            else:
                # opaque call: every z-derived parameter it mentions must have degree 0
                for prm, dg in degs.items():
                    if re.search(r'(?<![A-Za-z0-9_.])%s(?![A-Za-z0-9_])' % prm, a) and dg not in (0,):
                        if prm in ('T', 'P', 'Psats', 'x', 'y'):
                            continue
                        bad_inner = (a, prm, dg)
        if d is None:
            total = None
            break
        total = d if total is None else (total if total == d else 'mixed')
    zdeps = {k_: v_ for k_, v_ in degs.items() if v_ not in (0,) and k_ not in ('P', 'T', 'Psats', 'x', 'y')}
    # degree of the P/T arguments is 0 by construction (they do not mention z)
    if total == 0 and not bad_inner:
        d2.ok(cons, 'residual 1 - sum(composition) is degree 0 in z: arguments %s' % ({k_: v_ for k_, v_ in degs.items() if k_ not in ('x', 'y')}), g)
    else:
        which = ', '.join('%s (degree %s)' % kv for kv in sorted(zdeps.items(), key=str)) or str(bad_inner)
        d2.fail(cons, 'scale-dependent', 'the residual of %s is not homogeneous of degree 0 in z: it receives %s, so the result changes when z is multiplied by a constant'
                % (resid_name, which), f, fa[-1].stmt)
