"""C08 -- bubble and dew points (structural clauses)."""
from __future__ import annotations
import ast, re
from ..frontend import AnalysisError, src, walk_no_nested
from ..symx import run_paths
from ..pathcond import scenario_decide
from ..lin import Form, Lin

MANIFEST = {
    'technique': 'homogeneity-degree analysis (D-hom) of the residual functions in the composition vector, must-pass rule "returned composition goes through normalize", '
            "quantity-kind rule for the single-component shortcut, key-covers-inputs rule for the instance caches; symbolic substitution of the callers' argument "
            "tuples into the residual functions and exponent-vector comparison with modified Raoult's law; bracket rule for the bracketing fallbacks",
    'text': 'Decides for every input: every non-reactive return of solve_Ty/solve_Py/solve_Tx/solve_Px passes the composition through normalize; the residual 1 - '
            'sum(y) (resp. x) is homogeneous of degree 0 in z exactly when every z-derived argument handed to the residual function has degree 0 (otherwise the '
            'result depends on the scale of z); the single-component shortcut returns Tsat for the T-methods and Psat for the P-methods; the per-class instance '
            "cache key contains the chemicals and every attribute of the property package that __new__ reads. With the caller's arguments substituted, the quantity"
            ' each of the eight residual functions (plain and reactive) hands to its inner composition solve is z*Psat*gamma*pcf/P for the bubble point and '
            'z*P*phi/(Psat*pcf) for the dew point, and the inner solves divide by phi(y) resp. gamma(x); every coefficient call in the summand and the inner solve '
            'receive, at the positions their class signatures give to T and P, the temperature at which the saturation pressures are evaluated and the pressure of '
            'the summand. The fallback brackets are [Tmin, Tmax] from the domain call in order and [min Psat(Tmin), max Psat(Tmax)], identically in BubblePoint and'
            ' DewPoint; where the residuals handed to the bracketing solver are visible calls of the residual function, each is evaluated at its own end of the '
            'bracket. Residual magnitudes, T-P inversion, bubble <= dew and permutation invariance are numerical and not decided.',
}

BP = 'thermosteam/equilibrium/bubble_point.py'
DP = 'thermosteam/equilibrium/dew_point.py'
SOLVERS = [('BubblePoint', BP, 'solve_Ty', 'T'), ('BubblePoint', BP, 'solve_Py', 'P'),
           ('DewPoint', DP, 'solve_Tx', 'T'), ('DewPoint', DP, 'solve_Px', 'P')]


def degree(form, zname='z'):
    """homogeneity degree of a Form in z (z and z.sum() have degree 1); None if mixed"""
    degs = set()
    for k, v in form.t.items():
        d = 0
        for a, e in k:
            if a == zname or a == '%s.sum()' % zname:
                d += e
            elif re.search(r'(?<![A-Za-z0-9_.])%s(?![A-Za-z0-9_])' % zname, a):
                # z inside an opaque atom: np.array(..), self.gamma(z/z.sum(), T) ...
                inner = _inner_degree(a, zname)
                if inner is None:
                    return None
                d += inner * e
        degs.add(d)
    if len(degs) == 1:
        return degs.pop()
    return None


def _inner_degree(atom, zname):
    # an opaque call evaluated at a degree-0 argument is degree 0; anything else is unknown
    m = re.findall(r'%s\*%s\.sum\(\)\*\*-1' % (zname, zname), atom)
    rest = re.sub(r'%s\*%s\.sum\(\)\*\*-1' % (zname, zname), '', atom)
    if re.search(r'(?<![A-Za-z0-9_.])%s(?![A-Za-z0-9_])' % zname, rest):
        return None
    return 0


def run(ctx):
    prog = ctx.prog
    ctx.decided = [
        'D1 returned compositions are normalised',
        'D2 residuals are homogeneous of degree 0 in z (scale freedom)',
        'D3 single-component shortcut: T-methods return Tsat, P-methods return Psat',
        'D4 instance-cache key covers what __new__ reads',
        'D6 the fallback brackets built in __new__: Tmin/Tmax are the two results of the domain function in order, Pmin = min_i Psat_i(Tmin), '
        'Pmax = max_i Psat_i(Tmax) (vapour pressure increases with T, so any other pairing can exclude the root), identically in BubblePoint and DewPoint',
        'D5 with the caller\'s arguments substituted, the quantity each residual function hands to its inner composition solve is '
        'z*Psat*gamma*pcf/P (bubble; y = that / phi(y)) resp. z*P*phi/(Psat*pcf) (dew; x = that / gamma(x)): modified Raoult\'s law, nothing missing, nothing inverted',
    ]
    ctx.not_decided = ['residual magnitude at the solution', 'T(P(T)) = T', 'bubble T <= dew T', 'permutation invariance']
    d1 = ctx.rule('D1', 'normalised result', floor=8)
    d2 = ctx.rule('D2', 'residual homogeneous of degree 0 in z', floor=4)
    d3 = ctx.rule('D3', 'single-component shortcut kinds', floor=4)
    d4 = ctx.rule('D4', 'instance cache key', floor=2)
    for cname, rel, mname, kind in SOLVERS:
        f = prog.method(cname, mname, rel=rel)
        cons = '%s.%s' % (cname, mname)
        # ---- D1
        rets = [n for n in walk_no_nested(f.node) if isinstance(n, ast.Return)]
        for r in rets:
            if not isinstance(r.value, ast.Tuple):
                d1.fail(cons, 'return-shape', 'return is not a tuple', f, r)
                continue
            comp = r.value.elts[1] if len(r.value.elts) == 2 else r.value.elts[2]
            if isinstance(comp, ast.Call) and src(comp.func) == 'fn.normalize':
                d1.ok(cons, 'returns %s' % src(comp), f, r)
            else:
                d1.fail(cons, 'not-normalised', 'the composition returned (%s) is not passed through fn.normalize' % src(comp), f, r)
        # ---- D3  (path-wise: the shape of the branch -- conditional expression, if/else, early return -- does not matter)
        one = [n for n in walk_no_nested(f.node) if isinstance(n, ast.If) and isinstance(n.test, ast.Compare)
               and isinstance(n.test.comparators[0], ast.Constant) and n.test.comparators[0].value == 1 and isinstance(n.test.ops[0], ast.Eq)]
        if not one:
            d3.fail(cons, 'no-shortcut', 'single-component shortcut missing', f, f.node)
        else:
            tst = one[0].test
            want = 'Tsat' if kind == 'T' else 'Psat'
            crit = 'Tc' if kind == 'T' else 'Pc'

            def dec(t, st, tst=tst):
                if t is tst:
                    return True
                if isinstance(t, ast.Compare) and isinstance(t.comparators[0], ast.Constant) and t.comparators[0].value == 0:
                    return False
                return None
            ps1, _ = run_paths(f.node, decide=dec, follow_except=False)
            ps1 = [p for p in ps1 if not p.raised and any(t is tst and taken for t, taken in p.conds)]
            vals = []
            for p in ps1:
                rt = p.tup.get('<ret>')
                if isinstance(rt, (list, tuple)) and rt and isinstance(rt[0], Form):
                    vals.append(rt[0].pretty())
            sat = [v for v in vals if re.search(r'\.%s\(' % want, v)]
            other = [v for v in vals if not re.search(r'\.%s\(' % want, v)]
            if vals and sat and all(v.endswith('.' + crit) for v in other):
                d3.ok(cons, 'single component: returns %s = chemical.%s(...) (the critical value beyond the critical point) on all %d paths' % (kind, want, len(vals)), f, one[0])
            else:
                d3.fail(cons, 'shortcut-kind', 'single-component shortcut does not return the chemical\'s %s (returns %s)' % (want, sorted(set(vals))[:3]), f, one[0])
        # ---- D2
        homogeneity(ctx, d2, prog, f, cname, mname, rel)
    d5 = ctx.rule('D5', 'the residual summand has the shape of modified Raoult\'s law', floor=10)
    raoult_shape(ctx, d5)
    d7 = ctx.rule('D7', 'bracketing solver calls receive the residual of each end of the bracket at that end', floor=6)
    bracket_residuals(ctx, d7)
    d6 = ctx.rule('D6', 'solver brackets: [Tmin, Tmax] from the domain, [Pmin, Pmax] = [min Psat(Tmin), max Psat(Tmax)]', floor=7)
    bracket_rule(ctx, d6)
    # ---- D4
    for cname, rel in (('BubblePoint', BP), ('DewPoint', DP)):
        f = prog.method(cname, '__new__', rel=rel)
        caches = {t.id for n in walk_no_nested(f.node) if isinstance(n, ast.Assign) and src(n.value).endswith('._cached') for t in n.targets if isinstance(t, ast.Name)}
        knames = {src(n.left) for n in walk_no_nested(f.node) if isinstance(n, ast.Compare) and isinstance(n.ops[0], (ast.In, ast.NotIn)) and src(n.comparators[0]) in caches}
        # ... or the key used to look the instance up: <cache>.get(key) / <cache>[key]
        knames |= {src(n.args[0]) for n in walk_no_nested(f.node) if isinstance(n, ast.Call) and isinstance(n.func, ast.Attribute) and n.func.attr in ('get', 'setdefault')
                   and src(n.func.value) in caches and n.args}
        knames |= {src(n.slice) for n in walk_no_nested(f.node) if isinstance(n, ast.Subscript) and src(n.value) in caches}
        key = [n for n in walk_no_nested(f.node) if isinstance(n, ast.Assign) and src(n.targets[0]) in knames]
        if not key or not isinstance(key[0].value, ast.Tuple):
            d4.fail('%s.__new__' % cname, 'no-key', 'cache key not found', f, f.node)
            continue
        kel = {src(e) for e in key[0].value.elts}
        reads = set()
        for n in walk_no_nested(f.node):
            if isinstance(n, ast.Attribute) and src(n.value) == 'thermo' and isinstance(n.ctx, ast.Load):
                reads.add(src(n))
        miss = sorted(r for r in reads if r not in kel)
        if f.params[1] in kel and not miss:
            d4.ok('%s.__new__' % cname, 'key %s covers chemicals and every thermo attribute read (%s)' % (sorted(kel), sorted(reads)), f, key[0])
        else:
            d4.fail('%s.__new__' % cname, 'key-misses', 'the instance cache key does not contain %s' % (miss or ['chemicals']), f, key[0])
        # the key is normalised the same way as what is stored under it
        cp = f.params[1]
        pre = [n for n in walk_no_nested(f.node) if isinstance(n, ast.Assign) and src(n.targets[0]) == cp and src(n.value) == 'tuple(%s)' % cp]
        if pre and pre[0].lineno < key[0].lineno:
            d4.ok('%s.__new__' % cname, 'chemicals are normalised to a tuple before the key is built', f, pre[0])
        else:
            d4.fail('%s.__new__' % cname, 'key-normalisation', 'chemicals are not normalised to a tuple before keying', f, f.node)


def _scenario_atom(conv_given):
    """atoms of the scenario 'several components, temperature inside the domain, conversion (not) given'"""
    def atom(t):
        if isinstance(t, ast.Compare) and len(t.ops) == 1:
            a, b, op = t.left, t.comparators[0], t.ops[0]
            if isinstance(op, ast.Eq) and isinstance(b, ast.Constant) and b.value in (0, 1) and not isinstance(b.value, bool):
                return False                      # N == 0 / N == 1: not the multi-component case
            if isinstance(op, (ast.Is, ast.IsNot)) and isinstance(b, ast.Constant) and b.value is None and 'conversion' in src(a):
                return (not conv_given) if isinstance(op, ast.Is) else conv_given
            if isinstance(op, (ast.Gt, ast.Lt, ast.GtE, ast.LtE)) and src(a) == 'T' and src(b) in ('self.Tmax', 'self.Tmin'):
                return False                      # T already inside [Tmin, Tmax]
        if isinstance(t, ast.Name) and 'conversion' in t.id:
            return conv_given
        return None
    return atom


_no_conversion_atom = _scenario_atom(False)
_with_conversion_atom = _scenario_atom(True)


def _summand_arg(gp, e):
    """the quantity handed to the inner composition solve: the first argument that is not the buffer the result is stored into
    (solve_y(y_phi, ...), self._solve_x(x_gamma, ..., x), solve_x(x_guess, x_gamma, ...))"""
    buf = e.target[:-4]
    for a in e.stmt.value.args:
        fm = gp.lin.form(a)
        if fm != Form.atom(buf) and src(a) != buf:
            return fm
    return gp.lin.form(e.stmt.value.args[0])


def homogeneity(ctx, d2, prog, f, cname, mname, rel):
    cons = '%s.%s' % (cname, mname)

    decide = scenario_decide(_no_conversion_atom)
    ps, _ = run_paths(f.node, decide=decide, follow_except=False)
    ps = [p for p in ps if not p.raised]
    if not ps:
        raise AnalysisError('%s: no non-reactive path' % cons)
    p = ps[0]
    # the solver call: first argument = residual function, one positional/keyword argument = the args tuple
    sc = [e for e in p.events if e.kind == 'call' and e.target in ('flx.aitken_secant', 'flx.IQ_interpolation')]
    args = fa = None
    if sc:
        call = sc[0].node
        fn_txt = sc[0].value[0].pretty() if sc[0].value else ''
        for a in list(call.args) + [k.value for k in call.keywords]:
            if isinstance(a, ast.Name) and a.id in p.tup and len(p.tup[a.id]) >= 3:
                args = p.tup[a.id]
        if fn_txt.startswith('self._'):
            fa = [sc[0]]
            resid_name = fn_txt.split('.')[-1]
    if not args or not fa:
        raise AnalysisError('%s: args / residual function not found' % cons)
    g = prog.method(cname, resid_name, rel=rel)
    params = g.params[2:]      # self, unknown, *args
    if len(params) != len(args):
        d2.fail(cons, 'args-arity', '%s takes %s after the unknown but %d arguments are supplied' % (resid_name, params, len(args)), f, fa[-1].stmt)
        return
    degs = {}
    for prm, a in zip(params, args):
        d = degree(a)
        degs[prm] = d
    # which parameters enter the residual multiplicatively
    gp, _ = run_paths(g.node, follow_except=False)
    gp = [q for q in gp if not q.raised][0]
    env = gp.lin.env
    # the quantity summed in the residual: the value solved into x / y
    yv = None
    for e in gp.events:
        # the quantity handed to the inner composition solve whose result is stored into the composition buffer
        if e.kind == 'store' and e.target.endswith('[::]') and isinstance(e.stmt.value, ast.Call) and e.stmt.value.args:
            yv = _summand_arg(gp, e)
            ctx.extra.setdefault('_C08_inner_calls', {})['%s.%s' % (cname, resid_name)] = (e.stmt.value.func, [gp.lin.form(a) for a in e.stmt.value.args])
    if yv is None:
        raise AnalysisError('%s: residual quantity not found' % resid_name)
    total = None
    bad_inner = None
    for k, v in yv.t.items():
        d = 0
        for a, e in k:
            if a in degs:
                if degs[a] is None:
                    d = None
                    break
                d += degs[a] * e
            else:
                # opaque call: every z-derived parameter it mentions must have degree 0
                for prm, dg in degs.items():
                    if re.search(r'(?<![A-Za-z0-9_.])%s(?![A-Za-z0-9_])' % prm, a) and dg not in (0,):
                        if prm in ('T', 'P', 'Psats', 'x', 'y'):
                            continue
                        bad_inner = (a, prm, dg)
        if d is None:
            total = None
            break
        total = d if total is None else (total if total == d else 'mixed')
    ctx.extra.setdefault('C08_residuals', []).append((cname, mname, resid_name, g, params, args, yv, f))
    zdeps = {k_: v_ for k_, v_ in degs.items() if v_ not in (0,) and k_ not in ('P', 'T', 'Psats', 'x', 'y')}
    # degree of the P/T arguments is 0 by construction (they do not mention z)
    if total == 0 and not bad_inner:
        d2.ok(cons, 'residual 1 - sum(composition) is degree 0 in z: arguments %s' % ({k_: v_ for k_, v_ in degs.items() if k_ not in ('x', 'y')}), g)
    else:
        which = ', '.join('%s (degree %s)' % kv for kv in sorted(zdeps.items(), key=str)) or str(bad_inner)
        d2.fail(cons, 'scale-dependent', 'the residual of %s is not homogeneous of degree 0 in z: it receives %s, so the result changes when z is multiplied by a constant'
                % (resid_name, which), f, fa[-1].stmt)


def _subst(form, mapping):
    """replace parameter atoms of a residual function by the caller's argument forms"""
    out = Form.const(0)
    for k, c in form.t.items():
        term = Form.const(c)
        for a, e in k:
            base = mapping.get(a, Form.atom(a))
            if e < 0:
                base = base.inv()
            for _ in range(abs(e)):
                term = term * base
        out = out + term
    return out


def bracket_residuals(ctx, d7):
    """flx.IQ_interpolation(f, x0, x1, y0, y1, ...) is handed the residuals at the two ends of the bracket: y0 = f(x0, ...), y1 = f(x1, ...).
    Where the two values are calls of f (directly, or through a local bound once), the first argument of each call must be the end of the
    bracket at the same position: with the residuals exchanged the interpolation starts from a bracket whose signs are inverted and returns
    an end point.  Calls whose residuals are not visible calls of f are not judged."""
    prog = ctx.prog
    n = 0
    for rel in (BP, DP):
        for f in prog.all_functions():
            if f.module.rel != rel:
                continue
            fn = prog.normal_form(f)
            defs = {}
            for st in walk_no_nested(fn):
                if isinstance(st, ast.Assign):
                    for t in st.targets:
                        for x in ast.walk(t):
                            if isinstance(x, ast.Name) and isinstance(x.ctx, ast.Store):
                                defs.setdefault(x.id, []).append(st.value if isinstance(t, ast.Name) else None)

            def res(e):
                if isinstance(e, ast.Name) and len(defs.get(e.id, [])) == 1 and defs[e.id][0] is not None:
                    return defs[e.id][0]
                return e
            for c in walk_no_nested(fn):
                if not (isinstance(c, ast.Call) and src(c.func).endswith('IQ_interpolation') and len(c.args) >= 5):
                    continue
                fexp, x0, x1, y0, y1 = c.args[:5]
                ys = [res(y0), res(y1)]
                if not all(isinstance(y, ast.Call) and src(y.func) == src(fexp) and y.args for y in ys):
                    continue
                n += 1
                got = [src(res(ys[0].args[0])), src(res(ys[1].args[0]))]
                want = [src(res(x0)), src(res(x1))]
                if got == want:
                    d7.ok(f.qualname, 'IQ_interpolation(f, %s, %s, f(%s, ...), f(%s, ...)): each residual belongs to its end of the bracket' % (src(x0), src(x1), got[0], got[1]), f, c)
                else:
                    d7.fail(f.qualname, 'bracket-residuals-exchanged', 'IQ_interpolation(%s, %s, %s, %s, %s, ...): the residual handed over for %s is %s(%s, ...) and the one for %s is %s(%s, ...)'
                            % (src(fexp), src(x0), src(x1), src(y0), src(y1), src(x0), src(fexp), got[0], src(x1), src(fexp), got[1]), f, c)
    return n


def _coefficient_signatures(prog):
    """attribute of a bubble/dew-point object (gamma, pcf, phi) -> positions of the temperature and pressure parameters in the __call__ of
    the classes that can be bound to it.  Resolved from the source: `self.<attr> = thermo.<Slot>(chemicals)` in the constructors,
    `issubtype(<Slot>, eq.<Root>)` in Thermo.__init__, then every class deriving from <Root> that defines __call__ (siblings must agree)."""
    slots = {}
    for cname, rel in (('BubblePoint', BP), ('DewPoint', DP)):
        for meth in prog.cls(cname, rel).methods.values():
            for n in walk_no_nested(meth.node):
                if isinstance(n, ast.Assign) and len(n.targets) == 1 and isinstance(n.targets[0], ast.Attribute) and isinstance(n.value, ast.Call) \
                        and n.targets[0].attr in ('gamma', 'pcf', 'phi') \
                        and isinstance(n.value.func, ast.Attribute) and isinstance(n.value.func.value, ast.Name):
                    slots.setdefault(n.targets[0].attr, set()).add(n.value.func.attr)
    roots = {}
    for lst in prog.classes.values():
        for k in lst:
            if k.name != 'Thermo' or '__init__' not in k.methods:
                continue
            for n in ast.walk(k.methods['__init__'].node):
                # issubclass(Slot, eq.Root) -- the test may be called through a local alias (issubtype = issubclass): any two-argument
                # call whose first argument is a constructor parameter and whose second names a class of the package
                if isinstance(n, ast.Call) and isinstance(n.func, ast.Name) and len(n.args) == 2 and not n.keywords \
                        and isinstance(n.args[0], ast.Name) and n.args[0].id in k.methods['__init__'].params \
                        and isinstance(n.args[1], (ast.Attribute, ast.Name)):
                    cname_ = n.args[1].attr if isinstance(n.args[1], ast.Attribute) else n.args[1].id
                    if cname_ in prog.classes:
                        roots[n.args[0].id] = cname_
    out = {}
    for attr, ss in slots.items():
        if len(ss) != 1 or next(iter(ss)) not in roots:
            continue
        root = [k for lst in prog.classes.values() for k in lst if k.name == roots[next(iter(ss))]]
        if len(root) != 1:
            continue
        pos = set()
        for k in prog.subclasses(root[0]):
            call = k.methods.get('__call__')
            if call is None:
                continue
            ps_ = call.params[1:]
            pos.add((ps_.index('T') if 'T' in ps_ else None, ps_.index('P') if 'P' in ps_ else None))
        tpos = {t for t, _ in pos if t is not None}
        ppos = {q for _, q in pos if q is not None}
        if len(tpos) == 1 and len(ppos) <= 1:
            out[attr] = (next(iter(tpos)), next(iter(ppos)) if ppos else None, root[0].name)
    return out


def _state_arguments(k, sigs, klass):
    """the coefficient functions in one summand are evaluated at the state of that summand: the temperature is the point at which the
    saturation pressures are evaluated, the pressure is the P that divides (bubble) / multiplies (dew) it.  None, or what is wrong."""
    def parse(t):
        try:
            return ast.parse(t.replace('<[', '[').replace(']>', ']'), mode='eval').body
        except SyntaxError:
            return None
    T_txt = P_txt = None
    for a, e in k:
        kl = klass(a)
        if kl == 'Psat':
            m = re.search(r"\[(\w+)\((.*?)\) for \1 in self\.Psats\]", a)
            if m:
                T_txt = m.group(2)
        elif kl == 'P':
            P_txt = a
    for a, e in k:
        kl = klass(a)
        if kl not in sigs:
            continue
        node = parse(a)
        if not isinstance(node, ast.Call):
            continue
        tpos, ppos, root = sigs[kl]
        for pos, want, what in ((tpos, T_txt, 'temperature'), (ppos, P_txt, 'pressure')):
            if pos is None or want is None:
                continue
            wn = parse(want)
            if wn is None:
                continue
            if pos < len(node.args):
                got = node.args[pos]
            else:
                continue          # left to its default / passed by keyword
            if ast.unparse(got) != ast.unparse(wn):
                return 'self.%s(...) is a %s: its %s argument (position %d) is %s, but the %s of this residual is %s' % (
                    kl, root, what, pos + 1, ast.unparse(got), what, ast.unparse(wn))
    return None


def _inner_solve_state(prog, cname, rel, inner, mapping, k, klass):
    """the inner composition solve of a residual (solve_y(summand, phi, T, P, y) / self._solve_x(summand, T, P, x)) evaluates the
    coefficient of the phase being solved for: it must be handed the same temperature and pressure as the summand.  None / reason."""
    if inner is None:
        return None
    func, forms = inner
    callee = None
    if isinstance(func, ast.Name):
        callee = prog.module(rel).functions.get(func.id)
        params = callee.params if callee else None
    elif isinstance(func, ast.Attribute) and isinstance(func.value, ast.Name) and func.value.id == 'self':
        callee = prog.cls(cname, rel).methods.get(func.attr)
        params = callee.params[1:] if callee else None
    if callee is None or len(params) < len(forms):
        return None
    T_txt = P_txt = None
    for a, e in k:
        kl = klass(a)
        if kl == 'Psat':
            m = re.search(r"\[(\w+)\((.*?)\) for \1 in self\.Psats\]", a)
            if m:
                T_txt = m.group(2)
        elif kl == 'P':
            P_txt = a
    for name, want in (('T', T_txt), ('P', P_txt)):
        if want is None or name not in params or params.index(name) >= len(forms):
            continue
        got = _subst(forms[params.index(name)], mapping).pretty()
        if got.replace(' ', '') != want.replace(' ', ''):
            return 'the inner solve %s(...) receives %s as its %s, but the summand is evaluated at %s = %s' % (src(func), got, name, name, want)
    return None


def raoult_shape(ctx, d5):
    """y_i phi_i P = x_i gamma_i pcf_i Psat_i.  Bubble: the summand handed to solve_y is y*phi = z*gamma*pcf*Psat/P;
    dew: the summand handed to _solve_x is x*gamma = z*phi*P/(pcf*Psat)."""
    res = ctx.extra.get('C08_residuals') or []
    if len(res) < 4:
        raise AnalysisError('C08-D5: expected the 4 residual functions, found %d' % len(res))
    WANT = {'BubblePoint': {'Psat': 1, 'gamma': 1, 'pcf': 1, 'P': -1, 'phi': 0, 'z': 1},
            'DewPoint': {'Psat': -1, 'gamma': 0, 'pcf': -1, 'P': 1, 'phi': 1, 'z': 1}}

    def klass(a):
        if a in ('z',):
            return 'z'
        if a == 'z.sum()':
            return 'zsum'
        if a == 'P':
            return 'P'
        for nm in ('gamma', 'pcf', 'phi'):
            if a.startswith('self.%s(' % nm):
                return nm
        if 'self.Psats' in a and not a.startswith('self.'):
            return 'Psat'
        return 'other:' + a
    sigs = _coefficient_signatures(ctx.prog)
    inner_calls = ctx.extra.setdefault('_C08_inner_calls', {})
    if set(sigs) != {'gamma', 'pcf', 'phi'}:
        raise AnalysisError('C08-D5: the call signatures of the coefficient objects (gamma, pcf, phi) could not be resolved: %s' % sorted(sigs))
    for cname, mname, rname, g, params, args, yv, f in res:
        cons = '%s.%s' % (cname, rname)
        full = _subst(yv, dict(zip(params, args)))
        if len(full.t) != 1:
            d5.fail(cons, 'raoult-shape', 'the summand is not a single product: %s' % full.pretty(), g, g.node)
            continue
        (k, c), = full.t.items()
        got = {'Psat': 0, 'gamma': 0, 'pcf': 0, 'P': 0, 'phi': 0, 'z': 0}
        other = []
        for a, e in k:
            kl = klass(a)
            if kl == 'zsum':
                continue            # normalisation of z: decided by D2
            if kl.startswith('other:'):
                other.append(a)
            else:
                got[kl] += e
        want = WANT[cname]
        rel_ = BP if cname == 'BubblePoint' else DP
        wrong_state = _state_arguments(k, sigs, klass) or _inner_solve_state(ctx.prog, cname, rel_, inner_calls.get('%s.%s' % (cname, rname)), dict(zip(params, args)), k, klass)
        if wrong_state:
            d5.fail(cons, 'coefficient-state', wrong_state, g, g.node)
        elif c == 1 and got == want and not other:
            d5.ok(cons, 'summand = %s  (as called from %s)' % (full.pretty(), mname), g)
        else:
            diff = {x: (got[x], want[x]) for x in want if got[x] != want[x]}
            d5.fail(cons, 'raoult-shape', 'the quantity handed to the inner solve is %s; modified Raoult\'s law needs exponents %s (found/needed %s%s%s)'
                    % (full.pretty(), want, diff, ', stray factors %s' % other if other else '', ', coefficient %s' % c if c != 1 else ''), g, g.node)
    # the reactive siblings: same law for the composition after conversion (the buffer the function fills with z + dz, normalised)
    prog = ctx.prog
    for cname, rel, mname, kind in SOLVERS:
        f = prog.method(cname, mname, rel=rel)

        decide = scenario_decide(_with_conversion_atom)
        ps, _ = run_paths(f.node, decide=decide, follow_except=False)
        ps = [p for p in ps if not p.raised]
        found = None
        for p in ps:
            for e in p.events:
                if e.kind == 'call' and e.target in ('flx.aitken_secant', 'flx.IQ_interpolation') and e.value and e.value[0].pretty().endswith('_reactive'):
                    args = None
                    for a in list(e.node.args) + [k.value for k in e.node.keywords]:
                        if isinstance(a, ast.Name) and a.id in p.tup and len(p.tup[a.id]) >= 3:
                            args = p.tup[a.id]
                    found = (e.value[0].pretty().split('.')[-1], args)
            if found:
                break
        if not found or not found[1]:
            d5.skip('%s.%s' % (cname, mname), 'reactive residual not resolved', f, f.node)
            continue
        rname, args = found
        g = prog.method(cname, rname, rel=rel)
        params = g.params[2:]
        cons = '%s.%s' % (cname, rname)
        if len(params) != len(args):
            d5.fail(cons, 'args-arity', '%s takes %s after the unknown but %d arguments are supplied' % (rname, params, len(args)), f, f.node)
            continue
        gp, _ = run_paths(g.node, follow_except=False)
        gp = [q for q in gp if not q.raised][0]
        yv = None
        comp = set()
        for e in gp.events:
            if e.kind == 'store' and e.target.endswith('[::]'):
                v = e.stmt.value
                if isinstance(v, ast.Call) and v.args and not (isinstance(v.func, ast.Name) and v.func.id in g.params):
                    yv = _summand_arg(gp, e)
                    inner_calls['%s.%s' % (cname, rname)] = (v.func, [gp.lin.form(a) for a in v.args])
                elif not isinstance(v, ast.Call):
                    comp.add(e.target[:-4])
        if yv is None or not comp:
            d5.skip(cons, 'summand / composition buffer not found', g, g.node)
            continue
        mapping = {prm: a for prm, a in zip(params, args) if prm not in comp}
        full = _subst(yv, mapping)
        if len(full.t) != 1:
            d5.fail(cons, 'raoult-shape', 'the summand is not a single product: %s' % full.pretty(), g, g.node)
            continue
        (k, c), = full.t.items()
        got = {'Psat': 0, 'gamma': 0, 'pcf': 0, 'P': 0, 'phi': 0, 'z': 0}
        other = []
        for a, e in k:
            if a in comp:
                got['z'] += e
                continue
            if a in ['%s.sum()' % x for x in comp]:
                continue
            kl = klass(a)
            if kl.startswith('other:') or kl in ('z', 'zsum'):
                other.append(a)
            else:
                got[kl] += e
        want = WANT[cname]
        wrong_state = _state_arguments(k, sigs, klass) or _inner_solve_state(prog, cname, rel, inner_calls.get('%s.%s' % (cname, rname)), mapping, k, klass)
        if wrong_state:
            d5.fail(cons, 'coefficient-state', wrong_state, g, g.node)
        elif c == 1 and got == want and not other:
            d5.ok(cons, 'summand = %s  (as called from %s, composition buffer %s)' % (full.pretty(), mname, sorted(comp)), g)
        else:
            diff = {x: (got[x], want[x]) for x in want if got[x] != want[x]}
            d5.fail(cons, 'raoult-shape', 'the quantity handed to the inner solve is %s; modified Raoult\'s law needs exponents %s (found/needed %s%s)'
                    % (full.pretty(), want, diff, ', stray factors %s' % other if other else ''), g, g.node)
    # the inner solves divide by the coefficient of the phase being solved for
    yi = prog.func(BP, 'y_iter')
    ps, _ = run_paths(yi.node)
    r = [p.ret for p in ps if not p.raised]
    a = yi.params
    okk = bool(r) and all(x is not None and len(x.t) == 1 and dict(list(x.t)[0]).get(a[1]) == 1
                          and any(t.startswith(a[2] + '(') and e == -1 for t, e in list(x.t)[0]) for x in r)
    if okk:
        d5.ok('y_iter', 'y <- y_phi / phi(normalised y, T, P)', yi)
    else:
        d5.fail('y_iter', 'inner-solve', 'the vapour fixed point is not y_phi / phi(y): %s' % [x.pretty() if x is not None else None for x in r], yi, yi.node)
    sx = prog.method('DewPoint', '_solve_x', rel=DP)
    callee = [n for n in walk_no_nested(sx.node) if isinstance(n, ast.Call) and isinstance(n.func, ast.Name)]
    inner = None
    for n in callee:
        m = prog.module(DP)
        tgt = m.imports.get(n.func.id) or ''
        for mm in prog.modules.values():
            if n.func.id in mm.functions and (mm.rel.replace('/', '.')[:-3].endswith(tgt.rsplit('.', 1)[0].lstrip('.')) or mm is m or True):
                cand = mm.functions[n.func.id]
                if 'x_gamma' in cand.params or len(cand.params) >= 5:
                    inner = (cand, n)
    if inner is None:
        d5.skip('DewPoint._solve_x', 'inner liquid solve not resolved', sx, sx.node)
        return
    cand, n = inner
    # the liquid solve iterates on gamma (gamma <- f_gamma(normalised x_gamma / gamma)) and returns x_gamma / gamma
    xg = n.args[1] if len(n.args) > 1 else None
    pos = 1
    xg_name = cand.params[pos]
    ps, _ = run_paths(cand.node, follow_except=True)
    r = [p.ret for p in ps if not p.raised and p.ret is not None]
    good = bool(r)
    for x in r:
        if len(x.t) != 1:
            good = False
            continue
        k = dict(list(x.t)[0])
        if k.get(xg_name) != 1 or sorted(e for a_, e in k.items() if a_ != xg_name) != [-1]:
            good = False
    if good:
        d5.ok(cand.qualname, 'returns %s / gamma on all %d return paths' % (xg_name, len(r)), cand)
    else:
        d5.fail(cand.qualname, 'inner-solve', 'the liquid solve does not return %s / gamma: %s' % (xg_name, [x.pretty() for x in r]), cand, cand.node)
    it = None
    for nn in walk_no_nested(cand.node):
        if isinstance(nn, ast.Call) and nn.args and isinstance(nn.args[0], ast.Name) and nn.args[0].id in cand.module.functions and nn.args[0].id != cand.name:
            it = cand.module.functions[nn.args[0].id]
    if it is None:
        d5.skip('solve_x', 'iteration function not resolved', cand, cand.node)
        return
    ps, _ = run_paths(it.node)
    r = [p.ret for p in ps if not p.raised and p.ret is not None]
    g0, g1 = it.params[0], it.params[1]
    ratio = (Form.atom(g1) * Form.atom(g0).inv()).pretty()
    good = bool(r) and all(len(x.t) == 1 and len(list(x.t)[0]) == 1 and ratio in list(x.t)[0][0][0] and list(x.t)[0][0][0].startswith(it.params[4] + '(') for x in r)
    if good:
        d5.ok(it.qualname, 'gamma <- f_gamma(normalised %s, T, ...)' % ratio, it)
    else:
        d5.fail(it.qualname, 'inner-solve', 'the fixed-point map is not gamma <- f_gamma(%s): %s' % (ratio, [x.pretty() for x in r]), it, it.node)


def bracket_rule(ctx, rule):
    """A bracketing fallback finds the root only if the bracket contains it.  With Psat increasing in T the pressure bracket that
    covers every state of the temperature domain is [min_i Psat_i(Tmin), max_i Psat_i(Tmax)]."""
    prog = ctx.prog
    shapes = {}
    for cname, rel in (('BubblePoint', BP), ('DewPoint', DP)):
        f = prog.method(cname, '__new__', rel=rel)
        cons = '%s.__new__' % cname
        # the constructing path(s): the instance is made by <...>.__new__(cls) and its attributes are stored
        ps, _ = run_paths(f.node, follow_except=False)
        DOM = re.compile(r'^\(?(?P<call>[\w.]+\(.*\))\)?\[(?P<i>[01])\]$')
        per_path = []
        for p in ps:
            if p.raised:
                continue
            inst = {e.target for e in p.events if e.kind == 'assign' and isinstance(e.stmt, ast.Assign) and isinstance(e.stmt.value, ast.Call)
                    and isinstance(e.stmt.value.func, ast.Attribute) and e.stmt.value.func.attr == '__new__'}
            if not inst:
                continue
            ends = {}      # attr -> (domain call text, 0/1, stmt)
            pbs = {}       # attr -> (reducer, set of ends, stmt)
            attr_end = {}

            def end_of(x):
                """which end of the domain does the expression x denote on this path (0 / 1 / None)"""
                if isinstance(x, ast.Name) and x.id in p.lin.env:
                    mm = DOM.match(p.lin.env[x.id].pretty())
                    return int(mm.group('i')) if mm else None
                if isinstance(x, ast.Attribute) and isinstance(x.value, ast.Name) and x.value.id in inst:
                    return attr_end.get(x.attr)
                return None

            for e in p.events:
                if e.kind != 'store' or not isinstance(e.node, ast.Attribute) or not isinstance(e.node.value, ast.Name) or e.node.value.id not in inst:
                    continue
                mm = DOM.match(e.value.pretty()) if isinstance(e.value, Form) else None
                if mm:
                    ends[e.node.attr] = (mm.group('call'), int(mm.group('i')), e.stmt)
                    attr_end[e.node.attr] = int(mm.group('i'))
                    continue
                v = e.stmt.value if isinstance(e.stmt, ast.Assign) else None
                if isinstance(v, (ast.Tuple, ast.List)) and isinstance(e.stmt, ast.Assign):
                    # a.x, a.y = (p, q): the element that goes to this target
                    for tg in e.stmt.targets:
                        if isinstance(tg, (ast.Tuple, ast.List)) and len(tg.elts) == len(v.elts) and any(t is e.node for t in tg.elts):
                            v = v.elts[[t is e.node for t in tg.elts].index(True)]
                            break
                if isinstance(v, ast.Name):
                    from ..resolve import path_defs
                    v = path_defs(p, e).get(v.id, v)
                if isinstance(v, ast.Call) and isinstance(v.func, ast.Name) and v.func.id in ('min', 'max') and v.args:
                    from ..resolve import path_defs as _pd
                    a0 = v.args[0]
                    if isinstance(a0, ast.Name):
                        a0 = _pd(p, e).get(a0.id, a0)      # the list of vapour pressures built into a local first
                    es = {end_of(x) for x in ast.walk(a0) if isinstance(x, (ast.Name, ast.Attribute))}
                    pbs[e.node.attr] = (v.func.id, {x for x in es if x is not None}, e.stmt)
            per_path.append((ends, pbs))
        if not per_path or not all(len({c for c, i, st in ends.values()}) == 1 for ends, pbs in per_path):
            rule.fail(cons, 'domain', 'the temperature domain (lo, hi = f(chemicals)) was not found', f, f.node)
            continue
        ends, pbs = per_path[0]
        if any((sorted((a, i) for a, (c, i, st) in e2.items()), sorted((a, r, sorted(x)) for a, (r, x, st) in p2.items()))
               != (sorted((a, i) for a, (c, i, st) in ends.items()), sorted((a, r, sorted(x)) for a, (r, x, st) in pbs.items())) for e2, p2 in per_path[1:]):
            rule.fail(cons, 'domain', 'the constructing paths store different brackets', f, f.node)
            continue
        tlo = [a for a, (c, i, st) in ends.items() if i == 0]
        thi = [a for a, (c, i, st) in ends.items() if i == 1]
        dom_stmt = next(iter(ends.values()))[2]
        if len(tlo) == 1 and len(thi) == 1:
            rule.ok(cons, 'self.%s, self.%s = lower, upper end of the domain' % (tlo[0], thi[0]), f, dom_stmt)
        else:
            rule.fail(cons, 'T-bracket', 'the two ends of the temperature domain are not stored as one lower and one upper bound', f, dom_stmt)
            continue
        lows = [a for a, (r, es, n) in pbs.items() if r == 'min']
        highs = [a for a, (r, es, n) in pbs.items() if r == 'max']
        if len(lows) != 1 or len(highs) != 1:
            rule.fail(cons, 'P-bracket', 'expected one min(...) and one max(...) pressure bound, found %s' % sorted(pbs), f, f.node)
            continue
        for a, want, word in ((lows[0], 0, 'lower'), (highs[0], 1, 'upper')):
            r, es, n = pbs[a]
            if es == {want}:
                rule.ok(cons, 'self.%s = %s over the vapour pressures at the %s end of the temperature domain' % (a, r, word), f, n)
            else:
                rule.fail(cons, 'P-bracket-' + word, 'self.%s = %s(...) is evaluated at %s, not at the %s end of the temperature domain: the bracket [%s, %s] can exclude the root'
                          % (a, r, sorted(('lower', 'upper')[x] for x in es), word, lows[0], highs[0]), f, n)
        shapes[cname] = (tlo[0], thi[0], lows[0], highs[0])
    if len(shapes) == 2:
        a, b = shapes.values()
        f = prog.method('DewPoint', '__new__', rel=DP)
        if a == b:
            rule.ok('BubblePoint/DewPoint.__new__', 'both classes name and build their brackets identically %s' % (a,), f)
        else:
            rule.fail('BubblePoint/DewPoint.__new__', 'sibling-brackets', 'the two classes build different brackets: %s vs %s' % (a, b), f, f.node)
