"""C02 -- stream energy balance: heat reaches the balance, T solved from H/S (structural clauses)."""
from __future__ import annotations
import ast
from ..frontend import AnalysisError, src, walk_no_nested
from ..symx import run_paths
from ..lin import Form, Lin
from ..pathcond import implied, rimplied
import re

MANIFEST = {
    'technique': 'def-use / linear-form analysis of Stream.mix_from paths (every inlet H and Q reach the H sink), quantity-kind flow rule (solved temperatures flow only '
            'into T), read-before-mutate ordering, sign of the Newton/secant residuals; read-before-mutation reachability rule on the CFG of mix_from; must-pass '
            'rule for copy_like',
    'text': 'Decides for every input: on each energy-balance path of mix_from that leaves a non-empty receiver the enthalpy assigned is sum(inlet H)+Q over the '
            'same filtered inlet list that feeds the material sum (the single-inlet path copies the inlet and adds Q), P=min(P) over that list is stored before the '
            'solve; every value returned by (x)solve_T_at_HP/SP is stored into T (normal and phase-switch fallback branch) of the H/h/S setters; separate_out reads '
            'both enthalpies before subtracting material and assigns after; the iteration steps have the restoring sign. In mix_from no statement that alters the '
            "receiver can reach a read of the inlets' enthalpies (the receiver may be an inlet); copy_like, which single-inlet mixing delegates to, copies the "
            'thermal condition on every normal path. Convergence, tolerances and "assigning the current value leaves T unchanged" are not decided.',
}

ST = 'thermosteam/_stream.py'
MS = 'thermosteam/_multi_stream.py'
MX = 'thermosteam/mixture/mixture.py'


def sum_hook(node, lin):
    f = node.func
    if isinstance(f, ast.Name) and f.id == 'sum' and node.args and isinstance(node.args[0], (ast.ListComp, ast.GeneratorExp)):
        c = node.args[0]
        if len(c.generators) == 1 and not c.generators[0].ifs:
            g = c.generators[0]
            a = Form.atom('SUM[%s|%s in %s]' % (src(c.elt), src(g.target), lin._recv_text(g.iter)))
            if len(node.args) > 1:
                a = a + lin.form(node.args[1])
            return a
    if isinstance(f, ast.Name) and f.id == 'min' and node.args and isinstance(node.args[0], (ast.ListComp, ast.GeneratorExp)):
        c = node.args[0]
        g = c.generators[0]
        return Form.atom('MIN[%s|%s in %s]' % (src(c.elt), src(g.target), lin._recv_text(g.iter)))
    return None


def run(ctx):
    prog = ctx.prog
    ctx.decided = [
        'D1 on every energy-balance path of Stream.mix_from the H sink receives sum(inlet H)+Q (single inlet: copy of the inlet, plus Q)',
        'D2 P=min(P) over the same non-empty inlet list that feeds the material sum, stored before the H solve',
        'D3 results of solve_T_at_HP/SP and xsolve_T_at_HP/SP flow only into T, in the normal and the fallback branch of every setter',
        'D4 separate_out reads self.H and other.H before the material is subtracted and assigns the difference afterwards',
        'D5 iteration steps: T+(H-model)/Cn, T*exp((S-model)/Cn); secant residual model(T)-target',
        'D6 the equation-of-state arguments loaded for a temperature solve are cleared on every normal and exceptional exit',
    ]
    ctx.not_decided = ['convergence and tolerance of the solvers', 'that assigning the current enthalpy leaves T unchanged']
    d1 = ctx.rule('D1', 'inlet enthalpies and Q reach the H sink', floor=4)
    d2 = ctx.rule('D2', 'pressure is the minimum over the mixed inlets, set before the solve', floor=2)
    d3 = ctx.rule('D3', 'kind flow: solved temperature -> T sink', floor=10)
    d4 = ctx.rule('D4', 'separate_out: read-before-mutate', floor=2)
    d5 = ctx.rule('D5', 'restoring sign of the iteration steps', floor=8)
    mix_energy(ctx, d1, d2)
    kind_flow(ctx, d3)
    separate(ctx, d4)
    steps(ctx, d5)
    d8 = ctx.rule('D8', 'mix_from reads the inlet enthalpies before it alters the receiver', floor=1)
    mix_reads_before_mutation(ctx, d8)
    d7 = ctx.rule('D7', 'single-inlet mixing (= copy_like) copies the thermal condition on every path', floor=2)
    from .C13 import copy_like_contract
    copy_like_contract(ctx, d7)
    d6 = ctx.rule('D6', 'solver scratch state is released on every exit (load ... try/finally clear)', floor=4)
    scratch(ctx, d6)


def mix_energy(ctx, d1, d2):
    prog = ctx.prog
    f = prog.method('Stream', 'mix_from', rel=ST)

    # scenario: the energy balance is requested (however the flag is tested)
    from ..pathcond import scenario_decide
    decide = scenario_decide(lambda t: True if (isinstance(t, ast.Name) and t.id == 'energy_balance') else None)
    ps, trunc = run_paths(f.node, decide=decide, call_hook=sum_hook, max_paths=3000)
    if trunc:
        raise AnalysisError('Stream.mix_from: path enumeration truncated')
    # the list of mixed inlets: the local list that receives the non-empty stream inlets in the loop over `others`
    L = None
    for n in walk_no_nested(f.node):
        if isinstance(n, ast.For) and src(n.iter) == f.params[1] and isinstance(n.target, ast.Name):
            for x in ast.walk(n):
                if isinstance(x, ast.Call) and isinstance(x.func, ast.Attribute) and x.func.attr == 'append' \
                        and [src(a) for a in x.args] == [n.target.id] and isinstance(x.func.value, ast.Name):
                    L = x.func.value.id
    if L is None:
        raise AnalysisError('Stream.mix_from: list of mixed inlets not found')
    SUMH = re.compile(r'^SUM\[(\w+)\.H\|\1 in %s\]$' % re.escape(L))
    MINP = re.compile(r'^MIN\[(\w+)\.P\|\1 in %s\]$' % re.escape(L))
    MATS = re.compile(r'^\[(\w+)\._imol for \1 in %s\]$' % re.escape(L))
    seen = {}
    for p in ps:
        if p.raised:
            continue
        n0 = rimplied(p, lambda t: t == '(len(%s) == 0)' % L)
        n1 = rimplied(p, lambda t: t == '(len(%s) == 1)' % L)
        if n0:
            continue
        vle = implied(p.conds, lambda e: src(e) == 'vle')
        branch = 'single-inlet' if n1 else ('vle' if vle else 'flow')
        if p.via_except:
            branch += '+phase-fallback'
        # the list that feeds the material sum
        mats = [e for e in p.events if e.kind == 'call' and e.target == 'self._imol.mix_from']
        sinks = []
        for e in p.events:
            if e.kind == 'store' and e.target == 'self.H':
                sinks.append((e, e.value))
            if e.kind == 'augstore' and e.target == 'self.H' and e.op == 'Add':
                sinks.append((e, Form.atom('self.H') + e.value))
            if e.kind == 'call' and e.target == 'self.vle' and e.extra and 'H' in e.extra:
                sinks.append((e, e.extra['H']))
        res = None
        if n1:
            cp = [e for e in p.events if e.kind == 'call' and e.target == 'self.copy_like' and e.value and e.value[0].pretty().startswith('%s[0]' % L)]
            qz = implied(p.conds, lambda e: src(e) == 'Q')
            if not cp:
                res = ('no-copy', 'single non-empty inlet is not copied with copy_like (flows and thermal condition)')
            elif qz is False:
                res = None
            else:
                good = [v for e, v in sinks if v.coeff('Q') == 1 and v.coeff('self.H') == 1 and p.events.index(e) > p.events.index(cp[0])]
                if not good:
                    res = ('Q-dropped', 'with a single non-empty inlet the heat input Q never reaches the receiver\'s enthalpy')
        else:
            if not sinks:
                res = ('no-H-sink', 'energy-balance path assigns no enthalpy to the receiver')
            else:
                e, v = sinks[-1]
                hs = [a for a in v.atoms() if a.startswith('SUM[')]
                if len(hs) != 1 or v.coeff(hs[0]) != 1 or not SUMH.match(hs[0]):
                    res = ('H-sum', 'the enthalpy assigned (%s) is not the sum of the H of every mixed inlet' % v.pretty())
                elif v.coeff('Q') != 1:
                    res = ('Q-dropped', 'the enthalpy assigned (%s) does not contain the heat input Q with coefficient 1' % v.pretty())
                elif not mats or not all(MATS.match(src(m.node.args[0])) for m in mats):
                    res = ('material-list', 'the material sum does not range over the same filtered inlet list as the enthalpy sum')
                elif p.events.index(mats[-1]) > p.events.index(e):
                    res = ('order', 'the enthalpy is assigned before the material is mixed')
        key = branch
        if res is None:
            seen.setdefault(key, []).append(None)
        else:
            seen.setdefault(key, []).append(res)
    for key, lst in sorted(seen.items()):
        bad = [r for r in lst if r is not None]
        if bad:
            tag, what = bad[0]
            d1.fail('Stream.mix_from[%s]' % key, tag, what + ' (%d of %d paths)' % (len(bad), len(lst)), f, f.node)
        else:
            d1.ok('Stream.mix_from[%s]' % key, 'H sink = SUM(inlet H over the mixed list) + Q on all %d paths' % len(lst), f)
    # D2
    nP = 0
    badP = None
    for p in ps:
        if p.raised:
            continue
        n0 = rimplied(p, lambda t: t == '(len(%s) == 0)' % L)
        n1 = rimplied(p, lambda t: t == '(len(%s) == 1)' % L)
        if n0 or n1:
            continue
        nP += 1
        st = [e for e in p.events if e.kind == 'store' and e.target == 'self.P']
        first_sink = [e for e in p.events if (e.kind == 'store' and e.target == 'self.H') or (e.kind == 'call' and e.target == 'self.vle')]
        if not st or not MINP.match(st[0].value.pretty()):
            badP = 'P is not set to min(i.P for i in streams)'
        elif first_sink and p.events.index(st[0]) > p.events.index(first_sink[0]):
            badP = 'P is stored after the enthalpy solve'
    if badP:
        d2.fail('Stream.mix_from', 'P-min', badP, f, f.node)
    else:
        d2.ok('Stream.mix_from', 'self.P = min(P of the non-empty inlets) before the H solve on all %d multi-inlet paths' % nP, f)
    # the filter: streams holds exactly the non-empty Stream inlets
    # decided on the paths through one iteration of the loop over the inlets: the inlet is appended to the mixed list only after
    # `inlet.isempty()` was found false (in whatever form it is tested), and every non-empty Stream inlet is appended
    from ..pathcond import resolved_conds
    okf = False
    for n in walk_no_nested(f.node):
        if isinstance(n, ast.For) and src(n.iter) == f.params[1] and isinstance(n.target, ast.Name):
            x = n.target.id
            body_fn = ast.FunctionDef(name='_iteration', args=ast.arguments(posonlyargs=[], args=[], kwonlyargs=[], kw_defaults=[], defaults=[]),
                                      body=n.body, decorator_list=[], lineno=n.lineno, col_offset=0)
            pre = Lin()
            for st_ in f.node.body:
                if st_ is n:
                    break
                if isinstance(st_, ast.Assign) and len(st_.targets) == 1 and isinstance(st_.targets[0], ast.Name) and isinstance(st_.value, ast.Name):
                    pre.exec_stmt(st_)
            ips, _ = run_paths(body_fn, init_env=dict(pre.env))
            okf = bool(ips)
            n_app = 0
            for p in ips:
                if p.raised:
                    continue
                rc = resolved_conds(p)
                empty = implied(rc, lambda t: isinstance(t, ast.Call) and isinstance(t.func, ast.Attribute) and t.func.attr == 'isempty' and src(t.func.value) == x)
                app = [e for e in p.events if e.kind == 'call' and e.target == L + '.append' and e.value and e.value[0] == Form.atom(x)]
                if app:
                    n_app += 1
                    if empty is not False:
                        okf = False          # appended without having been found non-empty
                elif empty is False:
                    okf = False              # a non-empty inlet that is not appended
            okf = okf and n_app >= 1
    if okf:
        d2.ok('Stream.mix_from', 'the mixed list holds the non-empty stream inlets', f)
    else:
        d2.fail('Stream.mix_from', 'filter', 'the inlet list is not filtered to the non-empty streams', f, f.node)


def kind_flow(ctx, d3):
    prog = ctx.prog
    want = {('Stream', 'H'): 'solve_T_at_HP', ('Stream', 'h'): 'solve_T_at_HP', ('Stream', 'S'): 'solve_T_at_SP',
            ('MultiStream', 'H'): 'xsolve_T_at_HP', ('MultiStream', 'h'): 'xsolve_T_at_HP', ('MultiStream', 'S'): 'xsolve_T_at_SP'}
    for (cname, prop), solver in want.items():
        f = prog.method(cname, prop, setter=True, rel=ST if cname == 'Stream' else MS)
        cons = '%s.%s.setter' % (cname, prop)
        # every solver call is the value of a store to self.T
        calls = [n for n in walk_no_nested(f.node) if isinstance(n, ast.Call) and isinstance(n.func, ast.Attribute)
                 and 'solve_T_at' in n.func.attr]
        if not calls:
            d3.fail(cons, 'no-solve', 'setter does not solve for temperature', f, f.node)
            continue
        for c in calls:
            par = c._parent
            branch = 'fallback' if _in_handler(c) else 'normal'
            tgt = [src(t) for t in par.targets] if isinstance(par, ast.Assign) and par.value is c else []
            if c.func.attr != solver:
                d3.fail(cons, 'solver-kind-' + branch, '%s branch calls %s, expected %s' % (branch, c.func.attr, solver), f, par)
            elif tgt == ['self.T']:
                d3.ok(cons, '%s branch: T <- %s(...)' % (branch, c.func.attr), f, par)
            else:
                d3.fail(cons, 'T-sink-' + branch, '%s branch stores the solved temperature into %s instead of self.T' % (branch, tgt or 'nothing'), f,
                        par if isinstance(par, ast.stmt) else f.node)
        # every normal path of the setter ends with a store to T (unless the empty-stream early return)
        ps, _ = run_paths(f.node)
        for p in ps:
            if p.raised:
                continue
            early = implied(p.conds, lambda e: isinstance(e, ast.BoolOp) and 'isempty' in src(e))
            if early:
                continue
            st = [e for e in p.events if e.kind == 'store' and e.target == 'self.T']
            if not st:
                d3.fail(cons, 'no-T-store' + ('-fallback' if p.via_except else ''), 'a normal path of the setter never assigns T', f, f.node)
    # fallback summary of the three Stream setters agree: flip l<->g then solve again
    for prop in ('H', 'h', 'S'):
        f = prog.method('Stream', prop, setter=True, rel=ST)
        hs = [n for n in walk_no_nested(f.node) if isinstance(n, ast.ExceptHandler)]
        okk = False
        if len(hs) == 1:
            # paths through the handler: under "phase is 'g'" the phase stored is 'l' and vice versa; any other phase re-raises
            hfn = ast.FunctionDef(name='_handler', args=ast.arguments(posonlyargs=[], args=[], kwonlyargs=[], kw_defaults=[], defaults=[]),
                                  body=hs[0].body, decorator_list=[], lineno=hs[0].lineno, col_offset=0)
            hps, _ = run_paths(hfn, follow_except=False)
            flips = {}
            okk = True
            for p in hps:
                asserted = None
                for tmap, taken, test in p.rconds:
                    txt = tmap.get(id(test), '')
                    mm = re.fullmatch(r"\((self\.phase(?:\.lower\(\))?) == '([gl])'\)", txt)
                    if mm and taken:
                        asserted = mm.group(2)
                st_ = [e for e in p.events if e.kind == 'store' and e.target == 'self.phase']
                if p.raised:
                    if asserted is not None and not st_:
                        okk = False     # a fluid phase must be retried, not re-raised
                    continue
                if asserted is None or not st_:
                    okk = False
                    continue
                flips[asserted] = st_[-1].value.pretty().strip("'\"")
            okk = okk and flips == {'g': 'l', 'l': 'g'}
        if okk:
            d3.ok('Stream.%s.setter' % prop, 'fallback flips phase g<->l before solving again', f)
        else:
            d3.fail('Stream.%s.setter' % prop, 'fallback-flip', 'fallback does not flip the phase g<->l', f, f.node)


def _in_handler(n):
    while n is not None:
        if isinstance(n, ast.ExceptHandler):
            return True
        n = getattr(n, '_parent', None)
    return False


def separate(ctx, d4):
    prog = ctx.prog
    f = prog.method('Stream', 'separate_out', rel=ST)
    o = f.params[1]
    from ..pathcond import scenario_decide as _sd
    ps, _ = run_paths(f.node, decide=_sd(lambda t: True if (isinstance(t, ast.Name) and t.id == 'energy_balance') else None))
    n = 0
    bad = None
    for p in ps:
        if p.raised or not implied(p.conds, lambda e: src(e) == o):
            continue
        n += 1
        a = [e for e in p.events if e.kind == 'assign' and e.value == Form.atom('self.H') - Form.atom('%s.H' % o)]
        m = [e for e in p.events if e.kind == 'call' and e.target == 'self._imol.separate_out']
        s = [e for e in p.events if e.kind == 'store' and e.target == 'self.H']
        if not (a and m and s):
            bad = 'missing H difference, material subtraction or H assignment'
        elif not (p.events.index(a[0]) < p.events.index(m[0]) < p.events.index(s[0])):
            bad = 'enthalpies must be read before the material is subtracted and assigned after'
        elif s[0].value != a[0].value:
            bad = 'the enthalpy assigned is not H - other.H'
    if bad:
        d4.fail('Stream.separate_out', 'order', bad, f, f.node)
    else:
        d4.ok('Stream.separate_out', 'H_new = self.H - other.H read before _imol.separate_out, assigned after (%d paths)' % n, f)
    ps, _ = run_paths(f.node, decide=_sd(lambda t: False if (isinstance(t, ast.Name) and t.id == 'energy_balance') else None))
    if all(not [e for e in p.events if e.kind == 'store' and e.target == 'self.H'] for p in ps):
        d4.ok('Stream.separate_out', 'no enthalpy assignment when the energy balance is off', f)
    else:
        d4.fail('Stream.separate_out', 'eb-off', 'enthalpy assigned although the energy balance is off', f, f.node)


def mix_reads_before_mutation(ctx, rule):
    """The receiver may be one of the inlets (C01 says so for the material; the enthalpy clause has the same inlets).  Then every
    read of the inlets' enthalpies must happen while the receiver is still untouched: no statement that alters self (flows,
    pressure, phases) may be able to reach a statement that reads i.H over the inlets."""
    from ..cfg import CFG
    prog = ctx.prog
    f = prog.method('Stream', 'mix_from', rel=ST)
    cfg = CFG(f.node)

    def reads_H(nd):
        if nd.kind not in ('stmt', 'test', 'return'):
            return False
        for h in ([nd.ast] if nd.kind != 'test' else [nd.ast.test]):
            for x in ast.walk(h):
                if isinstance(x, (ast.ListComp, ast.GeneratorExp)) and isinstance(x.elt, ast.Attribute) and x.elt.attr in ('H', 'Hnet', 'S') \
                        and isinstance(x.elt.value, ast.Name) and x.elt.value.id == getattr(x.generators[0].target, 'id', None):
                    return True
        return False

    def mutates_self(nd):
        if nd.kind != 'stmt':
            return False
        st = nd.ast
        if isinstance(st, ast.Assign):
            for t in st.targets:
                for x in ([t] if not isinstance(t, ast.Tuple) else t.elts):
                    if isinstance(x, ast.Attribute) and src(x.value) == 'self' and x.attr in ('P', 'T', 'phases', 'phase', 'H', 'S'):
                        return True
        for x in ast.walk(st):
            if isinstance(x, ast.Call) and isinstance(x.func, ast.Attribute) and src(x.func.value) in ('self._imol', 'self.imol', 'self') \
                    and x.func.attr in ('mix_from', 'copy_like', 'copy_flow', 'empty', 'vle', 'reduce_phases'):
                return True
        return False
    reads = [nd for nd in cfg.nodes if reads_H(nd)]
    muts = [nd for nd in cfg.nodes if mutates_self(nd)]
    if not reads or not muts:
        raise AnalysisError('Stream.mix_from: enthalpy reads (%d) / receiver mutations (%d) not found' % (len(reads), len(muts)))
    bad = None
    for m_ in muts:
        reach = cfg.reachable_from(m_)
        reach_ids = {x.id for x in reach} if not isinstance(reach, set) or (reach and not isinstance(next(iter(reach)), int)) else reach
        for r in reads:
            if r.id in reach_ids:
                bad = (m_, r)
    if bad:
        rule.fail('Stream.mix_from', 'H-read-after-mutation', 'the inlets\' enthalpies are read (line %d) after the receiver has been altered (line %d): when the receiver '
                  'is one of the inlets it contributes the enthalpy of its NEW state' % (bad[1].lineno, bad[0].lineno), f, bad[1].ast)
    else:
        rule.ok('Stream.mix_from', '%d read(s) of the inlets\' enthalpies, none reachable from any of the %d statements that alter the receiver' % (len(reads), len(muts)), f, reads[0].ast)


def _restoring(d, tgt, model_prefix):
    """d == (tgt - model) * k  with k a single inverse factor"""
    if len(d.t) != 2:
        return False
    pos = neg = None
    for k, v in d.t.items():
        names = dict(k)
        if names.get(tgt) == 1 and v == 1:
            pos = tuple(sorted((a, e) for a, e in k if a != tgt))
        ms = [a for a in names if a.startswith(model_prefix)]
        if len(ms) == 1 and names[ms[0]] == 1 and v == -1:
            neg = tuple(sorted((a, e) for a, e in k if a != ms[0]))
    return pos is not None and pos == neg and len(pos) == 1 and pos[0][1] == -1


def steps(ctx, d5):
    prog = ctx.prog
    inv = Form({(('Cn', -1),): 1})
    for name, tgt in (('iter_T_at_HP', 'H'), ('xiter_T_at_HP', 'H')):
        f = prog.func(MX, name)
        ps, _ = run_paths(f.node)
        okk = bool(ps)
        for p in ps:
            r = p.ret
            if r is None:
                okk = False
                continue
            okk = okk and _restoring(r - Form.atom('T'), tgt, '%s_model(' % tgt) and r.coeff('T') == 1
        if okk:
            d5.ok(name, 'returns T + (%s - model(T))/Cn' % tgt, f)
        else:
            d5.fail(name, 'step-sign', 'step is not T + (target - model)/Cn', f, f.node)
    for name in ('iter_T_at_SP', 'xiter_T_at_SP'):
        f = prog.func(MX, name)
        from ..resolve import resolved, path_defs
        ps, _ = run_paths(f.node)
        ps = [p for p in ps if not p.raised]
        okk = len(ps) == 2        # with and without the refresh of Cn
        for p in ps:
            if p.ret_node is None or p.ret_node.value is None:
                okk = False
                continue
            r = resolved(p.ret_node.value, {k: v for k, v in path_defs(p).items() if not isinstance(v, ast.Call)}, keep=set(f.params))
            if not (isinstance(r, ast.BinOp) and isinstance(r.op, ast.Mult)):
                okk = False
                continue
            a, b = (r.left, r.right) if src(r.left) == 'T' else (r.right, r.left)
            if not (src(a) == 'T' and isinstance(b, ast.Call) and src(b.func) == 'exp' and len(b.args) == 1):
                okk = False
                continue
            okk = okk and _restoring(Lin().form(b.args[0]), 'S', 'S_model(')
        if okk:
            d5.ok(name, 'returns T*exp((S - model(T))/Cn)', f)
        else:
            d5.fail(name, 'step-sign', 'step is not T*exp((target - model)/Cn)', f, f.node)
    for name, model, it in (('solve_T_at_HP', 'self.H(phase, mol, T, P)', 'iter_T_at_HP'), ('xsolve_T_at_HP', 'self.xH(phase_mol, T, P)', 'xiter_T_at_HP'),
                            ('solve_T_at_SP', 'self.S(phase, mol, T, P)', 'iter_T_at_SP'), ('xsolve_T_at_SP', 'self.xS(phase_mol, T, P)', 'xiter_T_at_SP')):
        f = prog.method('Mixture', name, rel=MX)
        tgt = f.params[3] if not name.startswith('x') else f.params[2]
        # the residual callable: a lambda, or a local one-line function handed to the root solver by name
        lam = [n.body for n in ast.walk(f.node) if isinstance(n, ast.Lambda)]
        for n in ast.walk(f.node):
            if isinstance(n, ast.FunctionDef) and n is not f.node:
                body = [b for b in n.body if not (isinstance(b, ast.Expr) and isinstance(b.value, ast.Constant))]
                used = any(isinstance(x, ast.Call) and any(isinstance(a, ast.Name) and a.id == n.name for a in list(x.args) + [k.value for k in x.keywords])
                           for x in ast.walk(f.node))
                if len(body) == 1 and isinstance(body[0], ast.Return) and body[0].value is not None and used:
                    lam.append(body[0].value)
        okk = len(lam) == 1 and Lin().form(lam[0]) == Form.atom(model) - Form.atom(tgt)
        its = [n for n in ast.walk(f.node) if isinstance(n, ast.Name) and n.id == it]
        if okk and its:
            d5.ok('Mixture.' + name, 'fixed-point on %s, secant residual %s - %s' % (it, model, tgt), f)
        else:
            d5.fail('Mixture.' + name, 'residual', 'secant residual is not model(T) - target (or the wrong iteration function is used)', f, f.node)
        # args tuple: (target, model, ..., Cn model, cache)
        argnames = {a.id for x in ast.walk(f.node) if isinstance(x, ast.Call) and any(isinstance(y, ast.Name) and y.id == it for y in x.args)
                    for a in list(x.args) + [z.value for z in x.args if isinstance(z, ast.Starred)] if isinstance(a, ast.Name)}
        for n in walk_no_nested(f.node):
            if isinstance(n, ast.Assign) and isinstance(n.targets[0], ast.Name) and n.targets[0].id in argnames and isinstance(n.value, ast.Tuple):
                el = [src(e) for e in n.value.elts]
                mname = model.split('(')[0]
                if el[0] == tgt and el[1] == mname:
                    d5.ok('Mixture.' + name, 'iteration arguments start with (target, model) = (%s, %s)' % (tgt, mname), f, n)
                else:
                    d5.fail('Mixture.' + name, 'args', 'iteration arguments are %s' % el[:2], f, n)


def scratch(ctx, d6):
    """_load_(x)free_energy_args(...) pins composition/pressure for the EOS models; if it is not cleared on every
    exit, later H/S reads of ANY stream are evaluated with the pinned arguments."""
    prog = ctx.prog
    for name in ('solve_T_at_HP', 'xsolve_T_at_HP', 'solve_T_at_SP', 'xsolve_T_at_SP'):
        f = prog.method('Mixture', name, rel=MX)
        body = [s_ for s_ in f.node.body if not (isinstance(s_, ast.Expr) and isinstance(s_.value, ast.Constant))]
        li = [i for i, s_ in enumerate(body) if isinstance(s_, ast.Expr) and isinstance(s_.value, ast.Call) and 'free_energy_args' in src(s_.value.func)
              and src(s_.value.func).split('.')[-1].startswith('_load')]
        if not li:
            d6.fail('Mixture.' + name, 'no-load', 'the solver no longer loads the free-energy arguments', f, f.node)
            continue
        rest = body[li[0] + 1:]
        # statements that cannot raise may stand between the load and the try: a plain function definition (no decorators, no defaults
        # to evaluate), pass, a local bound to a constant
        def _inert(st_):
            if isinstance(st_, ast.FunctionDef):
                a_ = st_.args
                return not st_.decorator_list and not a_.defaults and not any(d is not None for d in a_.kw_defaults) and st_.returns is None \
                    and not any(x.annotation is not None for x in a_.args + a_.kwonlyargs)
            if isinstance(st_, ast.Pass):
                return True
            return isinstance(st_, ast.Assign) and all(isinstance(t, ast.Name) for t in st_.targets) and isinstance(st_.value, ast.Constant)
        while rest and _inert(rest[0]):
            rest = rest[1:]
        okk = len(rest) == 1 and isinstance(rest[0], ast.Try) and any(
            isinstance(x, ast.Call) and src(x.func) == 'self._free_energy_args.clear' for s_ in rest[0].finalbody for x in ast.walk(s_))
        if okk:
            d6.ok('Mixture.' + name, 'everything after the load runs inside try/finally: self._free_energy_args.clear()', f, rest[0])
        else:
            d6.fail('Mixture.' + name, 'scratch-not-released', 'after loading the free-energy arguments some exit (normal or exceptional) is not covered by a '
                    'finally-clause that clears them: later property evaluations use stale composition / pressure', f, body[li[0]])
