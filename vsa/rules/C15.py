"""C15 -- LLE / SLE rules (structural clauses)."""
from __future__ import annotations
import ast, re
from ..frontend import AnalysisError, src, walk_no_nested
from ..symx import run_paths
from ..lin import Form
from ..pathcond import implied
from .C03 import sle_rules

MANIFEST = {
    'technique': 'contradiction rule on tolerance comparisons (a difference compared with a tolerance must be two-sided), typestate rule "the remembered LLE solution is '
            'one unit", simultaneous-swap rule for the top-chemical relabelling, paired-write and clamp rules for SLE; dead-store rule in the iteration kernels; '
            'guarded-read rule for state carried from call to call; per-call-state rule for SLE._setup; exact clamp bound',
    'text': 'Decides for every input: every comparison of a difference with a cache tolerance in the reuse decision of LLE is two-sided (abs or both signs); on '
            'every path that stores partition coefficients the phase fraction, chemicals, composition and temperature they belong to are stored with them (or the '
            'coefficients are reset); the top-chemical relabelling swaps both liquids simultaneously; SLE writes only the solute at paired indices summing to the '
            'solute total, clamps the solubility into [0, x_max] and sends a pure solute entirely to one phase by comparing T with Tm; LLE.__call__ reads a field '
            'it also writes only inside a validity test, under a branch guarded by one, or after writing it in the same call. Every field SLE._setup computes from '
            "this call's solute or flows is stored on every normal path; the SLE clamp bound is exactly N/(A+N). Nothing computed from one liquid before the top-"
            'chemical relabelling is read after it unless it is swapped along; the equilibrium chemicals and their flows are gathered at full-tuple positions from '
            'full-length sequences only; the position of the top chemical is never tested by truthiness. Equal activities, scaling and numerical agreement of '
            'cached and uncached results are not decided.',
}

LLEF = 'thermosteam/equilibrium/lle.py'
SLEF = 'thermosteam/equilibrium/sle.py'
UNIT = ('self._K', 'self._phi', 'self._lle_chemicals', 'self._z_mol', 'self._T')


def run(ctx):
    prog = ctx.prog
    ctx.decided = [
        'D1 cache-validity comparisons against tolerances are two-sided',
        'D2 the remembered solution (K, phi, chemicals, z, T) is stored as one unit or reset',
        'D3 the top-chemical relabelling swaps both liquids simultaneously',
        'D4 SLE: only the solute is written, paired with the solute total; solubility clamped into [0, x_max]',
        'D5 pure-solute branch compares T with Tm and writes all-liquid or all-solid',
        'D6 no update of the LLE iterate is overwritten before it is read (dead store = the state keeps its initial/remembered value)',
        'D9 the liquid-liquid / solid-liquid chemicals and their flows are gathered at the positions CompiledChemicals hands out (full-tuple positions) from '
        'full-length sequences only, never from a sub-sequence (lle_chemicals, ...) or from something already gathered',
        'D8 every field of SLE that _setup computes from the solute named in this call or from the current flows (the pure-solute discriminator, the solute\'s '
        'position among the equilibrium chemicals, the solute total) is stored on every normal path of _setup, not only when the set of non-zero chemicals changed',
        'D7 LLE.__call__ reads a field it also writes (state carried from call to call) only inside a validity test, under a branch '
        'guarded by such a test, or after writing it in the same call',
    ]
    ctx.not_decided = ['equality of activities in both liquids', 'proportionality under feed scaling', 'numerical agreement of cached vs uncached splits']
    d1 = ctx.rule('D1', 'two-sided tolerance tests', floor=2)
    d2 = ctx.rule('D2', 'remembered solution is a unit', floor=3)
    d3 = ctx.rule('D3', 'simultaneous swap', floor=2)
    d4 = ctx.rule('D4', 'SLE paired writes and clamp', floor=5)
    d5 = ctx.rule('D5', 'pure solute: T vs Tm', floor=2)
    d6 = ctx.rule('D6', 'no overwritten (dead) update in the LLE iteration kernels', floor=6)
    dead_stores(ctx, d6)
    lle = prog.cls('LLE', LLEF)
    f = lle.methods['__call__']
    d7 = ctx.rule('D7', 'state remembered from an earlier call is read only under a validity test', floor=6)
    history_reads(ctx, d7, f)
    d8 = ctx.rule('D8', 'SLE._setup: state that depends on this call\'s solute or flows is stored on every path', floor=3)
    sle_per_call_state(ctx, d8)
    d9 = ctx.rule('D9', 'positions in the full chemical tuple never subscript a sub-sequence of it', floor=2)
    from ..generic import index_space
    index_space(prog, d9, {LLEF, SLEF})

    # ---- D1
    n = 0
    for node in walk_no_nested(f.node):
        if isinstance(node, ast.Compare) and len(node.ops) == 1 and isinstance(node.ops[0], (ast.Lt, ast.LtE)) \
                and 'tolerance' in src(node.comparators[0]):
            n += 1
            left = node.left
            two_sided = False
            reduced = False
            if isinstance(left, ast.Call) and src(left.func) in ('abs', 'np.abs', 'np.absolute', 'np.fabs'):
                two_sided = True
                # the difference must be taken element by element: a reduction (sum/mean) inside abs lets
                # positive and negative differences cancel (mole fractions always sum to the same total)
                for x in ast.walk(left.args[0]) if left.args else []:
                    if isinstance(x, ast.Call) and (src(x.func).split('.')[-1] in ('sum', 'mean', 'dot', 'prod')):
                        reduced = True
            if isinstance(left, ast.BinOp) and isinstance(left.op, ast.Pow):
                two_sided = True
            what = src(left)
            tag = 'T' if re.search(r'\b_T\b|\bT\b', what) and 'z_mol' not in what else 'z'
            if two_sided and reduced:
                d1.fail('LLE.__call__', 'reduced-before-abs-' + tag,
                        'the reuse test "%s" reduces the differences (sum/mean) before taking the absolute value: differences of opposite sign cancel, '
                        'for normalised compositions the test is always true' % src(node), f, node)
            elif two_sided:
                d1.ok('LLE.__call__', 'reuse test |%s| < %s is two-sided' % (what, src(node.comparators[0])), f, node)
            else:
                d1.fail('LLE.__call__', 'one-sided-' + tag,
                        'the reuse test "%s" is one-sided: a large negative difference (e.g. a much lower temperature than the remembered one) passes it'
                        % src(node), f, node)
    ctx.anchor(n >= 2, 'LLE.__call__: tolerance comparisons not found')
    # both tests are part of the use_cache conjunction together with the chemicals
    # decided per path: every path that takes the remembered K has established the caller's flag AND the same chemicals AND the
    # temperature test AND the composition test (in whatever statement form the conjunction is written)
    from ..pathcond import resolved_conds, implied as _imp
    cps, _ = run_paths(f.node, max_paths=6000, follow_except=False)
    n_reuse = 0
    all4 = True
    flagp = 'use_cache' if 'use_cache' in f.params else None
    first = None
    for p in cps:
        uses = [e for e in p.events if e.kind == 'assign' and isinstance(e.stmt, ast.Assign) and src(e.stmt.value) == 'self._K']
        if not uses:
            continue
        n_reuse += 1
        first = first or uses[0].stmt
        rc = resolved_conds(p, keep=set(f.params) - {flagp})      # the flag parameter may be re-bound to the conjunction itself
        facts = [
            _imp(rc, lambda t: isinstance(t, ast.Name) and t.id == flagp),
            _imp(rc, lambda t: isinstance(t, ast.Compare) and len(t.ops) == 1 and isinstance(t.ops[0], ast.Eq) and 'self._lle_chemicals' in (src(t.left), src(t.comparators[0]))),
            _imp(rc, lambda t: isinstance(t, ast.Compare) and len(t.ops) == 1 and isinstance(t.ops[0], (ast.Lt, ast.LtE)) and 'temperature_cache_tolerance' in src(t.comparators[0])),
            _imp(rc, lambda t: isinstance(t, ast.Call) and 'composition_cache_tolerance' in src(t) and 'temperature_cache_tolerance' not in src(t)),
        ]
        if not all(x is True for x in facts):
            all4 = False
    if n_reuse and all4:
        d1.ok('LLE.__call__', 'reuse requires the flag AND same chemicals AND temperature AND composition tests (%d reuse paths)' % n_reuse, f, first)
    else:
        d1.fail('LLE.__call__', 'reuse-conjunction', 'the reuse decision is not the conjunction of flag, chemicals, temperature and composition tests', f, f.node)

    # ---- D2
    ps, trunc = run_paths(f.node, max_paths=20000, follow_except=True)
    n_unit = 0
    bad = None
    for p in ps:
        if p.raised:
            continue
        st = {}
        for e in p.events:
            if e.kind == 'store' and e.target in UNIT:
                st[e.target] = e
        k = st.get('self._K')
        if k is None:
            continue
        if src(k.stmt.value) == 'None':
            if 'self._phi' not in st:
                bad = ('reset-partial', 'K is reset without phi', k.stmt)
            continue
        n_unit += 1
        miss = [u for u in UNIT if u not in st]
        if miss:
            bad = ('unit-partial', 'partition coefficients are stored without %s' % ', '.join(miss), k.stmt)
        else:
            zt = st['self._z_mol'].value.pretty()
            ct = st['self._lle_chemicals'].value.pretty()
            if st['self._T'].value != Form.atom(f.params[1]) or not re.match(r'^\(self\.get_liquid_mol_data\(\)\)\[0\]\*\(self\.get_liquid_mol_data\(\)\)\[0\]\.sum\(\)\*\*-1$', zt) \
                    or ct != '(self.get_liquid_mol_data())[2]':
                bad = ('unit-values', 'the remembered T / composition / chemicals are not those of this call', st['self._T'].stmt)
    if bad:
        d2.fail('LLE.__call__', bad[0], bad[1], f, bad[2])
    elif n_unit:
        d2.ok('LLE.__call__', 'on all %d paths that store K, phi / chemicals / z / T of the same call are stored too' % n_unit, f)
    else:
        d2.fail('LLE.__call__', 'no-unit', 'no path stores the remembered solution', f, f.node)
    init = lle.methods['__init__']
    t = ' '.join(ast.unparse(init.node).split())
    if 'self._lle_chemicals = None' in t and 'self._K = None' in t:
        d2.ok('LLE.__init__', 'a new solver remembers nothing (chemicals and K are None)', init)
    else:
        d2.fail('LLE.__init__', 'init', 'a new solver does not start without a remembered solution', init, init.node)
    sv = lle.methods['solve_lle_liquid_mol']
    # on every path that takes the remembered K as the starting guess, `self._K is not None` has been established (in either polarity)
    from ..pathcond import resolved_conds, implied as _imp
    sps, _ = run_paths(sv.node, max_paths=4000, follow_except=False)
    g = []
    unguarded = None
    for p in sps:
        uses = [e for e in p.events if e.kind == 'assign' and isinstance(e.stmt, ast.Assign) and src(e.stmt.value) == 'self._K']
        if not uses:
            continue
        rc = resolved_conds(p, keep=set(sv.params))
        a = _imp(rc, lambda t: isinstance(t, ast.Compare) and len(t.ops) == 1 and isinstance(t.ops[0], ast.IsNot) and src(t.left) == 'self._K'
                 and src(t.comparators[0]) == 'None')
        b = _imp(rc, lambda t: isinstance(t, ast.Compare) and len(t.ops) == 1 and isinstance(t.ops[0], ast.Is) and src(t.left) == 'self._K'
                 and src(t.comparators[0]) == 'None')
        if a is True or b is False:
            g.append(uses[0].stmt)
        else:
            unguarded = uses[0].stmt
    if g and unguarded is None:
        d2.ok('LLE.solve_lle_liquid_mol', 'the remembered K is used as a guess only when present (%d paths)' % len(g), sv, g[0])
    else:
        d2.fail('LLE.solve_lle_liquid_mol', 'guess', 'remembered K used without testing that it exists', sv, sv.node)

    # ---- D3
    swaps = []
    for node in walk_no_nested(f.node):
        if isinstance(node, ast.Assign) and _inside_top(node):
            tg = node.targets[0]
            # a, b = b, a   (or a longer permutation that carries quantities derived from the two liquids along: a, b, Fa, Fb = b, a, Fb, Fa)
            if isinstance(tg, ast.Tuple) and isinstance(node.value, ast.Tuple) and len(tg.elts) == len(node.value.elts) >= 2 \
                    and all(isinstance(x, ast.Name) for x in tg.elts + node.value.elts) \
                    and sorted(x.id for x in tg.elts) == sorted(x.id for x in node.value.elts) \
                    and all(a_.id != b_.id for a_, b_ in zip(tg.elts, node.value.elts)):
                swaps.append(node)
    pair = {x.id for x in swaps[0].targets[0].elts} if swaps else set()
    # the pair swapped must be the two liquids that are finally written to the two phase rows
    final = [n for n in walk_no_nested(f.node) if isinstance(n, ast.Assign) and isinstance(n.targets[0], ast.Subscript)
             and re.match(r"^imol\['[lL]'\]", src(n.targets[0]).replace('"', "'")) or False]
    written = set()
    for n in walk_no_nested(f.node):
        if isinstance(n, ast.Assign) and isinstance(n.targets[0], ast.Subscript) and isinstance(n.targets[0].value, ast.Subscript) \
                and isinstance(n.targets[0].value.slice, ast.Constant) and n.targets[0].value.slice.value in ('l', 'L'):
            written |= {x.id for x in ast.walk(n.value) if isinstance(x, ast.Name)}
    for node in swaps:
        stale = _stale_after_relabel(f, node)
        if stale:
            v, dfn, use = stale
            d3.fail('LLE.__call__', 'relabel-incomplete', '%s is computed from %s before the two liquids are relabelled (%s) and read after it (%s): it describes '
                    'the other liquid on the relabelled path, so what is remembered / written no longer matches the split' % (
                        v, '/'.join(sorted({x.id for x in node.targets[0].elts})), src(dfn), src(use)), f, use)
        else:
            d3.ok('LLE.__call__', 'relabelling is a simultaneous swap of the two liquids (%s); nothing derived from one of them before the swap is read after it'
                  % src(node), f, node)
    for node in walk_no_nested(f.node):
        if isinstance(node, ast.Assign) and _inside_top(node) and node not in swaps:
            names = {x.id for x in ast.walk(node.targets[0]) if isinstance(x, ast.Name)}
            if names & pair:
                d3.fail('LLE.__call__', 'partial-swap', 'inside the top-chemical block only one liquid is re-assigned: %s' % src(node), f, node)
    if len(swaps) < 2 or len(pair & written) < 2:
        d3.fail('LLE.__call__', 'no-swap', 'top-chemical relabelling (simultaneous swap of the two liquids that are written to l and L) not found', f, f.node)
    position_truthiness(ctx, d3, f)
    # the swap is decided by comparing the top chemical's mass fraction in the two liquids
    guards = [x for x in walk_no_nested(f.node) if isinstance(x, ast.If) and isinstance(x.test, ast.Compare) and isinstance(x.test.ops[0], ast.Lt)
              and any(b in swaps for b in x.body)]
    if guards:
        d3.ok('LLE.__call__', 'swap happens when the top chemical is leaner in L than in l', f, guards[0])

    # ---- D4 / D5
    sle_rules(ctx, d4)
    sle = prog.cls('SLE', SLEF)
    c = sle.methods['__call__']
    ps, _ = run_paths(prog.normal_form(c), max_paths=20000, follow_except=False)
    seen = {}
    from ..pathcond import resolved_conds as _rcs, implied2 as _imp2
    Tp = 'T'

    def _cmp(t, ops, a, b):
        return isinstance(t, ast.Compare) and len(t.ops) == 1 and isinstance(t.ops[0], ops) and src(t.left) == a and src(t.comparators[0]) == b
    for p in ps:
        if p.raised:
            continue
        rc = _rcs(p, keep=set(c.params))
        pure = implied(rc, lambda e: src(e) == 'self._chemical')
        tg = _imp2(rc, lambda e: _cmp(e, ast.IsNot, Tp, 'None'), lambda e: _cmp(e, ast.Is, Tp, 'None'))
        hot = _imp2(rc, lambda e: _cmp(e, ast.Gt, Tp, 'self._chemical.Tm') or _cmp(e, ast.Lt, 'self._chemical.Tm', Tp),
                    lambda e: _cmp(e, ast.LtE, Tp, 'self._chemical.Tm') or _cmp(e, ast.GtE, 'self._chemical.Tm', Tp))
        if pure and tg and hot is not None:
            liq = [e for e in p.events if e.kind == 'store' and e.target.startswith('self._liquid_mol[')]
            sol = [e for e in p.events if e.kind == 'store' and e.target.startswith('self._solid_mol[')]
            if liq and sol:
                if hot:
                    seen['hot'] = liq[-1].value == Form.atom('self._mol_solute') and sol[-1].value.is_zero()
                else:
                    seen['cold'] = sol[-1].value == Form.atom('self._mol_solute') and liq[-1].value.is_zero()
    for k, desc in (('hot', 'T > Tm: all liquid'), ('cold', 'T <= Tm: all solid')):
        if seen.get(k):
            d5.ok('SLE.__call__', 'pure solute, %s' % desc, c)
        else:
            d5.fail('SLE.__call__', 'pure-' + k, 'pure solute branch does not put everything in the %s phase' % ('liquid' if k == 'hot' else 'solid'), c, c.node)
    tm = [x for x in walk_no_nested(c.node) if isinstance(x, ast.Assign) and src(x.targets[0]) == 'Tm']
    if tm and src(tm[0].value) == 'self._chemical.Tm':
        d5.ok('SLE.__call__', 'Tm is the melting point of the pure solute', c, tm[0])
    else:
        d5.fail('SLE.__call__', 'Tm-source', 'Tm is not the melting point of the solute', c, c.node)


def dead_stores(ctx, d6):
    """A store into a slice that is overwritten by the next statement before being read is a
    contradiction in the code itself (one of the two targets is wrong): the iteration state it was
    meant to update keeps its initial value, i.e. the result depends on the remembered/initial guess."""
    prog = ctx.prog
    m = prog.module(LLEF)
    fns = list(m.functions.values()) + [f for f in prog.all_functions() if f.module is m and f.cls is not None]
    for f in fns:
        for blk in _blocks(f.node):
            for a, b in zip(blk, blk[1:]):
                if not (isinstance(a, ast.Assign) and isinstance(b, ast.Assign)):
                    continue
                ta = [t for t in a.targets if isinstance(t, ast.Subscript)]
                tb = [t for t in b.targets if isinstance(t, ast.Subscript)]
                if not ta or not tb:
                    continue
                for x in ta:
                    for y in tb:
                        if src(x) == src(y):
                            reads = [n for n in ast.walk(b.value) if isinstance(n, ast.Subscript) and src(n) == src(x)]
                            reads += [n for n in ast.walk(b.value) if isinstance(n, ast.Name) and n.id == src(x.value)]
                            if not reads:
                                d6.fail(f.qualname, 'dead-store-[%s]' % src(x.slice).replace(' ', ''),
                                        '%s is written (%s) and immediately overwritten (%s) without being read: one of the two targets is wrong and '
                                        'the part of the iterate meant to be updated keeps its starting value' % (src(x), src(a), src(b)), f, a)
        # count stores checked
        n = sum(1 for x in walk_no_nested(f.node) if isinstance(x, ast.Subscript) and isinstance(x.ctx, ast.Store))
        if n:
            d6.ok(f.qualname, '%d subscript stores examined for overwrite-before-read' % n, f)


def _blocks(fn):
    out = []
    for n in ast.walk(fn):
        for fld in ('body', 'orelse', 'finalbody'):
            b = getattr(n, fld, None)
            if isinstance(b, list) and b and isinstance(b[0], ast.stmt):
                out.append(b)
    return out


def position_truthiness(ctx, d3, f):
    """The top-chemical lookup yields a position among the liquid-liquid chemicals, or nothing.  Position 0 is a valid answer, so "found"
    must be tested against None (or by exception), never by truthiness.  Instances: every name of LLE.__call__ (normal form, helpers
    spliced in) that is bound to an element of a dict whose values are the counter of an enumerate() -- and is later used as a subscript."""
    fn = ctx.prog.normal_form(f)
    posdicts = set()
    for n in walk_no_nested(fn):
        if isinstance(n, ast.Assign) and len(n.targets) == 1 and isinstance(n.targets[0], ast.Name) and isinstance(n.value, ast.DictComp) \
                and len(n.value.generators) == 1:
            g = n.value.generators[0]
            if isinstance(g.iter, ast.Call) and src(g.iter.func) == 'enumerate' and isinstance(g.target, ast.Tuple) and len(g.target.elts) == 2 \
                    and isinstance(g.target.elts[0], ast.Name) and isinstance(n.value.value, ast.Name) and n.value.value.id == g.target.elts[0].id:
                posdicts.add(n.targets[0].id)
    positions = set()
    for n in walk_no_nested(fn):
        if isinstance(n, ast.Assign) and len(n.targets) == 1 and isinstance(n.targets[0], ast.Name):
            v = n.value
            if isinstance(v, ast.Subscript) and isinstance(v.value, ast.Name) and v.value.id in posdicts:
                positions.add(n.targets[0].id)
            if isinstance(v, ast.Call) and isinstance(v.func, ast.Attribute) and v.func.attr == 'get' and isinstance(v.func.value, ast.Name) \
                    and v.func.value.id in posdicts:
                positions.add(n.targets[0].id)
    used_as_index = {x.slice.id for x in ast.walk(fn) if isinstance(x, ast.Subscript) and isinstance(x.slice, ast.Name)}
    n_inst = 0
    for name in sorted(positions & used_as_index):
        bad = None

        def truthy_uses(t):
            if isinstance(t, ast.Name) and t.id == name:
                return [t]
            if isinstance(t, ast.UnaryOp) and isinstance(t.op, ast.Not):
                return truthy_uses(t.operand)
            if isinstance(t, ast.BoolOp):
                return [x for v in t.values for x in truthy_uses(v)]
            return []
        tests = [x.test for x in ast.walk(fn) if isinstance(x, (ast.If, ast.While, ast.IfExp))]
        for t in tests:
            if truthy_uses(t):
                bad = t
        n_inst += 1
        if bad is None:
            d3.ok('LLE.__call__', 'the position %s of the top chemical is never tested by truthiness (position 0 is a valid answer)' % name, f)
        else:
            d3.fail('LLE.__call__', 'position-tested-by-truthiness', 'the position %s of the top chemical (an element of a dict of enumerate() counters, or None) is tested '
                    'by truthiness in `%s`: position 0 -- the first liquid-liquid chemical -- counts as "not found" and the relabelling is skipped' % (name, src(bad)), f, bad)
    return n_inst


def _stale_after_relabel(f, swap):
    """a, b = b, a  re-labels the two liquids.  A local computed before the swap from a or b (and not symmetric in them) describes the
    OTHER liquid once the swap has happened; reading it after the swap (unless it is re-computed or swapped too) mixes the two.
    (v, defining statement, first use after the swap) or None.  Decided on the flow graph with reaching definitions."""
    from ..cfg import CFG, header_exprs
    cfg = CFG(f.node)
    n_swap = cfg.node_of(swap)
    if n_swap is None:
        return None
    swapped = {x.id for x in swap.targets[0].elts}

    def stores(nd, name):
        for h in header_exprs(nd):
            if isinstance(h, (ast.FunctionDef, ast.ClassDef, ast.AsyncFunctionDef)):
                continue
            for x in ast.walk(h):
                if isinstance(x, ast.Name) and x.id == name and isinstance(x.ctx, (ast.Store, ast.Del)):
                    return True
        return False

    def loads(nd):
        out = {}
        for h in header_exprs(nd):
            if isinstance(h, (ast.FunctionDef, ast.ClassDef, ast.AsyncFunctionDef)):
                continue
            for x in ast.walk(h):
                if isinstance(x, ast.Name) and isinstance(x.ctx, ast.Load):
                    out.setdefault(x.id, x)
        return out

    def symmetric(expr):
        a, b = sorted(swapped)[:2] if len(swapped) == 2 else (None, None)
        if a is None:
            return False
        ren = {a: b, b: a}

        class R(ast.NodeTransformer):
            def visit_Name(self, n_):
                return ast.copy_location(ast.Name(id=ren.get(n_.id, n_.id), ctx=n_.ctx), n_)
        import copy
        other = R().visit(copy.deepcopy(expr))
        from ..lin import Lin
        try:
            l1, l2 = Lin({}), Lin({})
            return l1.form(expr) == l2.form(other)
        except Exception:
            return False
    # definitions that reach the swap: (name, node) such that the swap is reachable from the node without another store of the name
    derived = {}          # name -> defining statement
    changed = True
    plain = [nd for nd in cfg.nodes if nd.kind == 'stmt' and isinstance(nd.ast, (ast.Assign, ast.AugAssign, ast.AnnAssign))]
    while changed:
        changed = False
        for nd in plain:
            if nd is n_swap:
                continue
            tnames = {x.id for t in (nd.ast.targets if isinstance(nd.ast, ast.Assign) else [nd.ast.target]) for x in ast.walk(t)
                      if isinstance(x, ast.Name) and isinstance(x.ctx, ast.Store)}
            tnames -= swapped
            if not tnames or nd.ast.value is None:
                continue
            used = {x.id for x in ast.walk(nd.ast.value) if isinstance(x, ast.Name) and isinstance(x.ctx, ast.Load)}
            if not (used & (swapped | set(derived))):
                continue
            if used & swapped and not (used & set(derived)) and symmetric(nd.ast.value):
                continue
            for v in tnames:
                if v in derived:
                    continue
                if n_swap.id in cfg.reachable_from(nd, blocked=lambda m, v=v: m is not n_swap and stores(m, v)):
                    derived[v] = nd.ast
                    changed = True
    for v, dfn in sorted(derived.items()):
        if stores(n_swap, v):
            continue           # swapped (re-bound) in the same statement
        for mid in sorted(cfg.reachable_from(n_swap, blocked=lambda m, v=v: stores(m, v) and v not in loads(m))):
            m = cfg.nodes[mid]
            ld = loads(m)
            if v in ld:
                return v, dfn, ld[v]
    return None


def _inside_top(node):
    n = node
    while n is not None:
        if isinstance(n, ast.If) and src(n.test) == 'top_chemical':
            return True
        n = getattr(n, '_parent', None)
    return False


def history_reads(ctx, rule, f):
    """Fields that LLE.__call__ itself writes survive to the next call on the same object.  The result of a call may
    depend on them only through a validated reuse: the read is (i) part of a test (or of the definition of a flag that
    is tested), (ii) dominated by the true-branch of a test whose definition compares such a field with this call's
    inputs, or (iii) preceded on every path by a write in this call.  Any other read makes the result depend on what
    the object was asked before (e.g. a lookup table built for the chemicals of the first call)."""
    from ..cfg import CFG, header_exprs
    fn = f.node
    fields = set()
    for n in walk_no_nested(fn):
        if isinstance(n, (ast.Assign, ast.AugAssign)):
            for t in (n.targets if isinstance(n, ast.Assign) else [n.target]):
                for x in ([t] if not isinstance(t, ast.Tuple) else t.elts):
                    if isinstance(x, ast.Attribute) and src(x.value) == 'self':
                        fields.add(x.attr)
    if len(fields) < 4:
        raise AnalysisError('LLE.__call__: expected >= 4 fields carried from call to call, found %s' % sorted(fields))
    # flags: names whose definition contains a comparison of a carried field, and that are used as a test
    def compares_field(e):
        for x in ast.walk(e):
            if isinstance(x, ast.Compare):
                for y in ast.walk(x):
                    if isinstance(y, ast.Attribute) and src(y.value) == 'self' and y.attr in fields:
                        return True
        return False
    flagdefs = {}
    for n in walk_no_nested(fn):
        if isinstance(n, ast.Assign) and len(n.targets) == 1 and isinstance(n.targets[0], ast.Name) and compares_field(n.value):
            flagdefs.setdefault(n.targets[0].id, []).append(n)
    # a flag is validated only if EVERY assignment to it has that form
    for n in walk_no_nested(fn):
        if isinstance(n, ast.Assign):
            for t in n.targets:
                if isinstance(t, ast.Name) and t.id in flagdefs and n not in flagdefs[t.id]:
                    flagdefs.pop(t.id)
    cfg = CFG(fn)

    def stmt_of(x):
        while not isinstance(x, ast.stmt):
            x = x._parent
        return x

    def in_test(x):
        """x lies inside the test of an if/while/conditional expression, or in the definition of a validated flag"""
        y = x
        while not isinstance(y, ast.stmt):
            par = y._parent
            if isinstance(par, (ast.If, ast.While, ast.IfExp)) and par.test is y:
                return True
            y = par
        return isinstance(y, ast.Assign) and len(y.targets) == 1 and isinstance(y.targets[0], ast.Name) and y.targets[0].id in flagdefs

    def guarded(x):
        """some enclosing if-body is entered only when a validity test holds"""
        y = x
        while y is not fn:
            par = y._parent
            if isinstance(par, ast.If) and y in par.body:
                t = par.test
                if compares_field(t) or (isinstance(t, ast.Name) and t.id in flagdefs):
                    return src(t)
            y = par
        return None
    for n in walk_no_nested(fn):
        if not (isinstance(n, ast.Attribute) and isinstance(n.ctx, ast.Load) and src(n.value) == 'self' and n.attr in fields):
            continue
        st = stmt_of(n)
        cons = 'LLE.__call__'
        if in_test(n):
            rule.ok(cons, 'self.%s is read inside a validity test' % n.attr, f, st)
            continue
        g = guarded(n)
        if g:
            rule.ok(cons, 'self.%s is read under the validity test %s' % (n.attr, g), f, st)
            continue
        node = cfg.node_of(st)

        def writes(nd, a=n.attr):
            if nd.kind != 'stmt' or nd is node:
                return False
            s_ = nd.ast
            return isinstance(s_, (ast.Assign, ast.AugAssign)) and any(
                isinstance(x, ast.Attribute) and src(x.value) == 'self' and x.attr == a
                for t in (s_.targets if isinstance(s_, ast.Assign) else [s_.target]) for x in ([t] if not isinstance(t, ast.Tuple) else t.elts))
        okk, wit = cfg.must_pass(cfg.entry, writes, goal=node)
        if okk:
            rule.ok(cons, 'self.%s is read after being written in this call on every path' % n.attr, f, st)
        else:
            rule.fail(cons, 'unvalidated-history-read-%s' % n.attr,
                      'self.%s is written by __call__ (so it survives to the next call) and is read here without any validity test and without a write '
                      'earlier in this call: the result depends on what this object was asked before' % n.attr, f, st)


def sle_per_call_state(ctx, rule):
    """SLE.__call__ stores the solute of THIS call in a field and calls _setup, which memoises the equilibrium objects by the
    set of non-zero chemicals.  Whatever _setup derives from the solute (or from the amounts) is not a function of that key:
    a field with such a store must be (re)stored on every normal path, or a later call reads the value of an earlier one."""
    from ..cfg import CFG
    prog = ctx.prog
    sle = prog.cls('SLE', SLEF)
    f = sle.methods.get('_setup')
    call = sle.methods.get('__call__')
    if f is None or call is None:
        raise AnalysisError('SLE._setup / __call__ not found')
    # per-call inputs: fields that __call__ assigns from its own parameters before calling _setup
    params = set(call.params[1:])
    inputs = set()
    for n in walk_no_nested(call.node):
        if isinstance(n, ast.Assign) and any(isinstance(x, ast.Name) and x.id in params for x in ast.walk(n.value)):
            for t in n.targets:
                if isinstance(t, ast.Attribute) and src(t.value) == 'self':
                    inputs.add(src(t))
    if not inputs:
        raise AnalysisError('SLE.__call__: no per-call input fields found')
    fn = f.node
    imols = {'self._imol'} | {t.id for n in walk_no_nested(fn) if isinstance(n, ast.Assign) and src(n.value) == 'self._imol' for t in n.targets if isinstance(t, ast.Name)}
    tainted = set()

    def is_tainted(e):
        if isinstance(e, ast.Call) and isinstance(e.func, ast.Attribute) and e.func.attr in ('nonzero_keys', 'any', 'keys'):
            return False
        if isinstance(e, ast.Attribute) and src(e) in inputs:
            return True
        if isinstance(e, ast.Subscript) and src(e.value) in imols:
            return True
        if isinstance(e, ast.Name):
            return e.id in tainted
        if isinstance(e, ast.Compare):
            return False
        return any(is_tainted(c) for c in ast.iter_child_nodes(e))
    changed = True
    while changed:
        changed = False
        for n in walk_no_nested(fn):
            if isinstance(n, ast.Assign) and is_tainted(n.value):
                for t in n.targets:
                    for x in ([t] if isinstance(t, ast.Name) else (t.elts if isinstance(t, ast.Tuple) else [])):
                        if isinstance(x, ast.Name) and x.id not in tainted:
                            tainted.add(x.id)
                            changed = True
    stores = {}
    per_call = set()
    for n in walk_no_nested(fn):
        if isinstance(n, ast.Assign):
            for t in n.targets:
                if isinstance(t, ast.Attribute) and src(t.value) == 'self':
                    stores.setdefault(t.attr, []).append(n)
                    if is_tainted(n.value):
                        per_call.add(t.attr)
    cfg = CFG(fn)
    for fld in sorted(per_call):
        nodes = {id(cfg.node_of(n)) for n in stores[fld]}
        okk, wit = cfg.must_pass(cfg.entry, lambda nd: id(nd) in nodes)
        if okk:
            rule.ok('SLE._setup', 'self.%s (depends on this call\'s solute / flows) is stored on every normal path' % fld, f, stores[fld][0])
        else:
            rule.fail('SLE._setup', 'stale-per-call-' + fld, 'self.%s is computed from this call\'s solute / flows but some normal path of _setup leaves it untouched: '
                      'the next call on the same object reads the value of an earlier call' % fld, f, stores[fld][0])
    ctx.anchor(len(per_call) >= 3, 'SLE._setup: expected >= 3 per-call fields, found %s' % sorted(per_call))
