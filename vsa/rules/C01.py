"""C01 -- mixing, splitting, separating conserve every chemical (structural clauses)."""
from __future__ import annotations
import ast
import re
from ..frontend import AnalysisError, src, walk_no_nested
from ..symx import run_paths
from ..lin import Form, Lin
from ..effects import Effects
from ..generic import stale_alias, guarded_refill_needs_empty
from ..pathcond import implied, rimplied

MANIFEST = {
    'technique': 'symbolic linear forms (split closure, scaling), per-path accumulator accounting in the indexer mix_from loops, alias-guard and stale-alias dataflow '
            'over the CFG, index-identity rule for copy-with-removal; must-follow rule on every re-binding of the flow container (per-phase views dropped or '
            're-attached); block-transfer alignment rule; memo-owner rule',
    'text': 'Decides for every input: split_to stores mol*split and an expression that normalises to mol-mol*split (same-package and CAS-remapped stores); every '
            'scaling operator multiplies the whole molar data exactly once (on a copy for the binary forms); in both indexer mix_from implementations each inlet is'
            ' appended exactly once to exactly one accumulator family chosen by the package test, as flow data, and each accumulator is consumed once; containers '
            'are cleared only under an identity test against the operands; no local alias of phase/data containers is used after a call that re-binds them; copy-'
            "with-removal zeroes the same index it copied; separate_out subtracts exactly the operand (both indexer classes; across packages the operand's "
            "positions are turned into CAS numbers through the operand's own table); whenever a stream re-binds its flow container the remembered per-phase sub-"
            'streams, through which flow is moved with copy_flow/split_to, are dropped or re-attached. Blocks of rows move between multi-phase streams only between'
            ' equal phase tuples or after the source rows were lined up by label (copy_like, copy_flow); the index_overlap memo is kept on the package whose table '
            'its positions come from. Numerical equality and run-time CAS tables are not decided.',
}

ST = 'thermosteam/_stream.py'
MS = 'thermosteam/_multi_stream.py'
IX = 'thermosteam/indexer.py'
SP = 'thermosteam/base/sparse.py'

ALIAS_FIELDS = {'_phases', '_phase_indexer', 'data', '_imol', '_index_cache', '_data_cache'}


def zip_nonzero_hook(st, state):
    """A, B = zip(*[(i, j) for i, j in zip(K, V) if j])   =>  B is V restricted to its
    non-zero entries (same sum), A the matching keys."""
    if not (isinstance(st, ast.Assign) and len(st.targets) == 1 and isinstance(st.targets[0], ast.Tuple)
            and len(st.targets[0].elts) == 2 and isinstance(st.value, ast.Call) and src(st.value.func) == 'zip'
            and len(st.value.args) == 1 and isinstance(st.value.args[0], ast.Starred)):
        return None
    lc = st.value.args[0].value
    if isinstance(lc, ast.Name):
        from ..resolve import path_defs
        lc = path_defs(state).get(lc.id)        # the list of pairs built into a local first
    if not isinstance(lc, ast.ListComp):
        return None
    if len(lc.generators) != 1:
        return None
    g = lc.generators[0]
    if not (isinstance(lc.elt, ast.Tuple) and len(lc.elt.elts) == 2 and isinstance(g.target, ast.Tuple)
            and [src(e) for e in lc.elt.elts] == [src(e) for e in g.target.elts]
            and isinstance(g.iter, ast.Call) and src(g.iter.func) == 'zip' and len(g.iter.args) == 2
            and len(g.ifs) == 1 and src(g.ifs[0]) == src(g.target.elts[1])):
        return None
    K, V = g.iter.args
    lin = state.lin
    return [(st.targets[0].elts[0], Form.atom('keys_nz(%s)' % lin.text(K))),
            (st.targets[0].elts[1], lin.form(V))]


def run(ctx):
    prog = ctx.prog
    eff = Effects(prog)
    ctx.decided = [
        'D1 split_to closure (split*mol and mol-split*mol), MultiStream.split_to covers every phase, scaling operators act once on the whole data',
        'D2 each inlet is counted once in ChemicalIndexer.mix_from / MaterialIndexer.mix_from (one accumulator family per inlet, flow data appended, accumulators consumed once)',
        'D3 clear-then-refill containers are guarded by an identity test against the operands',
        'D4 no stale local alias of phase/data containers after a re-binding call',
        'D5 copy-with-removal zeroes exactly the index it copied',
        'D6 separate_out subtracts exactly the operand data through one index_overlap result',
        'D7 re-indexing refills (reset_chemicals) start from an empty container; the index_overlap memo is keyed by the ordered CAS sequence its value depends on',
        'D9 whole-array copies between multi-phase indexers / streams (copy_like, copy_flow, hence single-inlet mix_from) happen only between equal phase tuples or after the rows were lined up by label',
        'D8 whenever a stream re-binds its flow container the remembered per-phase sub-streams are dropped or re-attached (otherwise flow moved through ms[phase] is duplicated or lost)',
    ]
    ctx.not_decided = ['numerical equality for all flows', 'correctness of run-time CAS remapping tables']
    d1 = ctx.rule('D1', 'split closure and scaling (D-lin)', floor=10)
    d2 = ctx.rule('D2', 'each inlet counted once in the indexer mix_from loops', floor=8)
    d3 = ctx.rule('D3', 'alias guard before clear', floor=3)
    d4 = ctx.rule('D4', 'stale local alias of phase/data containers', floor=10)
    d5 = ctx.rule('D5', 'copy with removal: same index copied and zeroed', floor=2)
    d6 = ctx.rule('D6', 'separate_out subtracts the operand', floor=3)
    split_rule(ctx, d1)
    scale_rule(ctx, d1)
    mix_rule_chemical(ctx, d2)
    mix_rule_material(ctx, d2)
    alias_guard(ctx, d3)
    for rel in (IX, ST, MS):
        m = prog.module(rel)
        for c in m.classes.values():
            seen = set()
            for f in list(c.methods.values()) + list(c.setters.values()):
                if f.cls is c and id(f) not in seen:
                    seen.add(id(f))
                    stale_alias(prog, eff, f, ALIAS_FIELDS, d4)
    copy_flow_rule(ctx, d5)
    separate_rule(ctx, d6)
    d7 = ctx.rule('D7', 'non-zero-only refills start from an empty container; overlap memo keyed by the ordered CAS tuple', floor=4)
    for f in prog.all_functions():
        if f.module.rel == IX:
            guarded_refill_needs_empty(prog, f, d7)
    overlap_key_rule(ctx, d7)
    # flows are moved between streams through the per-phase sub-streams of multi-phase streams (copy_flow of ms[phase],
    # MultiStream.split_to into multi-phase outlets): those views must stay attached to the rows they advertise
    d9 = ctx.rule('D9', 'blocks of rows move between multi-phase streams by phase label, never by position', floor=2)
    from .C12 import alignment
    alignment(ctx, d9)
    d8 = ctx.rule('D8', 'per-phase views stay attached to the flow rows when the flow container is re-bound', floor=5)
    from .C12 import dependents
    dependents(ctx, d8)


# ----------------------------------------------------------------------------
def split_rule(ctx, d1):
    prog = ctx.prog
    f = prog.method('Stream', 'split_to', rel=ST)
    s1, s2, split = f.params[1], f.params[2], f.params[3]
    paths, _ = run_paths(f.node, unpack_hook=zip_nonzero_hook)
    mol = Form.atom('self.mol')
    want1 = mol * Form.atom(split)
    want2 = mol - want1
    n = 0
    bad = False
    for p in paths:
        if p.raised:
            continue
        n += 1
        got = {}
        emptied = set()
        for e in p.events:
            if e.kind == 'call' and e.target in ('%s.empty' % s1, '%s.empty' % s2):
                emptied.add(e.target.split('.')[0])
            if e.kind == 'store':
                for s in (s1, s2):
                    if e.target == '%s.mol[::]' % s:
                        got.setdefault(s, []).append(('same', e))
                    elif e.target.startswith('%s._imol[' % s) or e.target.startswith('%s.imol[' % s):
                        got.setdefault(s, []).append(('remap', e))
        for s, want in ((s1, want1), (s2, want2)):
            evs = got.get(s, [])
            cons = 'Stream.split_to[%s]' % ('outlet1' if s == s1 else 'outlet2')
            if len(evs) != 1:
                d1.fail(cons, 'stores', 'path stores %d times into %s (expected exactly one material store)' % (len(evs), s), f, f.node)
                bad = True
                continue
            kind, e = evs[0]
            if e.value != want:
                d1.fail(cons, 'value-' + kind, '%s receives %s, expected %s' % (s, e.value.pretty(), want.pretty()), f, e.stmt)
                bad = True
            elif kind == 'remap':
                # index must be the keys of the non-zero entries of the same vector, chemicals' CASs; and outlet emptied first
                idx = e.target[e.target.index('[') + 1:-1]
                if not (idx.startswith('keys_nz(self.chemicals.CASs') and s in emptied):
                    d1.fail(cons, 'remap-index', 'remapped store does not use the CAS keys of the non-zero entries after emptying (%s)' % idx, f, e.stmt)
                    bad = True
        if s1 in got and s2 in got and len(got[s1]) == 1 and len(got[s2]) == 1:
            tot = got[s1][0][1].value + got[s2][0][1].value
            if tot != mol:
                d1.fail('Stream.split_to', 'closure', 'outlet1 + outlet2 = %s, not the feed' % tot.pretty(), f, f.node)
                bad = True
    if not bad:
        d1.ok('Stream.split_to', 'on all %d paths outlet1 = mol*split, outlet2 = mol - mol*split (sum = mol), same-package and CAS-remapped stores' % n, f)
    # MultiStream.split_to
    g = prog.method('MultiStream', 'split_to', rel=MS)
    paths, _ = run_paths(g.node)
    okk = True
    why = ''
    n = 0
    for p in paths:
        if p.raised:
            continue
        n += 1
        loops = [e for e in p.events if e.kind == 'loop']
        calls = [e for e in p.events if e.kind == 'call' and e.target.endswith('.split_to')]
        if loops:
            lp = loops[0]
            if lp.value != Form.atom('self.phases'):
                okk, why = False, 'phase loop ranges over %s, not all of self.phases' % lp.value
            ph = lp.target
            c = [x for x in calls if x.depth >= 1]
            if len(c) != 1 or c[0].target != 'self[%s].split_to' % ph or \
                    [a.pretty() for a in c[0].value[:3]] != ['%s[%s]' % (g.params[1], ph), '%s[%s]' % (g.params[2], ph), g.params[3]]:
                okk, why = False, 'loop body is not self[phase].split_to(s1[phase], s2[phase], split)'
            st = {e.target: e.value for e in p.events if e.kind == 'store'}
            if st.get('%s.phases' % g.params[1]) != Form.atom('self.phases') or st.get('%s.phases' % g.params[2]) != Form.atom('self.phases'):
                okk, why = False, 'outlets are not given the feed phases before the per-phase split'
        else:
            c = [x for x in calls if x.target == 'Stream.split_to']
            if len(c) != 1 or [a.pretty() for a in c[0].value[:4]] != ['self', g.params[1], g.params[2], g.params[3]]:
                okk, why = False, 'fallback is not Stream.split_to(self, s1, s2, split)'
    if okk and n:
        d1.ok('MultiStream.split_to', 'every phase view is split with the same fractions (or the single-phase fallback is used) on %d paths' % n, g)
    else:
        d1.fail('MultiStream.split_to', 'phase-loop', why or 'no normal path', g, g.node)


def scale_rule(ctx, d1):
    prog = ctx.prog
    ops = {'scale': ('Mult', False), '__imul__': ('Mult', False), '__itruediv__': ('Div', False),
           '__mul__': ('Mult', True), '__rmul__': ('Mult', True), '__truediv__': ('Div', True), '__neg__': ('Mult', True)}
    for name, (op, on_copy) in ops.items():
        f = prog.method('Stream', name, rel=ST)
        ps, _ = run_paths(f.node)
        cons = 'Stream.' + name
        okk = len(ps) == 1
        why = 'more than one path'
        if okk:
            p = ps[0]
            aug = [e for e in p.events if e.kind in ('augstore', 'augname')]
            recv = 'self.copy()' if on_copy else 'self'
            arg = Form.atom(f.params[1]) if len(f.params) > 1 else Form.const(-1)
            okk = len(aug) == 1 and aug[0].op == op and aug[0].target == '%s._imol.data' % recv and aug[0].value == arg
            why = 'expected exactly one %s._imol.data %s= %s' % (recv, '*' if op == 'Mult' else '/', arg.pretty())
            if okk and on_copy:
                okk = p.ret == Form.atom('self.copy()')
                why = 'binary form does not return the scaled copy'
            if okk and not on_copy and name != 'scale':
                okk = p.ret == Form.atom('self')
                why = 'in-place form does not return self'
            if okk and any(e.kind in ('store',) for e in p.events):
                okk, why = False, 'additional stores'
        if okk:
            d1.ok(cons, 'one multiplicative update of the whole molar data%s' % (' of a copy' if on_copy else ''), f)
        else:
            d1.fail(cons, 'scale-form', why, f, f.node)
    al = prog.cls('Stream', ST).aliases.get('rescale')
    if al is not None and src(al) == 'scale':
        d1.ok('Stream.rescale', 'alias of scale', None)


# ----------------------------------------------------------------------------
def _acc_name(target):
    """'sc_data.append' -> ('sc_data', 'append');  'scp_data[i].append' -> ('scp_data', 'append')"""
    if '.' not in target:
        return None, None
    base, meth = target.rsplit('.', 1)
    if meth not in ('append', 'extend'):
        return None, None
    return base.split('[')[0], meth


def mix_rule_chemical(ctx, d2):
    prog = ctx.prog
    f = prog.method('ChemicalIndexer', 'mix_from', rel=IX)
    cons = 'ChemicalIndexer.mix_from'
    loops = [n for n in f.node.body if isinstance(n, ast.For)]
    if len(loops) < 2:
        raise AnalysisError('%s: expected the inlet loop and the remap loop' % cons)
    inlet_loop = loops[0]
    x = inlet_loop.target.id
    if src(inlet_loop.iter) != f.params[1]:
        d2.fail(cons, 'inlet-loop', 'first loop does not range over the inlets', f, inlet_loop)
        return
    # families from consumption sites
    same, remap = set(), set()
    for n in walk_no_nested(f.node):
        if isinstance(n, ast.Call) and isinstance(n.func, ast.Attribute) and n.func.attr == 'mix_from' and n.args \
                and isinstance(n.args[0], ast.Name):
            same.add(n.args[0].id)
    for lp in loops[1:]:
        if isinstance(lp.iter, ast.Name):
            remap.add(lp.iter.id)
    consumption(ctx, d2, f, cons, same, remap, loops[1:])
    per_inlet_paths(ctx, d2, f, cons, inlet_loop, x, same, remap, 'self._chemicals')


def consumption(ctx, d2, f, cons, same, remap, remap_loops, recv=None):
    # same-family consumed exactly once by <data>.mix_from(acc)
    calls = [n for n in walk_no_nested(f.node) if isinstance(n, ast.Call) and isinstance(n.func, ast.Attribute)
             and n.func.attr == 'mix_from' and n.args and src(n.args[0]).split('[')[0] in same]
    if len(calls) == 1:
        d2.ok(cons, 'same-package accumulator %s is consumed once by %s' % (sorted(same), src(calls[0])), f, calls[0])
    else:
        d2.fail(cons, 'consume-same', 'same-package accumulator consumed %d times' % len(calls), f, f.node)
    for lp in remap_loops:
        if src(lp.iter).split('[')[0] not in remap:
            continue
        okk = False
        if isinstance(lp.target, ast.Tuple) and len(lp.target.elts) == 3 and len(lp.body) == 1 and isinstance(lp.body[0], ast.AugAssign):
            a, l, r = (e.id for e in lp.target.elts)
            b = lp.body[0]
            okk = isinstance(b.op, ast.Add) and isinstance(b.target, ast.Subscript) and src(b.target.slice) == l \
                and src(b.value) == '%s[%s]' % (a, r)
        if okk:
            d2.ok(cons, 'remapped accumulator %s consumed by one "+=" per item: %s' % (src(lp.iter), src(lp.body[0])), f, lp)
        else:
            d2.fail(cons, 'consume-remap', 'remapped items are not added once each with data[left] += item[right]', f, lp)


def per_inlet_paths(ctx, d2, f, cons, loop, x, same, remap, self_chem, label=''):
    """paths through one iteration of `loop`: appends go to exactly one family, once."""
    fn = ast.FunctionDef(name='_body', args=ast.arguments(posonlyargs=[], args=[], kwonlyargs=[], kw_defaults=[], defaults=[]),
                         body=loop.body, decorator_list=[], lineno=loop.lineno, col_offset=0)
    env = {}
    pre = Lin()
    for st in f.node.body:
        if st is loop:
            break
        if isinstance(st, ast.Assign) and len(st.targets) == 1 and isinstance(st.targets[0], ast.Name) \
                and isinstance(st.value, (ast.Attribute, ast.Name)):
            pre.exec_stmt(st)
    env = dict(pre.env)
    paths, _ = run_paths(fn, init_env=env)
    npaths = 0
    for p in paths:
        if p.raised:
            continue
        npaths += 1
        same_pkg = rimplied(p, lambda t: t in ('(self._chemicals is %s._chemicals)' % x, '(%s._chemicals is self._chemicals)' % x))
        is_mat = implied(p.conds, lambda e: isinstance(e, ast.Call) and 'MaterialIndexer' in src(e))
        S, D = [], []
        for e in p.events:
            if e.kind != 'call':
                continue
            acc, meth = _acc_name(e.target)
            if acc in same:
                S.append(e)
            elif acc in remap:
                D.append(e)
        desc = 'inlet path%s [same package=%s%s]' % (label, same_pkg, '' if is_mat is None else ', multi-phase inlet=%s' % is_mat)
        tagbase = 'pkg-%s-mat-%s' % (same_pkg, is_mat)
        if S and D:
            d2.fail(cons, 'both-families-' + tagbase, '%s: inlet is appended to both the same-package and the remapped accumulators (counted twice)' % desc,
                    f, D[0].stmt)
            continue
        if not S and not D:
            d2.fail(cons, 'not-appended-' + tagbase, '%s: inlet is not appended to any accumulator (dropped)' % desc, f, loop)
            continue
        fam = S or D
        # appended once (a per-phase loop counts as once per phase)
        top = [e for e in fam if e.depth == 0]
        inner = [e for e in fam if e.depth > 0]
        if len(top) + (1 if inner else 0) != 1 or len(inner) > 1:
            d2.fail(cons, 'multiple-appends-' + tagbase, '%s: inlet is appended %d times' % (desc, len(fam)), f, fam[0].stmt)
            continue
        if S and same_pkg is not True:
            d2.fail(cons, 'wrong-family-' + tagbase, '%s: goes to the same-package accumulator although the package test did not succeed' % desc, f, S[0].stmt)
            continue
        if D and same_pkg is not False:
            d2.fail(cons, 'wrong-family-' + tagbase, '%s: goes to the remapped accumulator although the packages are the same' % desc, f, D[0].stmt)
            continue
        e = fam[0]
        arg = e.value[0] if e.value else None
        node_arg = e.node.args[0] if e.node.args else None
        data_like = ('%s.data' % x, '%s.data.rows' % x, '%s.data.sum(0)' % x)
        if S:
            txt = arg.pretty() if arg is not None else '?'
            if txt in data_like or (inner and _row_of(e, p, x)):
                d2.ok(cons, '%s: appended once to %s as flow data (%s)' % (desc, e.target, src(node_arg)), f, e.stmt)
            else:
                d2.fail(cons, 'not-data-' + tagbase, '%s: the object appended (%s) is not the inlet\'s flow data' % (desc, txt), f, e.stmt)
        else:
            # tuple (data, left, right) with left/right from index_overlap(self chemicals, inlet chemicals, data.nonzero_keys())
            first = None
            if isinstance(node_arg, ast.Tuple) and node_arg.elts:
                first = p.lin.form(node_arg.elts[0]).pretty() if not inner else src(node_arg.elts[0])
                first_form = Lin(dict(p.lin.env)).form(node_arg.elts[0]).pretty()
            ov = [c for c in p.events if c.kind == 'call' and c.target == 'index_overlap']
            good_ov = len(ov) == 1 and len(ov[0].value) == 3 and ov[0].value[0].pretty().endswith('_chemicals') \
                and ov[0].value[1].pretty() == '%s._chemicals' % x
            if first is None:
                d2.fail(cons, 'not-data-' + tagbase, '%s: remapped item is not a (data, left_index, right_index) tuple' % desc, f, e.stmt)
            elif not good_ov:
                d2.fail(cons, 'overlap-' + tagbase, '%s: index_overlap is not called once with (receiver chemicals, inlet chemicals, keys)' % desc, f, e.stmt)
            else:
                data_txt = _resolve(first_form, p)
                if data_txt in data_like or (inner and _row_of(e, p, x)):
                    keys = ov[0].value[2].pretty()
                    if keys.startswith(data_txt if not inner else '%s.data' % x) and 'nonzero_keys' in keys:
                        d2.ok(cons, '%s: appended once to %s as (flow data, overlap indices of the same data)' % (desc, e.target), f, e.stmt)
                    else:
                        d2.fail(cons, 'overlap-keys-' + tagbase, '%s: overlap keys (%s) are not the non-zero keys of the appended data (%s)' % (desc, keys, data_txt), f, e.stmt)
                else:
                    d2.fail(cons, 'not-data-' + tagbase, '%s: the remapped item carries %s, which is not the inlet\'s flow data' % (desc, data_txt), f, e.stmt)
    if npaths == 0:
        raise AnalysisError('%s: no path through the inlet loop' % cons)


def _resolve(txt, p):
    return txt


def _row_of(e, p, x):
    """append inside `for ph, row in zip(x._phases, x.data.rows)` of the row variable under key ph"""
    loops = [l for l in p.events if l.kind == 'loop' and p.events.index(l) < p.events.index(e)]
    if not loops:
        return False
    lp = loops[-1].stmt
    if not (isinstance(lp.iter, ast.Call) and src(lp.iter.func) == 'zip' and len(lp.iter.args) == 2
            and isinstance(lp.target, ast.Tuple) and len(lp.target.elts) == 2):
        return False
    it = loops[-1].value.pretty() if loops[-1].value is not None else ''
    a0 = [a for a in lp.iter.args]
    # evaluate iter args under the env *before* the loop re-bound its variables: use source text with x
    ok_iter = src(a0[0]).endswith('._phases') and (src(a0[1]).endswith('.rows'))
    ph, row = (t.id for t in lp.target.elts)
    node_arg = e.node.args[0]
    key_ok = '[%s]' % ph in src(e.node.func)
    if isinstance(node_arg, ast.Tuple):
        val_ok = src(node_arg.elts[0]) == row
    else:
        val_ok = src(node_arg) == row
    return ok_iter and key_ok and val_ok


def mix_rule_material(ctx, d2):
    prog = ctx.prog
    f = prog.method('MaterialIndexer', 'mix_from', rel=IX)
    cons = 'MaterialIndexer.mix_from'
    loops = [n for n in f.node.body if isinstance(n, ast.For)]
    # classification loop: every inlet goes to exactly one of the two lists or raises
    cl = loops[0]
    fn = ast.FunctionDef(name='_b', args=ast.arguments(posonlyargs=[], args=[], kwonlyargs=[], kw_defaults=[], defaults=[]),
                         body=cl.body, decorator_list=[], lineno=cl.lineno, col_offset=0)
    ps, _ = run_paths(fn)
    lists = set()
    okk = True
    for p in ps:
        if p.raised:
            continue
        ap = [e for e in p.events if e.kind == 'call' and e.target.endswith('.append')]
        if len(ap) != 1 or ap[0].value != [Form.atom(cl.target.id)]:
            okk = False
        else:
            lists.add(ap[0].target.split('.')[0])
    if okk and len(lists) == 2 and src(cl.iter) == f.params[1]:
        d2.ok(cons, 'every inlet is classified into exactly one of %s (or rejected)' % sorted(lists), f, cl)
    else:
        d2.fail(cons, 'classification', 'inlets are not classified into exactly one of two lists', f, cl)
    same, remap = set(), set()
    final = loops[-1]
    for n in ast.walk(final):
        if isinstance(n, ast.Call) and isinstance(n.func, ast.Attribute) and n.func.attr == 'mix_from' and n.args:
            same.add(src(n.args[0]).split('[')[0])
        if isinstance(n, ast.For) and n is not final:
            remap.add(src(n.iter).split('[')[0])
    inner = [n for n in final.body if isinstance(n, ast.For)]
    consumption(ctx, d2, f, cons, same, remap, inner)
    # final loop pairs phases with rows of self.data and keys both families by the phase
    fin_ok = isinstance(final.iter, ast.Call) and src(final.iter.func) == 'zip' and len(final.iter.args) == 2 \
        and src(final.iter.args[1]) == 'self.data.rows'
    if fin_ok:
        ph = final.target.elts[0].id
        keys = {src(n.slice) for n in ast.walk(final) if isinstance(n, ast.Subscript) and src(n.value) in same | remap}
        fin_ok = keys == {ph}
    if fin_ok:
        d2.ok(cons, 'each receiver row consumes the accumulators filed under its own phase', f, final)
    else:
        d2.fail(cons, 'final-loop', 'receiver rows are not paired with the accumulators of their phase', f, final)
    # the phase tuple zipped with the rows must be current (checked by D4) -- here: it must be self._phases
    covered = set()
    for lp in loops[1:-1]:
        if not isinstance(lp.iter, ast.Name) or lp.iter.id not in lists:
            continue
        touches = any(isinstance(n, ast.Call) and isinstance(n.func, ast.Attribute) and n.func.attr in ('append', 'extend')
                      and src(n.func.value).split('[')[0] in same | remap for n in ast.walk(lp))
        if not touches:
            continue    # e.g. the loop that only collects the inlets' phases
        covered.add(lp.iter.id)
        x = lp.target.id
        per_inlet_paths(ctx, d2, f, cons, lp, x, same, remap, 'self._chemicals', label=' over ' + lp.iter.id)
    for l in sorted(lists - covered):
        d2.fail(cons, 'no-accumulation-' + l, 'no loop files the inlets in %s into the accumulators' % l, f, f.node)


# ----------------------------------------------------------------------------
def _identity_accounting(f):
    """-> (count name, sources name, texts naming the receiver dict, statements after the count is final) or None.
    Two equivalent ways of counting how many operand dicts are the receiver dict itself are recognised:
      A  for v in all: if v is me: cnt += 1  else: srcs.append(v)
      B  srcs = [v for v in all if v is not me];  cnt = len(all) - len(srcs)"""
    me_names = {'self.dct'}
    for n in walk_no_nested(f.node):
        if isinstance(n, ast.Assign) and len(n.targets) == 1 and isinstance(n.targets[0], ast.Name) and src(n.value) == 'self.dct':
            me_names.add(n.targets[0].id)

    def ident(test, v, negate):
        if isinstance(test, ast.UnaryOp) and isinstance(test.op, ast.Not):
            return ident(test.operand, v, not negate)
        if isinstance(test, ast.Compare) and len(test.ops) == 1 and isinstance(test.ops[0], (ast.Is, ast.IsNot)):
            a, b = src(test.left), src(test.comparators[0])
            if (a == v and b in me_names) or (b == v and a in me_names):
                return isinstance(test.ops[0], ast.Is) != negate
        return None

    def blocks(node):
        for fld in ('body', 'orelse', 'finalbody'):
            b = getattr(node, fld, None)
            if isinstance(b, list) and b and isinstance(b[0], ast.stmt):
                yield b
                for st in b:
                    if not isinstance(st, (ast.FunctionDef, ast.ClassDef)):
                        yield from blocks(st)

    for blk in blocks(f.node):
        for i, st in enumerate(blk):
            # form A
            if isinstance(st, ast.For) and isinstance(st.target, ast.Name) and len(st.body) == 1 and isinstance(st.body[0], ast.If):
                t = st.body[0]
                v = st.target.id
                hit = ident(t.test, v, False)
                if hit is None:
                    continue
                inc, keep = (t.body, t.orelse) if hit else (t.orelse, t.body)
                if len(inc) == 1 and isinstance(inc[0], ast.AugAssign) and isinstance(inc[0].op, ast.Add) and isinstance(inc[0].target, ast.Name) \
                        and src(inc[0].value) == '1' and len(keep) == 1 and isinstance(keep[0], ast.Expr) and isinstance(keep[0].value, ast.Call) \
                        and isinstance(keep[0].value.func, ast.Attribute) and keep[0].value.func.attr == 'append' \
                        and [src(a) for a in keep[0].value.args] == [v] and isinstance(keep[0].value.func.value, ast.Name):
                    cnt = inc[0].target.id
                    zero_init = any(isinstance(x, ast.Assign) and len(x.targets) == 1 and src(x.targets[0]) == cnt and src(x.value) == '0' for x in blk[:i])
                    if zero_init:
                        return cnt, keep[0].value.func.value.id, me_names, blk[i + 1:]
            # form B
            if isinstance(st, ast.Assign) and len(st.targets) == 1 and isinstance(st.targets[0], ast.Name) and isinstance(st.value, ast.ListComp) \
                    and len(st.value.generators) == 1 and len(st.value.generators[0].ifs) == 1 and isinstance(st.value.generators[0].target, ast.Name) \
                    and src(st.value.elt) == st.value.generators[0].target.id:
                g = st.value.generators[0]
                if ident(g.ifs[0], g.target.id, False) is not False:
                    continue
                srcs, allname = st.targets[0].id, src(g.iter)
                for j in range(i + 1, len(blk)):
                    x = blk[j]
                    if isinstance(x, ast.Assign) and len(x.targets) == 1 and isinstance(x.targets[0], ast.Name) \
                            and src(x.value) == 'len(%s) - len(%s)' % (allname, srcs):
                        return x.targets[0].id, srcs, me_names, blk[j + 1:]
    return None


def _count_class(conds, cnt):
    """what the branch conditions of a path say about the hit count: 'zero', 'one', 'many' or None (not tested)"""
    zero = one = None
    for test, taken in conds:
        t = test
        neg = False
        while isinstance(t, ast.UnaryOp) and isinstance(t.op, ast.Not):
            t, neg = t.operand, not neg
        tk = taken != neg
        if isinstance(t, ast.Name) and t.id == cnt:
            zero = not tk
        elif isinstance(t, ast.Compare) and len(t.ops) == 1 and src(t.left) == cnt and isinstance(t.comparators[0], ast.Constant):
            c, op = t.comparators[0].value, type(t.ops[0])
            if c == 0 and op in (ast.Eq, ast.LtE):
                zero = tk
            elif c == 0 and op in (ast.NotEq, ast.Gt):
                zero = not tk
            elif c == 1 and op is ast.Lt:
                zero = tk
            elif c == 1 and op is ast.GtE:
                zero = not tk
            elif c == 1 and op is ast.Eq:
                one = tk
            elif c == 1 and op is ast.NotEq:
                one = not tk
            elif c == 1 and op is ast.Gt:
                if tk:
                    zero, one = False, False
            elif c == 2 and op is ast.GtE:
                if tk:
                    zero, one = False, False
    if zero is True:
        return 'zero'
    if one is True and zero is not True:
        return 'one'
    if zero is False and one is False:
        return 'many'
    return None


def _is_copy_of(e, me_names):
    if isinstance(e, ast.Call) and isinstance(e.func, ast.Attribute) and e.func.attr == 'copy' and not e.args and src(e.func.value) in me_names:
        return True
    return isinstance(e, ast.Call) and src(e.func) == 'dict' and len(e.args) == 1 and src(e.args[0]) in me_names


def _is_scaled_by(e, me_names, cnt):
    if not (isinstance(e, ast.DictComp) and len(e.generators) == 1 and not e.generators[0].ifs):
        return False
    g = e.generators[0]
    if not (isinstance(g.iter, ast.Call) and isinstance(g.iter.func, ast.Attribute) and g.iter.func.attr == 'items'
            and src(g.iter.func.value) in me_names and isinstance(g.target, ast.Tuple) and len(g.target.elts) == 2):
        return False
    k, v = (src(x) for x in g.target.elts)
    if src(e.key) != k or not (isinstance(e.value, ast.BinOp) and isinstance(e.value.op, ast.Mult)):
        return False
    return {src(e.value.left), src(e.value.right)} == {v, cnt}


def alias_guard(ctx, d3):
    prog = ctx.prog
    f = prog.method('SparseVector', 'mix_from', rel=SP)
    cons = 'SparseVector.mix_from'
    acc = _identity_accounting(f)
    if acc is None:
        d3.fail(cons, 'self-inlet-accounting', 'the receiver-is-an-inlet accounting is not in place: no count of the operand dicts that are the receiver dict itself', f, f.node)
    else:
        cnt, srcs_name, me_names, tail = acc
        fn = ast.FunctionDef(name='_tail', args=ast.arguments(posonlyargs=[], args=[], kwonlyargs=[], kw_defaults=[], defaults=[]),
                             body=tail, decorator_list=[], lineno=f.node.lineno, col_offset=0)
        ps, _ = run_paths(fn, max_paths=2000, follow_except=False)
        seen = {'zero': 0, 'one': 0, 'many': 0}
        bad = False

        def is_me(t):
            return t in me_names

        for p in ps:
            if p.raised:
                continue
            z = _count_class(p.conds, cnt)
            clears = [e for e in p.events if e.kind == 'call' and e.target.endswith('.clear') and is_me(e.target[:-6])]
            apps = [e for e in p.events if e.kind == 'call' and e.target == srcs_name + '.append' and e.node.args]
            if clears and z != 'zero':
                d3.fail(cons, 'clear-unguarded', 'receiver dict is cleared on a path where it may be one of the inlets', f, clears[0].stmt)
                bad = True
                continue
            if z is None:
                continue
            seen[z] += 1
            if z == 'zero':
                if not clears:
                    d3.fail(cons, 'self-inlet-accounting', 'the receiver-is-an-inlet accounting is not in place: old content is not dropped when the receiver is none of the inlets', f, f.node)
                    bad = True
            elif z == 'one':
                if not any(_is_copy_of(e.node.args[0], me_names) for e in apps):
                    d3.fail(cons, 'self-inlet-accounting', 'the receiver-is-an-inlet accounting is not in place: with one identity hit a copy of the receiver is not kept as a source', f, f.node)
                    bad = True
            else:
                if not any(_is_scaled_by(e.node.args[0], me_names, cnt) for e in apps):
                    d3.fail(cons, 'self-inlet-accounting', 'the receiver-is-an-inlet accounting is not in place: with several identity hits the receiver scaled by the count is not kept as a source', f, f.node)
                    bad = True
        # the no-operand path: clearing is the whole job (only reachable under `not others`)
        if not bad:
            if all(seen.values()):
                d3.ok(cons, 'dict cleared only when it is none of the inlets (hit count %s == 0); otherwise its own content is kept as a source (copy for one hit, scaled by the count for several)' % cnt, f)
            else:
                d3.fail(cons, 'self-inlet-accounting', 'the receiver-is-an-inlet accounting is not in place: zero/one/many-hit handling incomplete %s' % seen, f, f.node)
        # clears before the accounting (e.g. the no-operand shortcut) must be under `not others`
        ps0, _ = run_paths(f.node, max_paths=2000)
        for p in ps0:
            if p.raised:
                continue
            for e in p.events:
                if e.kind == 'call' and e.target.endswith('.clear') and (e.target[:-6] in me_names) and not any(e.stmt is t or any(e.stmt is x for x in ast.walk(t)) for t in tail):
                    if implied(p.conds, lambda t: src(t) == f.params[1]) is not False:
                        d3.fail(cons, 'clear-unguarded', 'receiver dict is cleared on a path where it may be one of the inlets', f, e.stmt)
    for cname, mname in (('SparseVector', 'copy_like'),):
        g = prog.method(cname, mname, rel=SP)
        ps, _ = run_paths(g.node)
        bad = False
        for p in ps:
            clears = [e for e in p.events if e.kind == 'call' and e.target.endswith('dct.clear')]
            if clears:
                same = implied(p.conds, lambda e: isinstance(e, ast.Compare) and isinstance(e.ops[0], ast.Is) and 'dct' in src(e))
                if same is not False:
                    bad = True
        if bad:
            d3.fail('%s.%s' % (cname, mname), 'clear-unguarded', 'dict cleared without excluding that the source is the same dict', g, g.node)
        else:
            d3.ok('%s.%s' % (cname, mname), 'clear happens only after "dct is other.dct" was excluded', g)
    from ..cfg import CFG as _CFG
    for cname in ('ChemicalIndexer', 'MaterialIndexer'):
        g = prog.method(cname, 'copy_like', rel=IX)
        cfg = _CFG(g.node)
        dom = cfg.dominators()
        guard = None
        for nd in cfg.nodes:
            if nd.kind == 'test' and isinstance(nd.ast, ast.If) and src(nd.ast.test) in ('self is other', 'other is self') \
                    and nd.ast.body and isinstance(nd.ast.body[0], ast.Return):
                guard = nd
        writers = []
        for nd in cfg.nodes:
            if nd.kind != 'stmt' or nd.ast is None:
                continue
            for x in ast.walk(nd.ast):
                if isinstance(x, ast.Call) and isinstance(x.func, ast.Attribute) and x.func.attr in ('empty', 'copy_like', '_expand_phases') \
                        and src(x.func.value).startswith('self'):
                    writers.append(nd)
                if isinstance(x, ast.Subscript) and isinstance(x.ctx, ast.Store):
                    writers.append(nd)
        if guard is not None and writers and all(guard.id in dom[w.id] for w in writers):
            d3.ok('%s.copy_like' % cname, 'the "self is other: return" guard dominates all %d writing statements' % len(writers), g, guard.ast)
        else:
            d3.fail('%s.copy_like' % cname, 'no-self-guard', 'copy_like may empty the receiver although it is its own source', g, g.node)


# ----------------------------------------------------------------------------
def copy_flow_rule(ctx, d5):
    prog = ctx.prog
    f = prog.method('Stream', 'copy_flow', rel=ST)
    ps, _ = run_paths(f.node, max_paths=4000)
    n = 0
    bad = False
    for p in ps:
        if p.raised:
            continue
        rm = implied(p.conds, lambda e: src(e) == 'remove')
        if rm is not True:
            continue
        n += 1
        whole = implied(p.conds, lambda e: src(e) == 'IDs == ...')
        copies = [e for e in p.events if e.kind == 'store' and (e.target.startswith('self.mol[') or e.target.startswith('self.imol['))]
        zeros = [e for e in p.events if (e.kind == 'store' and e.value.is_zero() and e.target.startswith('other'))
                 or (e.kind == 'call' and e.target.endswith('.clear') and e.target.startswith('other'))]
        if not copies or not zeros:
            d5.fail('Stream.copy_flow', 'missing', 'remove=True path without a copy store and a removal', f, f.node)
            bad = True
            continue
        if whole:
            if not all(z.kind == 'call' for z in zeros):
                d5.fail('Stream.copy_flow', 'whole-removal', 'whole-stream move does not clear the source', f, zeros[0].stmt)
                bad = True
            continue
        z = zeros[0]
        zi = src(z.node.slice).split(',')[-1].strip().strip('()')
        c = copies[0]
        # the index used on the right-hand side of the copy
        rhs_idx = [src(s.slice) for s in ast.walk(c.stmt.value) if isinstance(s, ast.Subscript) and src(s.value).startswith('other')]
        # SSA identity: same variable and no re-binding between the two statements
        rebinds = [e for e in p.events if e.kind == 'assign' and e.target == zi
                   and p.events.index(c) < p.events.index(e) < p.events.index(z)]
        if zi in rhs_idx and not rebinds:
            pass
        else:
            d5.fail('Stream.copy_flow', 'index-mismatch', 'entries zeroed (%s) are not the entries copied (%s)' % (zi, rhs_idx), f, z.stmt)
            bad = True
    if not bad and n:
        d5.ok('Stream.copy_flow', 'on all %d remove=True paths the zeroed index is the SSA value used for the copy (or the whole source is cleared after a whole copy)' % n, f)
    g = prog.method('MultiStream', 'copy_flow', rel=MS)
    ps, _ = run_paths(g.node, max_paths=4000)
    n = 0
    bad = False
    for p in ps:
        if p.raised:
            continue
        rm = implied(p.conds, lambda e: src(e) == 'remove')
        if rm is not True:
            continue
        n += 1
        oth = g.params[1]

        def is_src(e):
            # other.imol.data[...]  or a row-sharing view of it: other.imol.data.from_rows([<its own row objects, re-ordered by phase>])[...]
            # (SparseArray.from_rows keeps the row objects, so a write through the view is a write to the other stream)
            return isinstance(e.node, ast.Subscript) and (e.target.startswith('%s.imol.data[' % oth) or e.target.startswith('%s.imol.data.from_rows(' % oth))

        def is_dst(e):
            return isinstance(e.node, ast.Subscript) and e.target.startswith('self.imol.data[')

        def reads_other(node):
            for x in ast.walk(node):
                if isinstance(x, (ast.Name, ast.Attribute, ast.Subscript)):
                    try:
                        if p.lin._recv_text(x).startswith('%s.imol.data' % oth):
                            return True
                    except Exception:
                        pass
            return False
        stores = [e for e in p.events if e.kind == 'store']
        zero_all = [e for e in stores if is_src(e) and e.value.is_zero() and src(e.node.slice) == ':']
        zeros = [e for e in stores if is_src(e) and e.value.is_zero() and src(e.node.slice) != ':']
        copies = [e for e in stores if is_dst(e) and not e.value.is_zero() and reads_other(e.stmt.value)]
        if zero_all:
            # move everything except an excluded block: save it, zero all, restore it at the same index
            saves = [e for e in p.events if e.kind == 'assign' and isinstance(e.stmt.value, ast.Subscript)
                     and reads_other(e.stmt.value.value) and p.events.index(e) < p.events.index(zero_all[0])]
            restores = [e for e in stores if is_src(e) and not e.value.is_zero() and p.events.index(e) > p.events.index(zero_all[0])]
            keeps = [e for e in stores if is_dst(e) and isinstance(e.stmt.value, ast.Subscript)
                     and p.lin._recv_text(e.stmt.value.value) == 'self.imol.data.copy()']
            okk = len(saves) == 1 and len(restores) == 1 and keeps \
                and src(saves[0].stmt.value.slice) == src(restores[0].node.slice) \
                and src(restores[0].stmt.value) == saves[0].target \
                and src(keeps[0].node.slice).split(',')[-1].strip(' ()') == src(restores[0].node.slice).split(',')[-1].strip(' ()') \
                and src(keeps[0].node.slice) == src(keeps[0].stmt.value.slice)
            if not okk:
                d5.fail('MultiStream.copy_flow', 'exclude-restore', 'move-all-but-excluded does not save, zero and restore the same excluded block', g, zero_all[0].stmt)
                bad = True
            continue
        if not zeros or not copies:
            d5.fail('MultiStream.copy_flow', 'missing', 'remove=True path without copy and removal (%d copies, %d removals)' % (len(copies), len(zeros)), g, g.node)
            bad = True
            continue
        c, z = copies[-1], zeros[-1]
        ci = [src(s_.slice) for s_ in ast.walk(c.stmt.value) if isinstance(s_, ast.Subscript) and reads_other(s_.value)]
        zi = src(z.node.slice)
        if zi not in ci:
            d5.fail('MultiStream.copy_flow', 'index-mismatch', 'entries zeroed [%s] differ from the entries copied %s' % (zi, ci), g, z.stmt)
            bad = True
    if not bad and n:
        d5.ok('MultiStream.copy_flow', 'on all %d remove=True paths the zeroed index equals the copied index' % n, g)
    # the premise used above: from_rows builds a VIEW (it keeps the row objects it is given)
    fr = prog.method('SparseArray', 'from_rows', rel='thermosteam/base/sparse.py')
    rp = fr.params[1]
    keeps = any(isinstance(x, ast.Assign) and any(isinstance(t, ast.Attribute) and t.attr == 'rows' for t in x.targets) and isinstance(x.value, ast.Name) and x.value.id == rp
                for x in walk_no_nested(fr.node))
    if keeps:
        d5.ok('SparseArray.from_rows', 'keeps the row objects it is given (a write through the result is a write to those rows)', fr)
    else:
        d5.fail('SparseArray.from_rows', 'view-premise', 'from_rows no longer stores the given row objects: removal through the phase-aligned view of the source would not reach the source', fr, fr.node)


# ----------------------------------------------------------------------------
def separate_rule(ctx, d6):
    prog = ctx.prog
    f = prog.method('ChemicalIndexer', 'separate_out', rel=IX)
    ps, _ = run_paths(f.node)
    for p in ps:
        same = implied(p.conds, lambda e: isinstance(e, ast.Compare) and isinstance(e.ops[0], ast.Is))
        aug = [e for e in p.events if e.kind == 'augstore']
        cons = 'ChemicalIndexer.separate_out[same package=%s]' % same
        if len(aug) != 1 or aug[0].op != 'Sub':
            d6.fail(cons, 'form', 'expected exactly one "-=" of the operand', f, f.node)
            continue
        a = aug[0]
        if same:
            okk = a.target == 'self.data' and a.value == Form.atom('%s.sum_across_phases()' % f.params[1])
        else:
            ov = [c for c in p.events if c.kind == 'call' and c.target == 'index_overlap']
            okk = len(ov) == 1 and isinstance(a.node, ast.Subscript) and isinstance(a.stmt.value, ast.Subscript)
            if okk:
                call_txt = 'index_overlap(%s)' % ', '.join(v.pretty() for v in ov[0].value)
                okk = a.target == 'self.data[(%s)[0]]' % call_txt and a.value.pretty() == '%s.data[(%s)[1]]' % (f.params[1], call_txt) \
                    and ov[0].value[0].pretty() == 'self._chemicals' and ov[0].value[1].pretty() == '%s._chemicals' % f.params[1]
        if okk:
            d6.ok(cons, 'self.data %s -= operand data through one index_overlap result' % ('' if same else '[left]'), f, a.stmt)
        else:
            d6.fail(cons, 'form', 'subtraction is not of exactly the operand data (%s -= %s)' % (a.target, a.value), f, a.stmt)
    # multi-phase receiver: six package/phase-set combinations, each subtracts the operand exactly once
    mf = prog.method('MaterialIndexer', 'separate_out', rel=IX)
    o = mf.params[1]
    mps, _ = run_paths(mf.node, max_paths=2000)
    seen = {}
    for p in mps:
        if p.raised:
            continue
        aug = [e for e in p.events if (e.kind == 'augstore' and e.target.startswith('self.data'))
               or (e.kind == 'augname' and e.extra is not None and e.extra.pretty() == 'self.data')]
        same_pkg = rimplied(p, lambda t: t in ('(self._chemicals is %s.chemicals)' % o, '(%s.chemicals is self._chemicals)' % o))
        is_mat = implied(p.conds, lambda e: isinstance(e, ast.Call) and 'MaterialIndexer' in src(e))
        same_ph = rimplied(p, lambda t: t in ('(self._phases == %s.phases)' % o, '(%s.phases == self._phases)' % o))
        if same_pkg is None or same_ph is None:
            # the tests may be kept in flag locals and combined (`if same_phases and same_chemicals: ... elif same_phases: ...`): what the
            # branch history as a whole entails
            from ..pathcond import entailed, resolved_conds
            rc = resolved_conds(p, keep=set(mf.params))
            SELF_CH, OTH_CH = {'self._chemicals', 'self.chemicals'}, {'%s.chemicals' % o, '%s._chemicals' % o}
            SELF_PH, OTH_PH = {'self._phases', 'self.phases'}, {'%s.phases' % o, '%s._phases' % o}

            def cmp_(t, ops, A, B):
                return isinstance(t, ast.Compare) and len(t.ops) == 1 and isinstance(t.ops[0], ops) and (
                    (src(t.left) in A and src(t.comparators[0]) in B) or (src(t.left) in B and src(t.comparators[0]) in A))
            if same_pkg is None:
                same_pkg = entailed(rc, lambda t: cmp_(t, ast.Is, SELF_CH, OTH_CH), lambda t: cmp_(t, ast.IsNot, SELF_CH, OTH_CH))
            if same_ph is None:
                same_ph = entailed(rc, lambda t: cmp_(t, ast.Eq, SELF_PH, OTH_PH), lambda t: cmp_(t, ast.NotEq, SELF_PH, OTH_PH))
        key = 'multi-phase operand=%s, same phases=%s, same package=%s' % (is_mat, same_ph, same_pkg)
        skip = any(e.kind == 'continue' for e in p.events) \
            or implied(p.conds, lambda e: isinstance(e, ast.Call) and isinstance(e.func, ast.Attribute) and e.func.attr == 'any' and not e.args
                       and isinstance(e.func.value, ast.Name)) is False
        if skip:
            continue      # empty phase row of the operand (tested with `if not row.any(): continue` or `if row.any(): ...`): nothing to subtract
        okk = len(aug) == 1 and aug[0].op == 'Sub'
        why = 'expected exactly one "-=" into the receiver data, found %d' % len(aug)
        if okk:
            a = aug[0]
            vt = a.value.pretty()
            from_operand = vt.startswith('%s.data' % o) or any(l.kind == 'loop' and l.value is not None and '%s.data' % o in l.value.pretty() for l in p.events)
            if not from_operand:
                okk, why = False, 'the amount subtracted (%s) is not the operand data' % vt
            elif same_pkg is False:
                # cross-package: positions through CAS numbers of exactly the entries subtracted
                tbl = _cas_table_of_remap(p, a, o)
                if not ('.indices(' in a.target and 'CASs' in a.target):
                    okk, why = False, 'cross-package subtraction does not remap positions through CAS numbers (%s)' % a.target
                elif tbl is not True:
                    okk, why = False, tbl
                else:
                    rhs_idx = [src(x.slice) for x in ast.walk(a.stmt.value) if isinstance(x, ast.Subscript)]
                    comp = [x for x in ast.walk(a.stmt.target) if isinstance(x, ast.Name)]
                    # the comprehension that builds the receiver positions iterates the same index used on the right-hand side
                    defs = {src(n.targets[0]): n.value for n in walk_no_nested(mf.node) if isinstance(n, ast.Assign) and len(n.targets) == 1}
                    tgt_idx_names = {x.id for x in comp}
                    gathers = [v for k_, v in defs.items() if k_ in tgt_idx_names and isinstance(v, ast.Call) and src(v.func).endswith('.indices')]
                    iters = {src(g.iter) for v in gathers for c_ in ast.walk(v) if isinstance(c_, ast.ListComp) for g in c_.generators}
                    if not any(any(it in r for it in iters) for r in rhs_idx):
                        okk, why = False, 'receiver positions are not built from the same operand index that is subtracted'
        prev = seen.get(key)
        seen[key] = (okk and (prev[0] if prev else True), why if not okk else (prev[1] if prev else ''), p)
    for key, (okk, why, p) in sorted(seen.items()):
        cons = 'MaterialIndexer.separate_out[%s]' % key
        if okk:
            d6.ok(cons, 'the operand is subtracted exactly once, at its own phase row, positions remapped through CAS when packages differ', mf)
        else:
            d6.fail(cons, 'form', why, mf, mf.node)
    if len(seen) < 5:
        raise AnalysisError('MaterialIndexer.separate_out: expected >= 5 package/phase combinations, found %d' % len(seen))
    g = prog.method('Stream', 'separate_out', rel=ST)
    ps, _ = run_paths(g.node)
    okk = True
    for p in ps:
        oth = implied(p.conds, lambda e: src(e) == g.params[1])
        if not oth:
            continue
        c = [e for e in p.events if e.kind == 'call' and e.target == 'self._imol.separate_out']
        if len(c) != 1 or c[0].value != [Form.atom('%s._imol' % g.params[1])]:
            okk = False
    if okk:
        d6.ok('Stream.separate_out', 'delegates once to self._imol.separate_out(other._imol)', g)
    else:
        d6.fail('Stream.separate_out', 'delegate', 'material subtraction is not delegated exactly once', g, g.node)


def _cas_table_of_remap(p, a, o):
    """the receiver positions of a cross-package subtraction are `<receiver chemicals>.indices([T[i] for i in <operand index>])`: the
    table T that turns operand positions into CAS numbers must be the OPERAND's (its positions index it), and the lookup must be made
    in the receiver's chemicals.  Locals are read through their definitions on this path.  True, or the reason it is not so."""
    from ..resolve import resolved, path_defs
    defs = path_defs(p, before=a)
    t = resolved(a.stmt.target, defs)
    calls = [c for c in ast.walk(t) if isinstance(c, ast.Call) and isinstance(c.func, ast.Attribute) and c.func.attr == 'indices']
    if len(calls) != 1 or len(calls[0].args) != 1 or not isinstance(calls[0].args[0], ast.ListComp):
        return True          # another shape: the other clauses of this rule judge it
    recv = src(calls[0].func.value)
    if recv not in ('self._chemicals', 'self.chemicals'):
        return 'cross-package subtraction looks the CAS numbers up in %s, not in the receiver\'s chemicals' % recv
    elt = calls[0].args[0].elt
    if not (isinstance(elt, ast.Subscript)):
        return True
    table = src(elt.value)
    if table not in ('%s.chemicals.CASs' % o, '%s._chemicals.CASs' % o):
        return 'operand positions are turned into CAS numbers through %s, not through the operand\'s own table (%s.chemicals.CASs)' % (table, o)
    return True


LOSSY = {'frozenset', 'set', 'sorted', 'len', 'hash', 'sum', 'min', 'max', 'str', 'repr', 'id'}


def overlap_key_rule(ctx, d7):
    """index_overlap memoises left_index, which depends on the ORDER of the CAS sequence; the memo key
    must therefore be an order-preserving encoding of exactly that sequence."""
    prog = ctx.prog
    f = prog.func(IX, 'index_overlap')
    defs = {}
    for n in walk_no_nested(f.node):
        if isinstance(n, ast.Assign) and len(n.targets) == 1 and isinstance(n.targets[0], ast.Name):
            defs.setdefault(n.targets[0].id, n.value)
    caches = {k for k, v in defs.items() if src(v).endswith('._index_cache')}
    keys = set()
    stored = []
    for n in walk_no_nested(f.node):
        if isinstance(n, ast.Subscript) and src(n.value) in caches:
            keys.add(src(n.slice))
            if isinstance(n.ctx, ast.Store) and isinstance(n._parent, ast.Assign) and isinstance(n._parent.value, ast.Tuple):
                stored.append(src(n._parent.value.elts[0]))
        if isinstance(n, ast.Compare) and isinstance(n.ops[0], ast.In) and src(n.comparators[0]) in caches:
            keys.add(src(n.left))
    # the sequence the cached value is computed from: inside the loop that fills the stored list, X = SEQ[<loop var>]
    seqs = set()
    for lp in [n for n in walk_no_nested(f.node) if isinstance(n, ast.For)]:
        fills = any(isinstance(x, ast.Subscript) and isinstance(x.ctx, ast.Store) and src(x.value) in stored for x in ast.walk(lp)) \
            or any(isinstance(x, ast.Call) and isinstance(x.func, ast.Attribute) and x.func.attr == 'append' and src(x.func.value) in stored for x in ast.walk(lp))
        if not fills:
            continue
        # the sequence walked: for i in range(len(SEQ)): X = SEQ[i]  |  for i, X in enumerate(SEQ)  |  for X in SEQ
        if isinstance(lp.iter, ast.Call) and src(lp.iter.func) == 'enumerate' and len(lp.iter.args) == 1 and isinstance(lp.iter.args[0], ast.Name):
            seqs.add(lp.iter.args[0].id)
        elif isinstance(lp.iter, ast.Name):
            seqs.add(lp.iter.id)
        elif isinstance(lp.target, ast.Name):
            for x in ast.walk(lp):
                if isinstance(x, ast.Assign) and isinstance(x.value, ast.Subscript) and src(x.value.slice) == lp.target.id \
                        and isinstance(x.value.value, ast.Name):
                    seqs.add(x.value.value.id)
    if len(keys) != 1 or len(seqs) != 1:
        d7.fail('index_overlap', 'memo-key-shape', 'memo uses keys %s for a value computed from %s' % (sorted(keys), sorted(seqs)), f, f.node)
        return
    key, seq = keys.pop(), seqs.pop()

    def order_preserving(name, depth=0):
        if name == seq:
            return True
        v = defs.get(name)
        if v is None or depth > 3:
            return False
        if isinstance(v, ast.Call) and src(v.func) in LOSSY:
            return False
        if isinstance(v, ast.Call) and src(v.func) in ('tuple', 'list') and len(v.args) == 1:
            a = v.args[0]
            return (isinstance(a, ast.Name) and order_preserving(a.id, depth + 1)) or src(a) == seq or isinstance(a, (ast.ListComp, ast.GeneratorExp))
        if isinstance(v, ast.Name):
            return order_preserving(v.id, depth + 1)
        return False
    # seq itself must be the ordered gather over the index argument
    sv = defs.get(seq)
    idx_param = f.params[2]
    ordered = sv is not None and ('in %s' % idx_param) in src(sv)
    # the memo must live on the object whose name table the cached positions come from: positions looked up in A's table and
    # remembered in B's memo are handed to every later (X, B) pair
    owners = {src(defs[c].value) for c in caches if isinstance(defs[c], ast.Attribute)}
    tables = set()
    for lp in [n for n in walk_no_nested(f.node) if isinstance(n, ast.For)]:
        for x in ast.walk(lp):
            if isinstance(x, ast.Subscript) and isinstance(x.ctx, ast.Load) and isinstance(x.value, ast.Name) and x.value.id in defs \
                    and isinstance(defs[x.value.id], ast.Attribute) and src(defs[x.value.id]).endswith('._index'):
                tables.add(src(defs[x.value.id].value))
            # ... or the name table addressed directly (no local alias)
            if isinstance(x, ast.Subscript) and isinstance(x.ctx, ast.Load) and isinstance(x.value, ast.Attribute) and x.value.attr == '_index' \
                    and isinstance(x.value.value, ast.Name):
                tables.add(src(x.value.value))
    if len(owners) == 1 and len(tables) == 1:
        if owners == tables:
            d7.ok('index_overlap', 'the memo is kept on %s, the object whose name table the cached positions are looked up in' % owners.pop(), f)
        else:
            d7.fail('index_overlap', 'memo-owner', 'the cached positions are looked up in the name table of %s but remembered in the memo of %s: the key does not '
                    'identify the package the positions belong to, so a later pair with another target package receives them' % (tables.pop(), owners.pop()), f, f.node)
    else:
        d7.fail('index_overlap', 'memo-owner', 'memo owner %s / looked-up table %s not recognised' % (sorted(owners), sorted(tables)), f, f.node)
    if order_preserving(key) and ordered:
        d7.ok('index_overlap', 'memo key is an order-preserving encoding of the CAS sequence the cached left index is computed from', f)
    else:
        d7.fail('index_overlap', 'memo-key-lossy', 'the cached left index depends on the order of the CAS sequence but the memo key (= %s) does not determine that order: '
                'a later call with the same chemicals in another order receives positions for the wrong chemicals'
                % (src(defs[key]) if key in defs else key), f, f.node)
