"""C12 -- changing phase representation keeps contents (structural clauses)."""
from __future__ import annotations
import ast, re
from ..frontend import AnalysisError, src, walk_no_nested
from ..symx import run_paths
from ..lin import Form
from ..cfg import CFG
from .. import storage
from ..pathcond import rimplied, implied

MANIFEST = {
    'technique': "must-follow rule on every re-binding of a stream's indexer or of the indexer's data (phase views and equilibrium caches must be refreshed or dropped); "
            'branch-shape rule for the upper/lower-case phase fallback; field-provenance rule for save/restore; alignment rule for whole-array copies; '
            'all-quantifier rule for phases_are_empty / reduce_phases; block-transfer alignment for copy_flow; snapshot reduction rule',
    'text': "Decides for every history: each assignment to a stream's _imol, and each re-binding of its data, outside constructors is followed on every path by "
            'dropping or re-pointing the per-phase sub-streams and by rebuilding the equilibrium caches (or the object leaves the multi-phase state); the '
            'case-insensitive phase fallback is taken only when the exact label is absent; get_data snapshots a copy of the flows plus T, P and phases and set_data '
            'restores all four, phases first; phase views are built over the row object with a locked phase and the shared thermal condition; whole-array copies '
            'between multi-phase indexers happen only between provably equal phase tuples. phases_are_empty answers True only after an exhausted loop over the '
            'requested labels; reduce_phases keeps every label whose own row is non-empty; MultiStream.copy_flow compares the two phase tuples before moving blocks '
            'of rows; set_data reduces a one-phase snapshot of a multi-phase stream before restoring it. Totals over arbitrary operation sequences are not decided.',
}

ST = 'thermosteam/_stream.py'
MS = 'thermosteam/_multi_stream.py'
IX = 'thermosteam/indexer.py'
PH = 'thermosteam/_phase.py'


def run(ctx):
    prog = ctx.prog
    ctx.decided = [
        'D1 dependents (phase sub-streams, equilibrium caches) follow every re-binding of _imol / imol.data',
        'D2 upper/lower-case phase fallback only when the exact label is absent',
        'D3 StreamData snapshots a copy of imol + T, P, phases; set_data restores all four with phases first',
        'D4 phase views are built over the row object, locked phase, shared thermal condition',
        'D5 whole-array copies between multi-phase indexers only between equal phase tuples',
        'D7 phases_are_empty (which decides the collapsed phase string of a MultiStream) answers True only after examining every present label of the group: '
        'inside its loop it may only return False',
    ]
    ctx.not_decided = ['conservation over arbitrary sequences of conversions (needs D1-D5 plus an induction over histories)']
    d1 = ctx.rule('D1', 'dependents follow the storage', floor=5)
    d2 = ctx.rule('D2', 'case fallback is one-sided', floor=3)
    d3 = ctx.rule('D3', 'snapshot / restore fields', floor=5)
    d4 = ctx.rule('D4', 'phase views share row and thermal condition', floor=3)
    d5 = ctx.rule('D5', 'row alignment of whole-array copies', floor=2)
    dependents(ctx, d1)
    case_fallback(ctx, d2)
    snapshot(ctx, d3)
    views(ctx, d4)
    alignment(ctx, d5)
    d6 = ctx.rule('D6', 'the per-(phases, chemicals) index cache is refreshed after its inputs change', floor=3)
    from ..generic import index_cache_follows_inputs
    index_cache_follows_inputs(prog, d6)
    d7 = ctx.rule('D7', 'emptiness of a phase group is decided over every label of the group', floor=3)
    all_quantifier(ctx, d7)
    # reduce_phases ("remove empty phases") must keep every NON-empty label: the per-state summary g / l / s of the `phase` property
    # folds 'l' and 'L' (and 's' and 'S') together, so it may only be used when at most one label survives
    rp = prog.method('MultiStream', 'reduce_phases', rel=MS)
    per_label = [n for n in ast.walk(rp.node) if isinstance(n, (ast.ListComp, ast.GeneratorExp, ast.For))
                 and any(isinstance(x, ast.Call) and isinstance(x.func, ast.Attribute) and x.func.attr in ('any', 'isempty', 'sum') for x in ast.walk(n))
                 and ('self._imol' in src(n) or 'self.imol' in src(n) or 'self.phases' in src(n))]
    keeps = [n for n in walk_no_nested(rp.node) if isinstance(n, ast.Assign) and any(src(t) == 'self.phases' for t in n.targets)]
    if per_label and keeps:
        d7.ok('MultiStream.reduce_phases', 'the surviving phases are the labels whose own row is non-empty', rp, keeps[0])
    else:
        d7.fail('MultiStream.reduce_phases', 'collapses-by-group', 'reduce_phases decides through the per-state summary (g, l, s) only: with material in both \'l\' and \'L\' '
                'the two liquids are merged into one phase', rp, rp.node)


def _views_refreshed(x):
    # self._streams.clear() / self._streams = {} / stream._imol = self._imol.get_phase(phase)
    if isinstance(x, ast.Call) and isinstance(x.func, ast.Attribute) and x.func.attr == 'clear' and src(x.func.value).endswith('._streams'):
        return True
    if isinstance(x, ast.Attribute) and isinstance(x.ctx, ast.Store) and x.attr == '_streams' and src(x.value) == 'self':
        return True
    if isinstance(x, ast.Assign) and any(isinstance(t, ast.Attribute) and t.attr == '_imol' and src(t.value) != 'self' for t in x.targets) \
            and 'get_phase(' in src(x.value):
        return True
    return False


def _caches_refreshed(x):
    if isinstance(x, ast.Call) and src(x.func) == 'self.reset_cache':
        return True
    if isinstance(x, ast.Attribute) and isinstance(x.ctx, ast.Store) and x.attr == '_vle_cache' and src(x.value) == 'self':
        return True
    if isinstance(x, ast.Attribute) and isinstance(x.ctx, ast.Store) and x.attr == '__class__' and src(x.value) == 'self':
        return True      # leaves the multi-phase state
    return False


def dependents(ctx, d1):
    prog = ctx.prog
    for cname, rel in (('Stream', ST), ('MultiStream', MS)):
        c = prog.cls(cname, rel)
        for f in list(c.methods.values()) + list(c.setters.values()):
            if f.cls is not c:
                continue
            amap = storage.alias_map(f.node)
            fresh = storage.fresh_names(f.node)
            sites = []
            for n in walk_no_nested(f.node):
                if isinstance(n, ast.Attribute) and isinstance(n.ctx, ast.Store) and not isinstance(getattr(n, '_parent', None), ast.AugAssign):
                    recv = src(n.value)
                    if n.attr == '_imol' and recv == 'self':
                        sites.append((n, 'imol'))
                    elif n.attr == 'data' and storage.resolve(recv, amap) in ('self._imol', 'self.imol'):
                        sites.append((n, 'data'))
                if isinstance(n, ast.Call) and isinstance(n.func, ast.Attribute) and n.func.attr == 'reset_chemicals' \
                        and storage.resolve(src(n.func.value), amap) in ('self._imol', 'self.imol'):
                    sites.append((n, 'reset_chemicals'))
            if not sites:
                continue
            if storage.is_ctor(f):
                for n, k in sites:
                    d1.ok(f.qualname, 'constructor binds its own indexer', f, storage.stmt_of(n))
                continue
            cfg = CFG(f.node)
            dom = cfg.dominators()
            for n, k in sites:
                st = storage.stmt_of(n)
                node = cfg.node_of(st)
                cons = f.qualname
                what = {'imol': 'self._imol is re-bound', 'data': 'the indexer\'s data is re-bound', 'reset_chemicals': 'the indexer is re-indexed (data re-bound)'}[k]
                def views_pred(nd):
                    if storage.node_has(nd, _views_refreshed):
                        return True
                    # a loop over the view container whose every iteration re-points its view (no iteration <=> no view)
                    if nd.kind == 'for' and isinstance(nd.ast, ast.For) and (src(nd.ast.iter).startswith('self._streams') or any(
                            isinstance(x, ast.Call) and src(x.func) == 'getattr' and len(x.args) >= 2 and src(x.args[0]) == 'self'
                            and isinstance(x.args[1], ast.Constant) and x.args[1].value == '_streams' for x in ast.walk(nd.ast.iter))):
                        return any(_views_refreshed(x) for st_ in nd.ast.body for x in ([st_] + ([st_.value] if isinstance(st_, ast.Expr) else [])))
                    return False

                def no_views_edge(a, b, label):
                    # the branch of a `hasattr(self, '_streams')` test on which the attribute is absent: no view exists there
                    if a.kind != 'test' or not isinstance(a.ast, ast.If) or label not in (True, False):
                        return False
                    t, neg = a.ast.test, False
                    while isinstance(t, ast.UnaryOp) and isinstance(t.op, ast.Not):
                        t, neg = t.operand, not neg
                    return src(t) == "hasattr(self, '_streams')" and label == neg
                v_ok, wit = cfg.must_pass(node, views_pred, edge_blocked=no_views_edge)
                if not v_ok and storage.node_has(node, _views_refreshed):
                    v_ok = True
                c_ok, wit2 = cfg.must_pass(node, lambda nd: storage.node_has(nd, _caches_refreshed))
                if k in ('data', 'reset_chemicals'):
                    # equilibrium solvers hold the indexer object, not its data: only the views need refreshing
                    c_ok = True
                if v_ok and c_ok:
                    d1.ok(cons, '%s; phase sub-streams dropped/re-pointed%s afterwards on every path'
                          % (what, '' if k != 'imol' else ' and equilibrium caches rebuilt'), f, st)
                else:
                    miss = []
                    if not v_ok:
                        miss.append('the per-phase sub-streams keep the old rows (views detached)')
                    if not c_ok:
                        miss.append('the equilibrium caches keep the old indexer')
                    d1.fail(cons, 'stale-dependents-%s' % k, '%s but %s' % (what, ' and '.join(miss)), f, st)


def _is_flip_expr(e, X, module, depth=0):
    """e evaluates to X with its case swapped: X.swapcase(), X.lower() if X.isupper() else X.upper() (or the mirrored form), or a call of a
    module-level helper whose single return is such an expression of its parameter"""
    def call_on(x, meth):
        return isinstance(x, ast.Call) and isinstance(x.func, ast.Attribute) and x.func.attr == meth and src(x.func.value) == X and not x.args
    if call_on(e, 'swapcase'):
        return True
    if isinstance(e, ast.IfExp):
        t = e.test
        neg = isinstance(t, ast.UnaryOp) and isinstance(t.op, ast.Not)
        if neg:
            t = t.operand
        a, b = (e.orelse, e.body) if neg else (e.body, e.orelse)
        if call_on(t, 'isupper') and call_on(a, 'lower') and call_on(b, 'upper'):
            return True
        if call_on(t, 'islower') and call_on(a, 'upper') and call_on(b, 'lower'):
            return True
    if isinstance(e, ast.Call) and isinstance(e.func, ast.Name) and len(e.args) == 1 and src(e.args[0]) == X and depth < 2:
        h = module.functions.get(e.func.id)
        if h is not None and len(h.params) == 1:
            rets = [r for r in walk_no_nested(h.node) if isinstance(r, ast.Return)]
            body = [st for st in h.node.body if not (isinstance(st, ast.Expr) and isinstance(st.value, ast.Constant))]
            if len(rets) == 1 and len(body) == 1:
                return _is_flip_expr(rets[0].value, h.params[0], module, depth + 1)
            if len(body) == 1 and isinstance(body[0], ast.If):
                return _flips_case_return(body[0], h.params[0])
    return False


def _flips_case_return(node, X):
    """if X.isupper(): return X.lower()  else: return X.upper()"""
    if not (isinstance(node, ast.If) and src(node.test) == '%s.isupper()' % X and len(node.body) == 1 and len(node.orelse) == 1):
        return False
    a, b = node.body[0], node.orelse[0]
    return isinstance(a, ast.Return) and isinstance(b, ast.Return) and src(a.value) == '%s.lower()' % X and src(b.value) == '%s.upper()' % X


def _flips_case(st, X, module):
    """the statement re-binds X to X with its case swapped"""
    if isinstance(st, ast.Assign) and len(st.targets) == 1 and src(st.targets[0]) == X:
        return _is_flip_expr(st.value, X, module)
    if isinstance(st, ast.If) and src(st.test) in ('%s.isupper()' % X, '%s.islower()' % X) and len(st.body) == 1 and len(st.orelse) == 1:
        up = src(st.test).endswith('isupper()')
        a, b = (st.body[0], st.orelse[0]) if up else (st.orelse[0], st.body[0])
        return src(a) == '%s = %s.lower()' % (X, X) and src(b) == '%s = %s.upper()' % (X, X)
    return False


def case_fallback(ctx, d2):
    """decided per path: the label that indexes the new indexer is the source label itself where `label in phases` holds, and the
    case-flipped label (in the direction the isupper()/islower() test taken on the path dictates) only where it does not"""
    from ..pathcond import resolved_conds, implied as _imp
    prog = ctx.prog
    sites = [('ChemicalIndexer', 'to_material_indexer', IX), ('MaterialIndexer', 'to_material_indexer', IX)]
    for cname, mname, rel in sites:
        f = prog.method(cname, mname, rel=rel)
        cons = '%s.%s' % (cname, mname)
        pp = f.params[1]
        fresh = {t.id for n in walk_no_nested(f.node) if isinstance(n, ast.Assign) and isinstance(n.value, ast.Call) and src(n.value.func).endswith('.blank')
                 for t in n.targets if isinstance(t, ast.Name)}
        ps, _ = run_paths(f.node, max_paths=2000)
        n_use = 0
        bad = None
        for p in ps:
            if p.raised:
                continue
            rc = resolved_conds(p, keep=set(f.params))
            for e in p.events:
                m_ = None
                # the subscripted object is the indexer built by <...>.blank(...) in this function (the local is resolved to that call)
                nd_ = e.node.func.value if (e.kind == 'call' and isinstance(e.node, ast.Call) and isinstance(e.node.func, ast.Attribute)) else e.node
                if not (isinstance(nd_, ast.Subscript) and isinstance(nd_.value, ast.Name) and nd_.value.id in fresh):
                    continue
                if e.kind == 'call':
                    m_ = re.match(r'^(.+)\[([^\[\]]+)\]\.\w+$', e.target)
                elif e.kind in ('augstore', 'store'):
                    m_ = re.match(r'^(.+)\[([^\[\]]+)\]$', e.target)
                if not m_:
                    continue
                n_use += 1
                L = m_.group(2)
                flip = None
                for suf in ('.lower()', '.upper()', '.swapcase()'):
                    if L.endswith(suf):
                        flip, B = suf, L[:-len(suf)]
                if flip is None:
                    B = L

                def side(x):
                    t = src(x)
                    return t == B or p.lin.text(x) == B if hasattr(p.lin, 'text') else t == B

                def both(pos, neg):
                    a = _imp(rc, pos)
                    if a is not None:
                        return a
                    b = _imp(rc, neg)
                    return None if b is None else not b
                present = both(lambda t: isinstance(t, ast.Compare) and len(t.ops) == 1 and isinstance(t.ops[0], ast.In) and src(t.left) == B and src(t.comparators[0]) == pp,
                               lambda t: isinstance(t, ast.Compare) and len(t.ops) == 1 and isinstance(t.ops[0], ast.NotIn) and src(t.left) == B and src(t.comparators[0]) == pp)
                upper = both(lambda t: isinstance(t, ast.Call) and isinstance(t.func, ast.Attribute) and t.func.attr == 'isupper' and src(t.func.value) == B,
                             lambda t: isinstance(t, ast.Call) and isinstance(t.func, ast.Attribute) and t.func.attr == 'islower' and src(t.func.value) == B)
                if flip is None:
                    if present is not True:
                        bad = bad or ('no-fallback-guard', 'phase label is remapped without testing that the exact label is absent', e.stmt)
                elif present is not False:
                    bad = bad or ('no-fallback-guard', 'phase label is remapped without testing that the exact label is absent', e.stmt)
                elif (flip == '.lower()' and upper is not True) or (flip == '.upper()' and upper is not False):
                    bad = bad or ('fallback-shape', 'the case fallback is not (flip only when the exact label is absent)', e.stmt)
        if not n_use:
            d2.fail(cons, 'no-fallback-guard', 'phase label is remapped without testing that the exact label is absent', f, f.node)
        elif bad:
            d2.fail(cons, bad[0], bad[1], f, bad[2])
        else:
            d2.ok(cons, 'label is case-flipped only when the exact label is absent from the target phases (%d uses on all paths)' % n_use, f)
    # distinct source phases can fold onto one target row (l and L -> l): the fold must be additive into a blank indexer
    f = prog.method('MaterialIndexer', 'to_material_indexer', rel=IX)
    blank = [n for n in walk_no_nested(f.node) if isinstance(n, ast.Assign) and isinstance(n.targets[0], ast.Name) and '.blank(' in src(n.value)]
    MI = blank[0].targets[0].id if blank else None
    st = [n for n in walk_no_nested(f.node) if isinstance(n, (ast.Assign, ast.AugAssign)) and any(
        isinstance(t, ast.Subscript) and src(t.value) == MI for t in (n.targets if isinstance(n, ast.Assign) else [n.target]))]
    if len(st) == 1 and isinstance(st[0], ast.AugAssign) and isinstance(st[0].op, ast.Add) and blank:
        d2.ok('MaterialIndexer.to_material_indexer', 'rows folding onto the same target phase are added into a blank indexer', f, st[0])
    else:
        d2.fail('MaterialIndexer.to_material_indexer', 'fold-not-additive', 'source phases that fold onto the same target row overwrite each other instead of being added '
                '(or the target does not start blank)', f, st[0] if st else f.node)
    f = prog.method('PhaseIndexer', '__new__', rel=PH)
    ok3 = False
    for n in walk_no_nested(f.node):
        if isinstance(n, ast.If) and isinstance(n.test, ast.Compare) and isinstance(n.test.ops[0], ast.NotIn) and len(n.body) == 1 \
                and isinstance(n.body[0], ast.Assign) and isinstance(n.body[0].targets[0], ast.Subscript):
            X, D = src(n.test.left), src(n.test.comparators[0])
            t = n.body[0].targets[0]
            if src(t.value) == D and src(t.slice) == X:
                ok3 = True
    if ok3:
        d2.ok('PhaseIndexer.__new__', 'the flipped-case alias is registered only when that label is not a real phase', f)
    else:
        d2.fail('PhaseIndexer.__new__', 'alias-overrides', 'the flipped-case alias may override a real phase label', f, f.node)
    g = prog.method('MaterialIndexer', 'mix_from', rel=IX)
    own = {t.id for n in walk_no_nested(g.node) if isinstance(n, ast.Assign) and src(n.value) == 'self._phases' for t in n.targets if isinstance(t, ast.Name)}
    lp = [n for n in walk_no_nested(g.node) if isinstance(n, ast.For) and isinstance(n.iter, ast.Call) and isinstance(n.iter.func, ast.Attribute)
          and n.iter.func.attr == 'difference' and n.iter.args and src(n.iter.args[0]) in own]
    if lp:
        d2.ok('MaterialIndexer.mix_from', 'case aliases are created only for inlet phases absent from the receiver', g, lp[0])
    else:
        d2.fail('MaterialIndexer.mix_from', 'alias-scope', 'case aliases are not restricted to phases absent from the receiver', g, g.node)


def snapshot(ctx, d3):
    prog = ctx.prog
    init = prog.method('StreamData', '__init__', rel=ST)
    ps, _ = run_paths(init.node)
    st = {e.target: e.value.pretty() for e in ps[0].events if e.kind == 'store'}
    a = init.params
    want = {'self._imol': '%s.copy()' % a[1], 'self._T': '%s._T' % a[2], 'self._P': '%s._P' % a[2], 'self._phases': a[3]}
    for k, v in want.items():
        if st.get(k) == v:
            d3.ok('StreamData.__init__', '%s = %s' % (k, v), init)
        else:
            d3.fail('StreamData.__init__', 'field-' + k.split('.')[-1], '%s is %s, expected %s' % (k, st.get(k), v), init, init.node)
    g = prog.method('Stream', 'get_data', rel=ST)
    ps, _ = run_paths(g.node)
    r = ps[0].ret_node.value if ps and ps[0].ret_node is not None else None
    if r is not None and src(r) == 'StreamData(self._imol, self._thermal_condition, self.phases)':
        d3.ok('Stream.get_data', 'snapshot of (imol, thermal condition, phases)', g)
    else:
        d3.fail('Stream.get_data', 'args', 'get_data does not snapshot (imol, thermal condition, phases)', g, g.node)
    s = prog.method('Stream', 'set_data', rel=ST)
    ps, _ = run_paths(s.node)
    sd = s.params[1]
    good = True
    normal = [q for q in ps if not q.raised]
    for p in normal:
        ev = p.events
        ph = [e for e in ev if e.kind == 'store' and e.target == 'self.phases' and e.value.pretty() == '%s._phases' % sd]
        # the flows come from the snapshot's indexer: the indexer itself, or -- for the snapshot of a multi-phase stream that held one phase --
        # its reduction to that phase
        fl = [e for e in ev if e.kind == 'call' and e.target == 'self._imol.copy_like' and e.value and e.value[0].pretty().startswith('%s._imol' % sd)]
        tc = [e for e in ev if e.kind == 'call' and e.target == 'self._thermal_condition.copy_like' and e.value[0].pretty() == sd]
        if not (ph and fl and tc and ev.index(ph[0]) < ev.index(fl[0])):
            good = False
    if good and normal:
        d3.ok('Stream.set_data', 'phases restored first, then flows, then T and P (all %d normal paths)' % len(normal), s)
    else:
        d3.fail('Stream.set_data', 'restore-order', 'set_data does not restore phases, flows and thermal condition (phases first)', s, s.node)
    # kind agreement: after `self.phases = <one phase>` the stream is single-phase; a multi-phase snapshot must then be reduced to that phase
    red = [n for n in walk_no_nested(s.node) if isinstance(n, ast.Call) and isinstance(n.func, ast.Attribute) and n.func.attr in ('to_chemical_indexer', 'get_phase')]
    if red:
        d3.ok('Stream.set_data', 'a one-phase snapshot of a multi-phase stream is reduced to that phase before it is copied into the (now single-phase) stream', s, red[0])
    else:
        d3.fail('Stream.set_data', 'one-phase-snapshot', 'restoring the snapshot of a multi-phase stream that held a single phase copies a 2-d indexer into a single-phase '
                'stream (AttributeError): get_data/set_data and pickling do not round-trip for such streams', s, s.node)
    # ThermalCondition.copy_like reads _T/_P (StreamData provides them)
    tcl = prog.method('ThermalCondition', 'copy_like')
    t = ' '.join(ast.unparse(tcl.node).split())
    if 'self._T = other._T' in t and 'self._P = other._P' in t:
        d3.ok('ThermalCondition.copy_like', 'copies _T and _P (the fields StreamData records)', tcl)
    else:
        d3.fail('ThermalCondition.copy_like', 'fields', 'copy_like does not copy _T and _P', tcl, tcl.node)


def views(ctx, d4):
    prog = ctx.prog
    f = prog.method('MultiStream', '__getitem__', rel=MS)
    ps, _ = run_paths(f.node)
    okk = False
    for p in ps:
        st = {e.target: e.value.pretty() for e in p.events if e.kind == 'store'}
        if any(k.endswith('._imol') for k in st):
            v = [k for k in st if k.endswith('._imol')][0][:-len('._imol')]
            okk = st.get(v + '._imol') == 'self._imol.get_phase(phase)' and st.get(v + '._thermal_condition') == 'self._thermal_condition' \
                and any(k.startswith('self._streams[') for k in st)
    if okk:
        d4.ok('MultiStream.__getitem__', 'view = get_phase(phase) over the shared thermal condition, memoised per phase', f)
    else:
        d4.fail('MultiStream.__getitem__', 'view-shape', 'phase view is not built from get_phase(phase) and the shared thermal condition', f, f.node)
    # get_phase: the value returned is <ChemicalIndexer>.from_data(<the row object of that phase>, LockedPhase(phase), chemicals, check_data=False)
    from ..resolve import resolved, path_defs
    g = prog.method('MaterialIndexer', 'get_phase', rel=IX)
    gps, _ = run_paths(prog.normal_form(g), follow_except=False)
    gps = [p for p in gps if not p.raised]
    okg = bool(gps)
    ph = g.params[1]
    for p in gps:
        rv = resolved(p.ret_node.value, path_defs(p), keep=set(g.params)) if p.ret_node is not None and p.ret_node.value is not None else None
        if not (isinstance(rv, ast.Call) and isinstance(rv.func, ast.Attribute) and rv.func.attr == 'from_data' and rv.args):
            okg = False
            continue
        a0 = rv.args[0]
        row = isinstance(a0, ast.Subscript) and src(a0.value) == 'self.data.rows' and src(a0.slice) in ('self.get_phase_index(%s)' % ph, 'self._phase_indexer(%s)' % ph)
        locked = len(rv.args) > 1 and isinstance(rv.args[1], ast.Call) and src(rv.args[1].func) == 'LockedPhase' and [src(x) for x in rv.args[1].args] == [ph]
        unchecked = (len(rv.args) > 3 and isinstance(rv.args[3], ast.Constant) and rv.args[3].value is False) \
            or any(k.arg == 'check_data' and isinstance(k.value, ast.Constant) and k.value.value is False for k in rv.keywords)
        okg = okg and row and locked and unchecked
    if okg:
        d4.ok('MaterialIndexer.get_phase', 'wraps the row object itself (no copy, no data check) with a locked phase', g)
    else:
        d4.fail('MaterialIndexer.get_phase', 'row-copy', 'get_phase does not wrap the row object itself with a locked phase', g, g.node)
    # from_data keeps a SparseVector it is given: it goes through sparse_vector(data), which returns its argument itself on the
    # path where the argument already is a sparse vector and no copy was asked for
    h = prog.method('ChemicalIndexer', 'from_data', rel=IX)
    uses = [n for n in walk_no_nested(prog.normal_form(h)) if isinstance(n, ast.Call) and src(n.func) == 'sparse_vector' and len(n.args) == 1 and not n.keywords
            and src(n.args[0]) == h.params[1]]
    if uses:
        sv = prog.func('thermosteam/base/sparse.py', 'sparse_vector')
        sps, _ = run_paths(prog.normal_form(sv), follow_except=False)
        ap = sv.params[0]
        passes = False
        for p in sps:
            if p.raised or p.ret is None:
                continue
            cp = implied(p.conds, lambda t: src(t) == sv.params[1])
            if p.ret == Form.atom(ap) and cp is not True and not [e for e in p.events if e.kind in ('store', 'augstore')]:
                passes = True
        if passes:
            d4.ok('ChemicalIndexer.from_data', 'sparse_vector() passes an existing SparseVector through unchanged (the view shares the row)', h)
        else:
            d4.fail('ChemicalIndexer.from_data', 'copies', 'from_data copies the row it is given', h, h.node)
    else:
        d4.fail('ChemicalIndexer.from_data', 'anchor', 'from_data no longer uses sparse_vector(data)', h, h.node)


def alignment(ctx, d5):
    prog = ctx.prog
    f = prog.method('MaterialIndexer', 'copy_like', rel=IX)
    ps, trunc = run_paths(f.node, max_paths=2000)
    seen = {}
    for p in ps:
        if p.raised:
            continue
        for e in p.events:
            whole = None
            if e.kind == 'call' and e.target == 'self.data.copy_like' and e.value and e.value[0].pretty().endswith('.data'):
                whole = 'data.copy_like(other.data)'
            if e.kind == 'store' and re.match(r'^self\.data\[:+, ', e.target):
                whole = 'data[:, left] = other[:, right]'
            if whole is None:
                continue
            o_ = f.params[1]
            same = rimplied(p, lambda t: t in ('(self._phase_indexer is %s._phase_indexer)' % o_, '(%s._phase_indexer is self._phase_indexer)' % o_))
            key = (e.stmt.lineno, whole)
            if same is True:
                seen.setdefault(key, []).append((True, e))
            else:
                seen.setdefault(key, []).append((False, e))
    for (ln, whole), lst in sorted(seen.items()):
        e = lst[0][1]
        if all(ok for ok, _ in lst):
            d5.ok('MaterialIndexer.copy_like', 'positional copy %s only when both sides have the same phase indexer' % whole, f, e.stmt)
        else:
            d5.fail('MaterialIndexer.copy_like', 'positional-copy-misaligned',
                    'rows are copied by position (%s) on a path where the two phase tuples are not known to be equal' % whole, f, e.stmt)
    if not seen:
        raise AnalysisError('MaterialIndexer.copy_like: no whole-array copies found')
    # MultiStream.copy_flow transfers 2-d blocks between the data of two multi-phase streams: positions mean the same phase only
    # if the phase tuples are equal, so the function must compare them (and re-derive the source rows by label otherwise)
    g = prog.method('MultiStream', 'copy_flow', rel=MS)
    o_ = g.params[1]
    transfers = [n for n in walk_no_nested(g.node) if isinstance(n, ast.Assign) and isinstance(n.targets[0], ast.Subscript)
                 and isinstance(n.value, ast.Subscript) and isinstance(n.targets[0].slice, ast.Tuple) and isinstance(n.value.slice, ast.Tuple)]
    if not transfers:
        raise AnalysisError('MultiStream.copy_flow: no block transfers found')

    def compares_phases(t):
        for c in ast.walk(t):
            if isinstance(c, ast.Compare) and len(c.comparators) == 1:
                a, b = src(c.left), src(c.comparators[0])
                if 'phases' in a and 'phases' in b and ((a.startswith('self') and b.startswith(o_)) or (b.startswith('self') and a.startswith(o_))):
                    return True
        return False
    guards = [n for n in g.node.body if isinstance(n, ast.If) and compares_phases(n.test)
              and any(isinstance(x, ast.Assign) for x in ast.walk(n))]
    first = min(n.lineno for n in transfers)
    if guards and guards[0].lineno < first:
        d5.ok('MultiStream.copy_flow', '%d block transfers, all after the phase tuples of the two streams are compared and the source rows re-derived by label' % len(transfers), g, guards[0])
    else:
        d5.fail('MultiStream.copy_flow', 'positional-copy-misaligned', 'blocks of rows are copied by position between two multi-phase streams without comparing their phase tuples: '
                'with different tuples the material lands in another phase and unmatched rows keep stale flows', g, transfers[0])


def all_quantifier(ctx, rule):
    """MultiStream.phase / reduce_phases / as_stream collapse a stream to "the phases actually present" by asking, for each of
    the groups g, lL, sS, whether ALL rows of the group are empty.  A universally quantified answer must come from an exhausted
    loop: a return inside the loop body other than the constant False makes the answer depend on the first label only."""
    prog = ctx.prog
    f = prog.method('MaterialIndexer', 'phases_are_empty', rel=IX)
    loops = [n for n in walk_no_nested(f.node) if isinstance(n, (ast.For, ast.While))]
    if not loops:
        # a comprehension / any() / all() form: accept `not any(...)` / `all(not ...)` over the labels
        rets = [n for n in walk_no_nested(f.node) if isinstance(n, ast.Return)]
        if rets and all(isinstance(r.value, (ast.UnaryOp, ast.Call)) and ('any(' in src(r.value) or 'all(' in src(r.value)) for r in rets):
            rule.ok('MaterialIndexer.phases_are_empty', 'quantified with any()/all() over the labels', f)
            rule.ok('MaterialIndexer.phases_are_empty', 'no early positive answer', f)
            rule.ok('MaterialIndexer.phases_are_empty', 'covers the requested labels', f)
        else:
            rule.fail('MaterialIndexer.phases_are_empty', 'no-quantifier', 'neither a loop nor any()/all() over the labels of the group', f, f.node)
        return
    loop = loops[0]
    inner = [n for st in loop.body for n in ast.walk(st) if isinstance(n, ast.Return)]
    bad = [r for r in inner if not (isinstance(r.value, ast.Constant) and r.value.value is False)]
    if bad:
        rule.fail('MaterialIndexer.phases_are_empty', 'early-positive-answer',
                  'returns %s from inside the loop over the labels: the group is declared empty (or not) after looking at the first label only' % src(bad[0].value), f, bad[0])
    elif inner:
        rule.ok('MaterialIndexer.phases_are_empty', 'inside the loop only `return False` (a non-empty row is a counterexample)', f, inner[0])
    else:
        rule.fail('MaterialIndexer.phases_are_empty', 'no-counterexample', 'the loop never answers False', f, loop)
    # after the loop: True
    after = [n for n in f.node.body if isinstance(n, ast.Return)]
    if after and isinstance(after[-1].value, ast.Constant) and after[-1].value.value is True:
        rule.ok('MaterialIndexer.phases_are_empty', 'True only after the loop is exhausted', f, after[-1])
    else:
        rule.fail('MaterialIndexer.phases_are_empty', 'final-answer', 'the function does not end with `return True` after the loop', f, f.node)
    # the loop ranges over the requested labels (possibly restricted to those the indexer has)
    it = src(loop.iter) if isinstance(loop, ast.For) else ''
    prm = f.params[1]
    if isinstance(loop, ast.For) and any(isinstance(x, ast.Name) and x.id == prm for x in ast.walk(loop.iter)):
        rule.ok('MaterialIndexer.phases_are_empty', 'iterates over the requested labels (%s)' % it, f, loop)
    else:
        rule.fail('MaterialIndexer.phases_are_empty', 'range', 'the loop does not range over the requested labels', f, loop)
