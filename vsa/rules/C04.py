"""C04 -- a flash honours its specifications: specification plumbing (one clause)."""
from __future__ import annotations
import ast, re
from ..frontend import AnalysisError, src, walk_no_nested
from ..symx import run_paths
from ..lin import Form, Lin
from ..pathcond import implied

MANIFEST = {
    'technique': 'quantity-kind (T/P) typing of every value stored into the thermal condition, plus a must-store rule for the specified quantities on every normal path '
            '(interprocedural through the single-component helpers); exhaustiveness of the VLE.__call__ dispatch; taint + must-pass rule for flow-derived per-call '
            'state in VLE._setup; symbolic shape check of the equilibrium-ratio update, the Rachford-Rice composition update and the fugacity functions '
            '(iso-fugacity); lever-rule form check with call-site versioning; index-space typing of every gather (full-tuple positions vs sub-sequences, tables read from _compile)',
    'text': 'Decides for every input the specification-plumbing clause only: on every normal return of each set_XY/_set_XY_chemical the specified T (resp. P) is '
            'what the thermal condition holds, every value stored into T is temperature-kinded and into P pressure-kinded, VLE.__call__ passes each specification '
            'to the parameter of the same kind and its dispatch over specification pairs is exhaustive; every field that VLE._setup computes from the amounts of '
            'this call (totals and compositions the V/H/S residuals divide by) is stored on every normal path, never only when the set of non-zero chemicals '
            'changed. The iso-fugacity clause is decided in shape: both fixed-point kernels update K <- pcf*Psat/P*gamma(x)/phi(y) with x, y = xy(x, K) and x <- '
            'z/(1+V(K-1)); the Gibbs-minimisation path uses f_L = x*gamma(x)*pcf*Psat and f_V = y*P*phi(y). In the four single-component H/S helpers the vapour '
            'fraction on the two-phase path is (X - X_bubble)/(X_dew - X_bubble), X_dew evaluated with the vapour row full and X_bubble with it empty. Residuals of '
            'V/H/S specifications, iso-fugacity, Rachford-Rice agreement and scaling are numerical and not decided. The chemicals the solver objects are built for and '
            'every array gathered for them are taken at full-tuple positions from full-length sequences only (index-space rule; tables read from CompiledChemicals._compile).',
}

VLEF = 'thermosteam/equilibrium/vle.py'
class _Sink:
    """(^|\\.)_?thermal_condition\\.X$  decided with endswith (target texts can be tens of kilobytes after inlining)"""
    def __init__(self, letter):
        self.tails = ('thermal_condition.' + letter, '_thermal_condition.' + letter)

    def search(self, t):
        for tail in self.tails:
            if t.endswith(tail):
                head = t[:-len(tail)]
                if head == '' or head.endswith('.'):
                    return True
        return None


TSINK = _Sink('T')
PSINK = _Sink('P')

KIND_ATOM = [
    (re.compile(r'^T$'), 'T'), (re.compile(r'^P$'), 'P'),
    (re.compile(r'\.Psat\('), 'P'), (re.compile(r'\.Tsat\('), 'T'),
    (re.compile(r'x?solve_T_at_(HP|SP)\('), 'T'),
    (re.compile(r'^\(.*\.solve_(Ty|Tx)\(.*\)\)\[0\]$'), 'T'),
    (re.compile(r'^\(.*\.solve_(Py|Px)\(.*\)\)\[0\]$'), 'P'),
    (re.compile(r'IQ_interpolation\(self\._\w+_at_T\b'), 'T'),
    (re.compile(r'IQ_interpolation\(self\._\w+_at_P\b'), 'P'),
    (re.compile(r'\.(Tmin|Tmax)$'), 'T'), (re.compile(r'\.(Pmin|Pmax)$'), 'P'),
    (re.compile(r'^self\._T$'), 'T'), (re.compile(r'^self\._P$'), 'P'),
    (re.compile(r'thermal_condition\.T$'), 'T'), (re.compile(r'thermal_condition\.P$'), 'P'),
    (re.compile(r'\.Tm$'), 'T'), (re.compile(r'\.Tb$'), 'T'),
]


_KIND_MEMO = {}


def atom_kind(a):
    # memoised: the same (possibly very long, after inlining) atom texts recur on thousands of paths
    if a in _KIND_MEMO:
        return _KIND_MEMO[a]
    out = None
    for rx, k in KIND_ATOM:
        if rx.pattern.startswith('^\\(.*\\.solve_'):
            # linear-time form of  ^\(.*\.solve_X\(.*\)\)\[0\]$
            names = ('.solve_Ty(', '.solve_Tx(') if 'Ty|Tx' in rx.pattern else ('.solve_Py(', '.solve_Px(')
            if a.startswith('(') and a.endswith('))[0]') and any(n in a for n in names):
                out = k
                break
            continue
        if rx.search(a):
            out = k
            break
    _KIND_MEMO[a] = out
    return out


def form_kind(f):
    """kind of a linear combination: every term must be (constant x one kinded atom)"""
    kinds = set()
    if f.is_zero():
        return None
    for k, v in f.t.items():
        if k == ():
            continue        # additive constant (e.g. a 0.5 K nudge)
        if len(k) != 1 or k[0][1] != 1:
            return None
        kinds.add(atom_kind(k[0][0]))
    if len(kinds) == 1:
        return kinds.pop()
    return None


def run(ctx):
    prog = ctx.prog
    ctx.decided = ['D6 the equilibrium chemicals, their flows and every per-chemical table gathered for them are taken at the positions CompiledChemicals hands out '
                   '(get_vle_indices, _light_indices, ...: positions in the FULL chemical tuple, read from _compile) from full-length sequences only, never from the '
                   'shorter sub-sequences (vle_chemicals, ...) or from something already gathered',
                   'D2 every equilibrium component object built by the solver receives the solver\'s own property package (never the global default)',
                   'D4 iso-fugacity shape: both fixed-point kernels update K <- pcf*Psat/P * gamma(x)/phi(y) (gamma at the liquid, phi at the vapour composition) '
                   'and x <- z/(1+V(K-1)); xy gives y ~ x*K; the Gibbs-minimisation path uses f_L = x*gamma(x)*pcf*Psat and f_V = y*P*phi(y)',
                   'D5 single-component H/S specifications: the vapour fraction on the two-phase path is (X - X_bubble)/(X_dew - X_bubble), X_dew evaluated with all '
                   'material in the vapour row and X_bubble with all in the liquid row, and the vapour amount is mol*V (so that V*X_dew + (1-V)*X_bubble = X)',
                   'D1 specification plumbing: specified T/P reach the thermal condition on every normal path, stored values have the sink\'s kind, '
                   'VLE.__call__ dispatch passes like to like and is exhaustive']
    ctx.not_decided = ['residuals of V/H/S specifications', 'iso-fugacity and phase-boundary clauses', 'agreement with Rachford-Rice', 'flow scaling']
    d1 = ctx.rule('D1', 'specified T/P stored; kinds of values stored into T/P sinks', floor=30)
    d2 = ctx.rule('D1x', 'VLE.__call__ dispatch: like to like, exhaustive', floor=12)
    vle = prog.cls('VLE', VLEF)
    entries = sorted(n for n in vle.methods if re.match(r'^_?set_(T|P)[A-Za-z]+(_chemical)?$', n) or n == 'set_thermal_condition')
    ctx.anchor(len(entries) >= 17, 'VLE: expected >= 17 set_* entry points, found %d' % len(entries))
    cache = {}

    def spec_kinds(name):
        if name.startswith('set_thermal_condition') or name == '_set_thermal_condition_chemical':
            return ['T', 'P']
        m = re.match(r'^_?set_([A-Za-z]+?)(_chemical)?$', name)
        return [c for c in m.group(1) if c in 'TP']

    def analyse(name):
        if name in cache:
            return cache[name]
        cache[name] = None
        f = vle.methods[name]
        ps, trunc = run_paths(f.node, max_paths=60000, follow_except=False)
        out = {'paths': [], 'f': f}
        for p in ps:
            if p.raised:
                continue
            last = {}
            stores = []
            for e in p.events:
                if e.kind == 'store':
                    if TSINK.search(e.target):
                        last['T'] = e
                        stores.append(('T', e))
                    elif PSINK.search(e.target):
                        last['P'] = e
                        stores.append(('P', e))
            deleg = None
            if p.ret_node is not None and isinstance(p.ret_node.value, ast.Call) and isinstance(p.ret_node.value.func, ast.Attribute) \
                    and src(p.ret_node.value.func.value) == 'self' and p.ret_node.value.func.attr in vle.methods:
                deleg = (p.ret_node.value.func.attr, [src(a) for a in p.ret_node.value.args])
            out['paths'].append((p, last, stores, deleg))
        cache[name] = out
        return out

    def ensures(name, kind, pname, have=False, depth=0):
        """on every normal path the sink of `kind` finally holds parameter `pname` (given whether it
        holds it on entry); returns list of failing (path, why)"""
        a = analyse(name)
        fails = []
        if a is None or depth > 3:
            return fails
        for p, last, stores, deleg in a['paths']:
            e = last.get(kind)
            state = have if e is None else (e.value == Form.atom(pname))
            if deleg is not None:
                callee, args = deleg
                cf = vle.methods[callee]
                if pname in args:
                    cp = cf.params[1 + args.index(pname)]
                    sub = ensures(callee, kind, cp, state, depth + 1)
                    if sub:
                        fails.append((p, 'delegates to %s, which %s' % (callee, sub[0][1])))
                    continue
            if state:
                continue
            if e is None:
                fails.append((p, 'never stores the specified %s into the thermal condition' % kind))
            else:
                fails.append((p, 'leaves thermal_condition.%s = %s instead of the specified %s' % (kind, e.value.pretty(), pname)))
        return fails

    for name in entries:
        f = vle.methods[name]
        a = analyse(name)
        cons = 'VLE.' + name
        # kinds of everything stored
        seen = set()
        for p, last, stores, deleg in a['paths']:
            for kind, e in stores:
                key = (e.stmt.lineno, kind)
                if key in seen:
                    continue
                seen.add(key)
                k = form_kind(e.value)
                if k == kind:
                    d1.ok(cons, '%s sink receives a %s-kinded value: %s' % (kind, kind, e.value.pretty()[:90]), f, e.stmt)
                elif k is None:
                    d1.fail(cons, 'kind-unknown-%s' % kind, 'cannot establish that the value stored into %s (%s) is a %s'
                            % (e.target, e.value.pretty()[:120], 'temperature' if kind == 'T' else 'pressure'), f, e.stmt)
                else:
                    d1.fail(cons, 'kind-%s-into-%s' % (k, kind), 'a %s-kinded value (%s) is stored into the %s sink %s'
                            % (k, e.value.pretty()[:120], kind, e.target), f, e.stmt)
        # specified quantities (helpers are checked in the context of their callers)
        if name.startswith('_'):
            continue
        for kind in spec_kinds(name):
            if kind not in f.params:
                raise AnalysisError('%s has no parameter %s' % (cons, kind))
            fails = ensures(name, kind, kind)
            if not fails:
                d1.ok(cons, 'on every normal path the thermal condition holds the specified %s' % kind, f)
            else:
                p, why = fails[0]
                d1.fail(cons, 'spec-%s-not-stored' % kind, '%s (%d of %d normal paths)' % (why, len(fails), len(a['paths'])), f,
                        p.ret_node if p.ret_node is not None else f.node)

    dispatch(ctx, d2, vle)
    d3 = ctx.rule('D2', 'solver components are built on the stream\'s own property package', floor=2)
    thermo_propagation(ctx, d3, vle)
    d4 = ctx.rule('D3', 'per-call state derived from the flows is refreshed on every call', floor=8)
    per_call_state(ctx, d4, vle)
    d5 = ctx.rule('D4', 'equilibrium ratios and fugacities have the iso-fugacity shape', floor=9)
    isofugacity_shape(ctx, d5, vle)
    d6 = ctx.rule('D5', 'single-component H/S specification: lever rule between the saturated states', floor=4)
    lever_rule_HS(ctx, d6, vle)
    d7 = ctx.rule('D6', 'positions in the full chemical tuple never subscript a sub-sequence of it', floor=60)
    from ..generic import index_space
    n_, subseq, fullidx, producers = index_space(ctx.prog, d7, {VLEF})
    ctx.extra['index_spaces'] = {'gathers_examined': n_, 'sub_sequences_of_compile': subseq, 'tables_of_full_positions': fullidx, 'methods_handing_out_full_positions': producers}


SUPPORT_ONLY = {'nonzero_keys', 'any', 'nonzero', 'keys', 'nonzero_index', 'has_data'}


def per_call_state(ctx, rule, vle):
    """VLE._setup copies this call's flows into fields that the residual functions read (totals, compositions).  A field
    whose value is computed from the AMOUNTS must be stored on every normal path: stored only on some (e.g. only when
    the set of non-zero chemicals changed), the other paths solve against the previous call's flows.  Values that
    depend only on the SUPPORT of the flows (x.nonzero_keys(), x.any()) may be memoised conditionally."""
    from ..cfg import CFG
    f = vle.methods.get('_setup')
    if f is None:
        raise AnalysisError('VLE._setup not found')
    fn = f.node
    imols = {'self._imol'}
    for n in walk_no_nested(fn):
        if isinstance(n, ast.Assign) and src(n.value) == 'self._imol':
            imols |= {t.id for t in n.targets if isinstance(t, ast.Name)}
    tainted = set()

    def is_tainted(e):
        if isinstance(e, ast.Call) and isinstance(e.func, ast.Attribute) and e.func.attr in SUPPORT_ONLY:
            return False
        if isinstance(e, ast.Subscript) and src(e.value) in imols:
            return True
        if isinstance(e, ast.Call) and src(e.func) == 'tuple' and e.args and src(e.args[0]) in imols:
            return True
        if isinstance(e, ast.Name):
            return e.id in tainted
        if isinstance(e, ast.Compare):
            return False          # a truth value, not an amount
        return any(is_tainted(c) for c in ast.iter_child_nodes(e))
    changed = True
    while changed:
        changed = False
        for n in walk_no_nested(fn):
            tg = []
            if isinstance(n, ast.Assign) and is_tainted(n.value):
                tg = n.targets
            elif isinstance(n, ast.AugAssign) and is_tainted(n.value):
                tg = [n.target]
            for t in tg:
                for x in ([t] if isinstance(t, ast.Name) else (t.elts if isinstance(t, ast.Tuple) else [])):
                    if isinstance(x, ast.Name) and x.id not in tainted:
                        tainted.add(x.id)
                        changed = True
    cfg = CFG(fn)
    n_sites = 0
    for n in walk_no_nested(fn):
        if not isinstance(n, ast.Assign) or not is_tainted(n.value):
            continue
        fields = [src(t) for t in n.targets if isinstance(t, ast.Attribute) and src(t.value) == 'self']
        if not fields:
            continue
        node = cfg.node_of(n)
        okk, wit = cfg.must_pass(cfg.entry, lambda nd: nd is node)
        for fld in fields:
            n_sites += 1
            if okk:
                rule.ok('VLE._setup', '%s (computed from this call\'s flows) is stored on every normal path' % fld, f, n)
            else:
                rule.fail('VLE._setup', 'stale-per-call-%s' % fld.split('.')[-1],
                          '%s is computed from this call\'s flows but stored only on some paths: on the others the residual functions keep the value of the '
                          'previous call (skipped via %s)' % (fld, ' -> '.join('L%d' % x.lineno for x in (wit or [])[-8:] if x.lineno)), f, n)
    ctx.anchor(n_sites >= 8, 'VLE._setup: expected >= 8 flow-derived fields, found %d' % n_sites)


def dispatch(ctx, d2, vle):
    f = vle.methods['__call__']

    from ..pathcond import scenario_decide

    def _no_conv(t):
        # scenario: no reactive conversion is given
        if isinstance(t, ast.Name) and 'conversion' in t.id:
            return False
        if isinstance(t, ast.Compare) and len(t.ops) == 1 and isinstance(t.comparators[0], ast.Constant) and t.comparators[0].value is None \
                and 'conversion' in src(t.left):
            return isinstance(t.ops[0], (ast.Is, ast.Eq))
        if isinstance(t, ast.Call) and 'conversion' in src(t) and not any(isinstance(x, ast.Compare) for x in ast.walk(t)):
            return False
        return None
    decide = scenario_decide(_no_conv)
    ps, trunc = run_paths(f.node, decide=decide, max_paths=20000, follow_except=True)
    seen = {}
    for p in ps:
        specs = set()
        for tmap, taken, test in p.rconds:
            m_ = re.match(r'^\((\w) is not None\)$', tmap.get(id(test), ''))
            if m_ and taken:
                specs.add(m_.group(1))
        specs = tuple(sorted(specs))
        calls = [e for e in p.events if e.kind == 'call' and re.match(r'^self\.set_', e.target)]
        if p.via_except and not calls and not p.raised:
            seen.setdefault(specs, []).append(('fallback', None, p))
        elif p.raised and not calls:
            seen.setdefault(specs, []).append(('raise', None, p))
        elif not calls:
            seen.setdefault(specs, []).append(('nothing', None, p))
        else:
            seen.setdefault(specs, []).append(('call', calls[0], p))
    for specs, lst in sorted(seen.items()):
        cons = 'VLE.__call__[%s]' % ','.join(specs)
        kinds = {k for k, _, _ in lst}
        if 'nothing' in kinds:
            d2.fail(cons, 'no-handler', 'specification pair reaches neither a set_ method nor an error', f, f.node)
            continue
        if kinds == {'raise'}:
            d2.ok(cons, 'rejected with an exception', f)
            continue
        cl = [c for k, c, _ in lst if k == 'call']
        if not cl:
            d2.fail(cons, 'no-handler', 'only a fallback exists for this specification pair', f, f.node)
            continue
        e = cl[0]
        callee = e.target.split('.')[-1]
        cf = vle.methods.get(callee)
        if cf is None:
            d2.fail(cons, 'unknown-callee', 'calls undefined %s' % callee, f, e.stmt)
            continue
        okk = True
        for arg, par in zip(e.node.args, cf.params[1:]):
            a = src(arg)
            m = re.match(r'^np\.asarray\((\w)\)$', a)
            a = m.group(1) if m else a
            if par in 'TPVHSxy' and a != par:
                okk = False
                d2.fail(cons, 'arg-%s-as-%s' % (a, par), '%s(...) receives %s for its parameter %s' % (callee, a, par), f, e.stmt)
        want = set(specs)
        got = set(c for c in re.sub(r'^set_', '', callee) if c in 'TPVHSxy') if callee != 'set_thermal_condition' else {'T', 'P'}
        # the innermost else-branch carries no *_spec test: the handler may name one more specification than was tested
        if not (want <= got and len(got) == 2 and len(want) >= 1):
            okk = False
            d2.fail(cons, 'wrong-handler', 'specifications %s are handled by %s' % (sorted(want), callee), f, e.stmt)
        if okk:
            d2.ok(cons, 'handled by %s with like-for-like arguments' % callee, f, e.stmt)
        # NoEquilibrium fallback stores the specified T/P
        for k, c, p in lst:
            if k == 'fallback':
                st = {x.target.split('.')[-1]: x.value for x in p.events if x.kind == 'store' and ('thermal_condition.' in x.target)}
                miss = [q for q in sorted(got & {'T', 'P'}) if st.get(q) != Form.atom(q)]
                if miss:
                    d2.fail(cons, 'fallback-%s' % miss[0], 'the NoEquilibrium fallback does not store the specified %s' % miss[0], f, f.node)
                else:
                    d2.ok(cons, 'NoEquilibrium fallback stores the specified %s' % sorted(got & {'T', 'P'}), f)


def thermo_propagation(ctx, d3, vle):
    """A constructor with an optional `thermo` parameter falls back to the global settings when it is omitted.
    Inside a solver that owns a property package every such call must pass it, otherwise bubble and dew
    computations of one flash use different models."""
    prog = ctx.prog
    for f in vle.methods.values():
        if f.cls is not vle:
            continue
        for n in walk_no_nested(f.node):
            if not (isinstance(n, ast.Call) and isinstance(n.func, ast.Name) and n.func.id in prog.classes):
                continue
            c = prog.classes[n.func.id][0]
            ctor = prog.find_method(c, '__new__') or prog.find_method(c, '__init__')
            if ctor is None or 'thermo' not in ctor.params:
                continue
            pos = ctor.params.index('thermo') - 1
            arg = None
            if len(n.args) > pos:
                arg = n.args[pos]
            for k in n.keywords:
                if k.arg == 'thermo':
                    arg = k.value
            cons = 'VLE.%s' % f.name
            if arg is None:
                d3.fail(cons, 'default-thermo-%s' % n.func.id, '%s(...) is built without the solver\'s property package and silently uses the global default one'
                        % n.func.id, f, n)
                continue
            a = src(arg)
            defs = [x for x in walk_no_nested(f.node) if isinstance(x, ast.Assign) and any(isinstance(t, ast.Name) and t.id == a for t in x.targets)]
            if a in ('self._thermo', 'self.thermo') or (defs and all(src(x.value) in ('self._thermo', 'self.thermo') for x in defs)):
                d3.ok(cons, '%s(...) receives the solver\'s own property package' % n.func.id, f, n)
            else:
                d3.fail(cons, 'foreign-thermo-%s' % n.func.id, '%s(...) receives %s, which is not the solver\'s property package' % (n.func.id, a), f, n)


def isofugacity_shape(ctx, rule, vle):
    """y_i phi_i P = x_i gamma_i pcf_i Psat_i  =>  K_i = y_i/x_i = pcf_i Psat_i gamma_i(x) / (P phi_i(y)).  Decides that the code
    evaluates exactly this product (nothing dropped or inverted, gamma at the liquid and phi at the vapour composition) in the
    fixed-point kernels, in their caller and in the fugacity functions of the Gibbs-minimisation path."""
    prog = ctx.prog
    m = prog.module(VLEF)
    noconv = lambda t, st: False if 'conversion' in src(t) else None
    # the kernels: module functions handed to the fixed-point accelerator by _solve_v_fixed_point
    sv = vle.methods.get('_solve_v_fixed_point')
    if sv is None:
        raise AnalysisError('VLE._solve_v_fixed_point not found')
    kernels = sorted({n.value.id for n in walk_no_nested(sv.node) if isinstance(n, ast.Assign) and isinstance(n.value, ast.Name) and n.value.id in m.functions})
    if len(kernels) < 2:
        raise AnalysisError('fixed-point kernels not found: %s' % kernels)
    xyf = m.functions.get('xy')
    for kn in kernels:
        f = m.functions[kn]
        ratio_param = f.params[1]
        ps, _ = run_paths(f.node, decide=noconv)
        ps = [p for p in ps if not p.raised]
        seenK = seenX = False
        for p in ps:
            stores = [e for e in p.events if e.kind == 'store']
            kst = [e for e in stores if isinstance(e.value, Form) and len(e.value.t) == 1 and dict(list(e.value.t)[0]).get(ratio_param)]
            for e in kst[:1]:
                k = dict(list(e.value.t)[0])
                calls = {a: x for a, x in k.items() if '(' in a and a != ratio_param}
                up = [a for a, x in calls.items() if x == 1]
                dn = [a for a, x in calls.items() if x == -1]
                okk = k.get(ratio_param) == 1 and len(up) == 1 and len(dn) == 1 and len(k) == 3 and list(e.value.t.values())[0] == 1
                like = okk and up[0].startswith(f.params[_pindex(f, 'gamma')] + '(') and dn[0].startswith(f.params[_pindex(f, 'phi')] + '(') \
                    and _first_arg_component(up[0]) == 0 and _first_arg_component(dn[0]) == 1
                if like:
                    if not seenK:
                        rule.ok(kn, 'K <- %s * gamma(x, T)/phi(y, T, P): activity at the liquid, fugacity coefficient at the vapour composition of xy(x, K)' % ratio_param, f, e.stmt)
                    seenK = True
                else:
                    rule.fail(kn, 'K-shape', 'the equilibrium ratio is updated with %s; iso-fugacity needs %s*gamma(x)/phi(y) with x, y = xy(x, K)' % (e.value.pretty()[:300], ratio_param), f, e.stmt)
                    seenK = True
            # Rachford-Rice update of the liquid composition
            karr = kst[0].target[:-4] if kst and kst[0].target.endswith('[::]') else None
            for i, e in enumerate(stores):
                if karr and isinstance(e.value, Form) and len(e.value.t) == 1 and i > 0 and isinstance(stores[i - 1].value, Form):
                    k = dict(list(e.value.t)[0])
                    inv = [a for a, x in k.items() if x == -1 and karr in a]
                    if len(inv) == 1 and len(k) == 2:
                        V = stores[i - 1].value
                        z = [a for a, x in k.items() if x == 1]
                        den = Form.const(1) + V * (Form.atom(karr) - Form.const(1))
                        want = Form.atom(z[0]) * Form({((('(%s)' % den.pretty()), -1),): 1})
                        if e.value == want:
                            if not seenX:
                                rule.ok(kn, 'x <- z / (1 + V (K - 1)) with the V just solved', f, e.stmt)
                            seenX = True
                        else:
                            rule.fail(kn, 'rachford-rice-x', 'liquid composition update is %s, expected z/(1+V(K-1))' % e.value.pretty()[:300], f, e.stmt)
                            seenX = True
        if not seenK:
            rule.fail(kn, 'K-shape', 'no update of the equilibrium ratios from %s found' % ratio_param, f, f.node)
        if not seenX:
            rule.fail(kn, 'rachford-rice-x', 'no update x <- z/(1+V(K-1)) found', f, f.node)
    # xy
    if xyf is not None:
        ps, _ = run_paths(xyf.node)
        p = [q for q in ps if not q.raised][0]
        a, b = xyf.params[0], xyf.params[1]
        xn = Form.atom(a) * Form.atom('%s.sum()' % a).inv()
        ynum = Form.atom(b) * xn
        ok1 = isinstance(p.ret, list) or p.ret is not None
        rt = p.tup.get('@ret') if hasattr(p, 'tup') else None
        vals = [e.value for e in p.events if e.kind == 'assign' and isinstance(e.value, Form)]
        rt = p.tup.get('<ret>')
        order = isinstance(rt, (list, tuple)) and len(rt) == 2 and isinstance(rt[0], Form) and rt[0] == xn \
            and isinstance(rt[1], Form) and len(rt[1].t) == 1 and dict(list(rt[1].t)[0]).get(b) == 1
        if any(v == ynum for v in vals) and order:
            rule.ok('xy', 'returns (x normalised, y ~ K * x normalised) in that order', xyf)
        else:
            rule.fail('xy', 'y-from-x', 'xy does not form y as K*x of the normalised x', xyf, xyf.node)
    # caller: what is handed over as the ratio parameter
    so = vle.methods.get('_solve_v')
    ps, _ = run_paths(so.node, decide=noconv)
    done = False
    for p in ps:
        for e in p.events:
            if e.kind == 'call' and e.target == 'self._solve_v_fixed_point' and e.value and isinstance(e.value[0], Form) and not done:
                done = True
                fm = e.value[0]
                cls_ = _classify(fm)
                if cls_ == {'pcf': 1, 'Psat': 1, 'P': -1}:
                    rule.ok('VLE._solve_v', 'the kernels receive pcf(T,P,Psat)*Psat/P', so, e.stmt)
                else:
                    rule.fail('VLE._solve_v', 'ratio-argument', 'the kernels receive %s, expected pcf*Psat/P' % fm.pretty()[:200], so, e.stmt)
            if e.kind == 'call' and e.target == 'solve_vle_vapor_mol_shgo' and e.value and len(e.value) > 5 and isinstance(e.value[5], Form):
                cls_ = _classify(e.value[5])
                if cls_ == {'pcf': 1, 'Psat': 1}:
                    rule.ok('VLE._solve_v', 'the Gibbs-minimisation path receives pcf(T,P,Psat)*Psat', so, e.stmt)
                else:
                    rule.fail('VLE._solve_v', 'shgo-argument', 'the Gibbs-minimisation path receives %s, expected pcf*Psat' % e.value[5].pretty()[:200], so, e.stmt)
    if not done:
        rule.fail('VLE._solve_v', 'ratio-argument', 'call of _solve_v_fixed_point not found', so, so.node)
    # fugacity functions
    for fname, extra in (('liquid_fugacity', None), ('vapor_fugacity', 'P')):
        f = m.functions.get(fname)
        if f is None:
            raise AnalysisError('%s not found' % fname)
        ps, _ = run_paths(f.node)
        good = False
        mol = f.params[0]
        frac = Form.atom(mol) * Form.atom('%s.sum()' % mol).inv()
        for p in ps:
            if p.raised or p.ret is None or not isinstance(p.ret, Form) or len(p.ret.t) != 1:
                continue
            k = dict(list(p.ret.t)[0])
            calls = [a for a, x in k.items() if '(' in a and not a.endswith('.sum()') and x == 1]
            if len(calls) != 1 or not calls[0].split('(', 1)[1].startswith(frac.pretty()):
                continue
            rest = Form({tuple(sorted((a, x) for a, x in k.items() if a != calls[0])): 1})
            scal = [prm for prm in f.params[1:] if Form.atom(prm) * frac == rest or (extra is None and Form.atom(prm) * frac == rest)]
            if fname == 'liquid_fugacity':
                good = any(Form.atom(prm) * frac == rest for prm in f.params[1:])
            else:
                good = (Form.atom(f.params[2]) * frac == rest)
        if good:
            rule.ok(fname, 'f = (mol/sum) * %s * coefficient(mol/sum, ...)' % ('pcf*Psat' if extra is None else 'P'), f)
        else:
            rule.fail(fname, 'fugacity-shape', '%s is not mole fraction x %s x coefficient evaluated at that mole fraction' % (fname, 'pcf*Psat' if extra is None else 'P'), f, f.node)


def _pindex(f, word):
    for i, prm in enumerate(f.params):
        if prm.startswith('f_') and word in prm:
            return i
    raise AnalysisError('%s: parameter for %s not found' % (f.qualname, word))


def _first_arg_component(atom):
    """index k when the first argument of the call atom is (...)[k], else None"""
    inner = atom.split('(', 1)[1]
    depth = 0
    for i, ch in enumerate(inner):
        if ch in '([':
            depth += 1
        elif ch in ')]':
            depth -= 1
        elif ch == ',' and depth == 0:
            inner = inner[:i]
            break
    mm = re.search(r'\)\[(\d+)\]$', inner.strip())
    return int(mm.group(1)) if mm else None


def _classify(fm):
    if len(fm.t) != 1 or list(fm.t.values())[0] != 1:
        return None
    out = {}
    for a, e in list(fm.t)[0]:
        if a == 'P':
            key = 'P'
        elif a.startswith('self._pcf(') or a.startswith('self.pcf('):
            key = 'pcf'
        elif 'Psats' in a and not a.startswith('self.'):
            key = 'Psat'
        else:
            key = a
        out[key] = out.get(key, 0) + e
    return out


def lever_rule_HS(ctx, rule, vle):
    """For one volatile chemical at saturation H (or S) is linear in the vapour fraction: X = V X_dew + (1 - V) X_bubble, so the
    specified X is reproduced iff V = (X - X_bubble)/(X_dew - X_bubble) with X_dew the all-vapour and X_bubble the all-liquid value."""
    names = sorted(n for n in vle.methods if re.match(r'^_set_[TP][HS]_chemical$', n))
    if len(names) < 4:
        raise AnalysisError('VLE: expected 4 single-component H/S helpers, found %s' % names)
    for name in names:
        f = vle.methods[name]
        spec = f.params[2]
        cons = 'VLE.' + name
        # the two saturated values are the SAME call text evaluated in two different states of the phase rows:
        # give every call site of the mixture property its own atom
        def site_hook(node, lin):
            if isinstance(node.func, ast.Attribute) and re.match(r'^x[HS]$', node.func.attr):
                return Form.atom('%s@site%d.%d' % (node.func.attr, node.lineno, node.col_offset))
            return None
        ps, _ = run_paths(f.node, follow_except=False, call_hook=site_hook)
        # the two-phase path(s): both saturated values were evaluated and no single-phase temperature / pressure solve was taken
        def _two_phase(p_):
            if p_.raised:
                return False
            n_sat = sum(1 for e in p_.events if e.kind == 'assign' and isinstance(e.value, Form) and len(e.value.t) == 1 and len(list(e.value.t)[0]) == 1
                        and re.match(r'^x[HS]@site', list(e.value.t)[0][0][0]))
            solved = any(e.kind == 'call' and re.search(r'\.xsolve_[TP]_at_', e.target) for e in p_.events)
            return n_sat >= 2 and not solved
        two = [p for p in ps if _two_phase(p)]
        if not two:
            rule.fail(cons, 'no-two-phase-path', 'no path on which both saturation tests fail', f, f.node)
            continue
        p = two[0]
        vap_state = None
        sat = []          # (form of the saturated value, vapour row content when it was evaluated)
        Vev = None
        vstore = None
        for e in p.events:
            if e.kind == 'store' and e.target.startswith('self._vapor_mol['):
                vap_state = e.value
                vstore = e
            if e.kind == 'assign' and isinstance(e.value, Form) and len(e.value.t) == 1 and len(list(e.value.t)[0]) == 1 \
                    and re.match(r'^x[HS]@site', list(e.value.t)[0][0][0]) and vap_state is not None:
                sat.append((e.value, vap_state))
            if e.kind == 'assign' and isinstance(e.stmt, ast.Assign) and isinstance(e.stmt.value, ast.BinOp) and isinstance(e.stmt.value.op, ast.Div):
                Vev = e
        dew = [v for v, st in sat if not st.is_zero()]
        bub = [v for v, st in sat if st.is_zero()]
        if len(dew) != 1 or len(bub) != 1 or Vev is None or vstore is None:
            rule.fail(cons, 'lever-rule', 'saturated values / vapour fraction not recognised on the two-phase path', f, f.node)
            continue
        Xd, Xb, X = dew[0], bub[0], Form.atom(spec)

        def frac(num, den):
            return num * Form({((('(%s)' % den.pretty()), -1),): 1})
        if Vev.value in (frac(X - Xb, Xd - Xb), frac(Xb - X, Xb - Xd)):
            mol = vstore.value
            rule.ok(cons, 'V = (%s - X_bubble)/(X_dew - X_bubble); X_dew with the vapour row full, X_bubble with it empty' % spec, f, Vev.stmt)
        else:
            rule.fail(cons, 'lever-rule', 'the vapour fraction is %s; reproducing the specified %s needs (%s - X_bubble)/(X_dew - X_bubble) with X_dew = %s (all vapour) '
                      'and X_bubble = %s (all liquid)' % (Vev.value.pretty()[:300], spec, spec, Xd.pretty()[:80], Xb.pretty()[:80]), f, Vev.stmt)
