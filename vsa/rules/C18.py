"""C18 -- flowsheet connections stay mutually consistent (inductive steps)."""
from __future__ import annotations
import ast
from ..frontend import AnalysisError, src, walk_no_nested
from ..symx import run_paths
from ..pathcond import implied, text_pred
from ..lin import Form

MANIFEST = {
    'technique': 'path-wise symbolic execution of every StreamSequence method with a dock/undock typestate; who-may-write rule on _sink/_source; side (inlet/outlet) '
            'kind rule on index and port-list uses; assignment-redocks and append-precondition clauses (path-wise)',
    'text': 'Decides the inductive steps of C18 on every path of every port-list method: each stream leaving a port list is undocked first, each entering stream is '
            'docked, fixed-size lists only replace (never shrink/grow), _redock removes the stream from its previous list before re-pointing it, only the dock '
            'methods (and constructors / the frozen auxiliary API) write _sink/_source, and an index or stream of the inlet side never addresses the outlet list. '
            "Item and slice assignment let streams in only through _redock; AbstractUnit.insert appends the line's stream to a port list only after it was taken "
            'off its old list on that side. The invariant over arbitrary operation sequences additionally needs the stated preconditions and is not decided.',
}

NET = 'thermosteam/network.py'
LIST = 'self._streams'
GROW_SHRINK = {'pop', 'clear', 'remove', 'insert', 'append', 'extend', '__delitem__'}
DOCKERS = {'self._dock', 'self._redock'}
MISSING = {'self._create_missing_stream', 'self.MissingStream', 'self._create_N_missing_streams'}

# auxiliary-stream API: documented to set source/sink "without actually connecting"; outside C18's operation set
AUX_WRITERS = {'AbstractUnit.auxlet', 'AbstractUnit.auxin', 'AbstractUnit.auxout'}


def fixed_pred(e):
    return src(e) in ('self._fixed_size', 'fixed_size')


def run(ctx):
    prog = ctx.prog
    ctx.decided = [
        'D1 every stream leaving self._streams is undocked first and every entering stream is docked, on every path of every StreamSequence method',
        'D2 _sink/_source are written only by _dock/_redock/_undock, constructors, fresh copies (to None) and the frozen auxiliary API',
        'D3 fixed-size port lists never grow or shrink; vacated ports are refilled with placeholders',
        'D4 an index obtained from A.index() subscripts A; inlet-kind values address ins, outlet-kind values address outs; '
        'a stream is removed/replaced in the list on the side of the unit it was read from',
        'D5 _redock removes the stream from the list it was docked in before re-pointing it',
    ]
    ctx.not_decided = ['the invariant over arbitrary operation sequences (needs the stated preconditions and an induction over histories)']
    seq = prog.cls('StreamSequence', NET)
    subs = [c for c in prog.subclasses(seq) if c.module.rel == NET]
    ctx.anchor(len(subs) >= 3, 'StreamSequence subclasses not found')

    d1 = ctx.rule('D1', 'dock/undock pairing at every mutation site of self._streams', floor=15)
    d3 = ctx.rule('D3', 'fixed-size lists: no grow/shrink; refill with placeholders', floor=6)
    d5 = ctx.rule('D5', '_redock: remove from previous list before re-pointing; result docked here', floor=4)
    d2 = ctx.rule('D2', 'who may write _sink/_source', floor=30)
    d4 = ctx.rule('D4', 'side typing of indices and port lists', floor=8)

    # dock methods return their argument?
    for c in subs:
        for mname in ('_dock', '_redock'):
            f = c.methods.get(mname)
            if f is None or f.cls is not c:
                continue
            paths, _ = run_paths(f.node)
            p0 = f.params[1]
            good = all(p.ret == Form.atom(p0) for p in paths if not p.raised)
            if good:
                d1.ok('%s.%s' % (c.name, mname), 'returns its stream argument on all %d paths' % len(paths), f)
            else:
                d1.fail('%s.%s' % (c.name, mname), 'returns-arg', 'does not return its stream argument on every path', f, f.node)

    # _undock clears the pointer of whatever stream it is given, on every path (placeholders included)
    for c in subs:
        f = c.methods.get('_undock')
        if f is None or f.cls is not c:
            continue
        paths, _ = run_paths(f.node)
        sp = f.params[1]
        side = '_sink' if any(isinstance(n, ast.Attribute) and n.attr == '_sink' for n in ast.walk(f.node)) else '_source'
        good_ = all(any(e.kind == 'store' and e.target == '%s.%s' % (sp, side) and src(e.stmt.value) == 'None' for e in p.events)
                    for p in paths if not p.raised)
        if good_ and paths:
            d1.ok('%s._undock' % c.name, 'clears %s.%s on every path (any stream, placeholders included)' % (sp, side), f)
        else:
            d1.fail('%s._undock' % c.name, 'conditional-undock', '_undock leaves %s.%s untouched on some path: a displaced stream keeps pointing at this unit' % (sp, side), f, f.node)

    # ---- summaries of private helpers that drop the whole list without undocking
    drop_helpers = {}
    methods = []
    for c in [seq] + [s for s in subs if s is not seq]:
        for f in list(c.methods.values()) + list(c.setters.values()):
            if f.cls is c and f.name not in ('_dock', '_redock', '_undock'):
                methods.append(f)
    # first pass: helpers
    for f in methods:
        if f.name.startswith('_') and not f.name.startswith('__'):
            sites = analyse_method(f, drop_helpers, None, None, collect_only=True)
            if sites:
                drop_helpers['self.' + f.name] = f
    for f in methods:
        analyse_method(f, drop_helpers, d1, d3)

    assignment_redocks(ctx, d1, seq)
    append_preconditions(ctx, d1)
    redock_rule(ctx, d5, subs)
    who_may_write(ctx, d2)
    side_typing(ctx, d4)


def analyse_method(f, drop_helpers, d1, d3, collect_only=False):
    paths, trunc = run_paths(f.node, max_paths=400)
    is_ctor = f.name == '__init__'
    is_helper = f.name.startswith('_') and not f.name.startswith('__')
    cons = f.qualname
    unguarded_drops = []
    seen = set()

    def report_fail(rule, tag, what, node):
        key = (rule.id, tag, getattr(node, 'lineno', 0))
        if key in seen:
            return
        seen.add(key)
        rule.fail(cons, tag, what, f, node)

    ok_sites = {}

    def good(rule, tag, fact, node):
        ok_sites.setdefault((rule.id, tag, getattr(node, 'lineno', 0)), (rule, fact, node))

    for p in paths:
        if p.raised:
            continue
        fixed = implied(p.conds, fixed_pred)
        docked = set()      # form keys passed to dock/redock
        undocked = set()
        undocked_all = False
        redocked_all_after = {}   # slice-store stmt -> bool
        callee_of = {}
        open_loops = []     # (loopvar, iter_text, flags dict)
        pending_entering = []   # (stmt, what) needing a later redock-all loop
        pops = []           # (form text, stmt)
        for e in p.events:
            if e.kind == 'loop':
                open_loops.append({'var': e.target, 'iter': e.value.pretty() if e.value is not None else '',
                                   'undock': False, 'redock': False})
            elif e.kind == 'endloop':
                if open_loops:
                    lp = open_loops.pop()
                    if lp['iter'] == LIST and lp['undock']:
                        undocked_all = True
                    if lp['iter'].startswith(LIST + '[') and lp['undock']:
                        undocked.add(lp['iter'])
                    if lp['iter'] == LIST and lp['redock']:
                        pending_entering = []
            elif e.kind == 'call':
                callee_of[id(e.node)] = e.target
                args = e.value or []
                if e.target in DOCKERS and args:
                    docked.add(args[0].key())
                    for lp in open_loops:
                        if args[0] == Form.atom(lp['var']):
                            lp['redock'] = True
                elif e.target == 'self._undock' and args:
                    undocked.add(args[0].pretty())
                    for lp in open_loops:
                        if args[0] == Form.atom(lp['var']):
                            lp['undock'] = True
                elif e.target.startswith(LIST + '.') and e.target.split('.')[-1] in GROW_SHRINK | {'reverse', 'sort'}:
                    op = e.target.split('.')[-1]
                    # D3
                    if op in GROW_SHRINK and d3 is not None:
                        if fixed is False:
                            good(d3, 'grow-shrink-' + op, '%s on a path where the list is not fixed-size' % e.target, e.stmt)
                        else:
                            report_fail(d3, 'grow-shrink-' + op,
                                        '%s reachable with _fixed_size %s' % (e.target, 'true' if fixed else 'untested'), e.stmt)
                    if collect_only:
                        if op == 'clear' and not undocked_all:
                            unguarded_drops.append(e)
                        continue
                    if op in ('append', 'insert', 'extend'):
                        a = e.node.args[-1] if e.node.args else None
                        if a is not None and entering_ok(a, args[-1], docked, callee_of, p):
                            good(d1, 'enter-' + op, '%s: entering stream %s is docked' % (e.target, src(a)), e.stmt)
                        else:
                            report_fail(d1, 'enter-' + op, '%s: entering stream %s is not docked on this path'
                                        % (e.target, src(a) if a is not None else '?'), e.stmt)
                    elif op == 'pop':
                        pops.append((s_form_of_call(e, p), e))
                    elif op == 'clear':
                        if undocked_all or is_ctor:
                            good(d1, 'drop-all-clear', 'clear() after undocking every stream', e.stmt)
                        else:
                            report_fail(d1, 'drop-all-clear', 'self._streams.clear() without undocking the streams', e.stmt)
                    elif op in ('remove', '__delitem__'):
                        report_fail(d1, 'leave-' + op, 'raw %s on the list bypasses _undock' % op, e.stmt)
                elif e.target in drop_helpers:
                    if collect_only:
                        if not undocked_all:
                            unguarded_drops.append(e)
                        continue
                    if undocked_all or is_ctor:
                        good(d1, 'drop-all-call', '%s() after undocking every stream%s' % (e.target, ' (constructor: fresh list)' if is_ctor else ''), e.stmt)
                    elif is_helper:
                        pass
                    else:
                        report_fail(d1, 'drop-all-call', '%s() discards every stream in the list without undocking them'
                                    % e.target, e.stmt)
            elif e.kind == 'store' and (e.target == LIST or e.target.startswith(LIST + '[')):
                whole = e.target == LIST
                val = e.stmt.value if isinstance(e.stmt, ast.Assign) else None
                if collect_only:
                    if whole and not undocked_all:
                        unguarded_drops.append(e)
                    continue
                idx = e.target[len(LIST):]
                is_slice = ':' in idx
                # leaving
                if whole:
                    if is_ctor or undocked_all:
                        good(d1, 'drop-all-rebind', 'list re-bound %s' % ('in constructor' if is_ctor else 'after undocking every stream'), e.stmt)
                    elif is_helper:
                        pass   # requirement pushed to callers through the helper summary
                    else:
                        report_fail(d1, 'drop-all-rebind', 'self._streams re-bound without undocking the streams it held', e.stmt)
                else:
                    if is_ctor or e.target in undocked:
                        good(d1, 'leave-item', 'old %s undocked before replacement%s' % (e.target, ' (constructor: placeholders)' if is_ctor else ''), e.stmt)
                    elif is_slice and _is_placeholder_fill(val, callee_of) and idx == '[len(%s):self._size:]' % LIST:
                        good(d1, 'leave-item', 'slice %s beyond the current length is filled with placeholders' % e.target, e.stmt)
                    elif is_slice and _is_placeholder_fill(val, callee_of):
                        report_fail(d1, 'placeholder-overwrites', 'placeholders are written into %s, which does not start at the current length of the list: '
                                    'streams docked a moment ago are replaced without being undocked' % e.target, e.stmt)
                    else:
                        report_fail(d1, 'leave-item', 'entry %s replaced without undocking the stream it held' % e.target, e.stmt)
                # entering
                if val is not None and entering_ok(val, e.value, docked, callee_of, p):
                    good(d1, 'enter-store', 'value stored in %s is docked / placeholder' % e.target, e.stmt)
                else:
                    pending_entering.append(e)
                # D3: slice store on fixed path needs refill
            elif e.kind == 'ret':
                pass
        if collect_only:
            continue
        for e in pending_entering:
            report_fail(d1, 'enter-store', 'value stored in %s is not docked and no re-dock loop over the list follows' % e.target, e.stmt)
        if not pending_entering:
            for e in p.events:
                if e.kind == 'store' and e.target.startswith(LIST + '[') and isinstance(e.stmt, ast.Assign) \
                        and not entering_ok(e.stmt.value, e.value, set(), callee_of, p):
                    good(d1, 'enter-store', 'streams stored in %s are re-docked by a loop over the whole list' % e.target, e.stmt)
        for txt, e in pops:
            if txt in undocked:
                good(d1, 'leave-pop', 'popped stream is undocked', e.stmt)
            else:
                report_fail(d1, 'leave-pop', 'stream removed with list.pop() is never undocked (it keeps pointing at this unit)', e.stmt)
    if collect_only:
        return unguarded_drops
    for (rid, tag, ln), (rule, fact, node) in ok_sites.items():
        if (rid, tag, ln) not in seen:
            rule.ok(cons, fact, f, node)
    # D3 refill after slice stores
    if d3 is not None and not is_ctor:
        for n in walk_no_nested(f.node):
            if isinstance(n, ast.Assign) and isinstance(n.targets[0], ast.Subscript) \
                    and isinstance(n.targets[0].slice, ast.Slice):
                # is the target the port list?
                fixed_paths = [p for p in paths if not p.raised and implied(p.conds, fixed_pred) is True
                               and any(e.stmt is n for e in p.events)]
                if not any(e.kind == 'store' and e.stmt is n and e.target.startswith(LIST + '[') for p in paths for e in p.events):
                    continue
                if _is_placeholder_fill(n.value, None):
                    continue
                refill = [p for p in fixed_paths if any(
                    e.kind == 'call' and e.target == 'self._create_N_missing_streams' for e in p.events)]
                if fixed_paths and refill:
                    d3.ok(cons, 'slice store is followed on fixed-size paths by a refill with placeholders', f, n)
                else:
                    d3.fail(cons, 'no-refill', 'slice assignment is not followed by a placeholder refill on fixed-size paths', f, n)
    return unguarded_drops


def s_form_of_call(e, p):
    """canonical text of the call expression of event e (as the Lin would print it)"""
    args = ', '.join(a.pretty() for a in (e.value or []))
    return '%s(%s)' % (e.target, args)


def _is_placeholder_fill(val, callee_of):
    if isinstance(val, ast.Call):
        s = src(val.func)
        return s in MISSING
    return False


def entering_ok(node, form, docked, callee_of, p):
    """is the value expression a docked stream / placeholder (or a list of them)?"""
    if isinstance(node, ast.Call):
        callee = callee_of.get(id(node)) or src(node.func)
        if callee in DOCKERS or callee in MISSING:
            return True
        return False
    if isinstance(node, ast.IfExp):
        return entering_ok(node.body, None, docked, callee_of, p) and entering_ok(node.orelse, None, docked, callee_of, p)
    if isinstance(node, (ast.ListComp, ast.GeneratorExp)):
        return entering_ok(node.elt, None, docked, callee_of, p)
    if isinstance(node, (ast.List, ast.Tuple)):
        return all(entering_ok(x, None, docked, callee_of, p) for x in node.elts)
    if isinstance(node, ast.Name):
        if form is not None and form.key() in docked:
            return True
        if form is not None:
            txt = form.pretty()
            if any(txt.startswith(m + '(') for m in DOCKERS | MISSING):
                return True
        return False
    return False


# ----------------------------------------------------------------------------

def redock_rule(ctx, d5, subs):
    for c in subs:
        f = c.methods.get('_redock')
        if f is None or f.cls is not c:
            continue
        side = None
        for n in ast.walk(f.node):
            if isinstance(n, ast.Attribute) and isinstance(n.ctx, ast.Store) and n.attr in ('_sink', '_source'):
                side = n.attr
        if side is None:
            raise AnalysisError('%s._redock writes neither _sink nor _source' % c.name)
        lst = '_ins' if side == '_sink' else '_outs'
        sp = f.params[1]
        paths, _ = run_paths(f.node)
        cons = '%s._redock' % c.name
        for i, p in enumerate(paths):
            if p.raised:
                continue
            stores = [e for e in p.events if e.kind == 'store' and e.target == '%s.%s' % (sp, side)]
            removes = [e for e in p.events if e.kind == 'call' and e.target.endswith('.remove')
                       and e.value and e.value[0] == Form.atom(sp)]
            def both(pos, neg):
                a = implied(p.conds, pos)
                if a is not None:
                    return a
                b = implied(p.conds, neg)
                return None if b is None else not b
            # (each fact may be tested in either polarity: `x in l` / `x not in l`, `l is not self` / `l is self`, `owner` / `not owner`)
            was_docked = both(lambda e: isinstance(e, ast.Compare) and len(e.ops) == 1 and isinstance(e.ops[0], ast.In) and src(e.left) == sp,
                              lambda e: isinstance(e, ast.Compare) and len(e.ops) == 1 and isinstance(e.ops[0], ast.NotIn) and src(e.left) == sp)
            same_list = both(lambda e: isinstance(e, ast.Compare) and len(e.ops) == 1 and isinstance(e.ops[0], ast.IsNot) and src(e.comparators[0]) == 'self',
                             lambda e: isinstance(e, ast.Compare) and len(e.ops) == 1 and isinstance(e.ops[0], ast.Is) and src(e.comparators[0]) == 'self')
            old_truthy = implied(p.conds, lambda e: isinstance(e, ast.Name))
            desc = 'path %d (old owner %s, other list %s, listed there %s)' % (i, old_truthy, same_list, was_docked)
            # result docked here
            if stores:
                v_ok = all(e.value == Form.atom('self.' + side) for e in stores)
                if not v_ok:
                    d5.fail(cons, 'wrong-owner', '%s: %s.%s is set to %s, not self.%s' % (desc, sp, side, stores[-1].value, side), f, stores[-1].stmt)
                    continue
            else:
                if not (old_truthy is True and same_list is False):
                    d5.fail(cons, 'not-docked', '%s: returns without pointing the stream at this unit' % desc, f, f.node)
                    continue
            if was_docked is True:
                if removes and stores and p.events.index(removes[0]) < p.events.index(stores[0]) \
                        and removes[0].target.endswith('%s.remove' % lst):
                    d5.ok(cons, '%s: removed from the previous %s before re-pointing' % (desc, lst), f, stores[0].stmt)
                else:
                    d5.fail(cons, 'no-remove', '%s: stream is listed in another unit\'s %s but is re-pointed without being removed there'
                            % (desc, lst), f, (stores[0].stmt if stores else f.node))
            else:
                d5.ok(cons, '%s: stream ends up pointing at this unit' % desc, f, (stores[0].stmt if stores else f.node))


# ----------------------------------------------------------------------------

def who_may_write(ctx, d2):
    prog = ctx.prog
    seq = prog.cls('StreamSequence', NET)
    stream_like = set()
    for name in ('AbstractStream', 'AbstractMissingStream'):
        for c in prog.subclasses(prog.cls(name, NET)):
            stream_like.add(c.name)
    heat = {'Heat', 'Power', 'HeatUtility', 'PowerUtility'}
    for f in prog.all_functions():
        fresh = set()
        for n in walk_no_nested(f.node):
            if isinstance(n, ast.Assign) and isinstance(n.value, ast.Call):
                callee = src(n.value.func)
                if callee.endswith('.__new__') or callee.endswith('.copy') or callee in ('copy',) or callee[:1].isupper() \
                        or callee.split('.')[-1][:1].isupper():
                    for t in n.targets:
                        if isinstance(t, ast.Name):
                            fresh.add(t.id)
        for n in walk_no_nested(f.node):
            if not (isinstance(n, ast.Attribute) and isinstance(n.ctx, ast.Store) and n.attr in ('_sink', '_source')):
                continue
            recv = src(n.value)
            cname = f.cls.name if f.cls else ''
            stmt = n
            while not isinstance(stmt, ast.stmt):
                stmt = stmt._parent
            val = src(stmt.value) if isinstance(stmt, ast.Assign) else '?'
            cons = f.qualname
            if f.cls is not None and seq in f.cls.mro() and f.name in ('_dock', '_redock', '_undock'):
                d2.ok(cons, 'dock method writes %s.%s' % (recv, n.attr), f, stmt)
            elif recv == 'self' and f.name == '__init__':
                d2.ok(cons, 'constructor initialises own %s' % n.attr, f, stmt)
            elif recv == 'self' and f.name in ('from_data', '_init_from_data', '__new__') :
                d2.ok(cons, 'alternative constructor initialises own %s' % n.attr, f, stmt)
            elif val == 'None' and (recv in fresh or (recv == 'self' and f.kind == 'class')):
                d2.ok(cons, 'fresh object %s gets %s = None' % (recv, n.attr), f, stmt)
            elif val == 'None' and _bound_from_new(f, recv):
                d2.ok(cons, 'fresh object %s gets %s = None' % (recv, n.attr), f, stmt)
            elif f.qualname in AUX_WRITERS:
                d2.ok(cons, 'auxiliary-stream API (frozen exception: documented to mark a stream without connecting it; outside C18 operations)', f, stmt)
            elif cname in heat or (f.module.rel.endswith('_heat_and_power.py')):
                d2.ok(cons, 'different class family (heat/power objects)', f, stmt)
            else:
                d2.fail(cons, 'writer-%s' % n.attr, '%s.%s is assigned outside the dock methods (value %s)' % (recv, n.attr, val), f, stmt)


def _bound_from_new(f, name):
    """name is bound (anywhere in f) from a constructor-like call or a cached phase view being (re)built"""
    for n in walk_no_nested(f.node):
        if isinstance(n, ast.Assign):
            for t in n.targets:
                if isinstance(t, ast.Name) and t.id == name and isinstance(n.value, ast.Call):
                    c = src(n.value.func)
                    if '__new__' in c or c.split('.')[-1][:1].isupper() or c.endswith('copy'):
                        return True
    return False


# ----------------------------------------------------------------------------

INLET_SIDE = {'ins', '_ins'}
OUTLET_SIDE = {'outs', '_outs'}


def side_typing(ctx, d4):
    prog = ctx.prog
    unit = prog.cls('AbstractUnit', NET)
    fns = [f for f in prog.all_functions() if f.module.rel == NET]
    for f in fns:
        # (a) X[ A.index(y) ... ]  : index from A must subscript A
        paths = None
        for n in walk_no_nested(f.node):
            if isinstance(n, ast.Subscript):
                for sub in ast.walk(n.slice):
                    if isinstance(sub, ast.Call) and isinstance(sub.func, ast.Attribute) and sub.func.attr == 'index':
                        a = src(sub.func.value)
                        b = src(n.value)
                        stmt = n
                        while not isinstance(stmt, ast.stmt):
                            stmt = stmt._parent
                        if a == b:
                            d4.ok(f.qualname, 'index from %s.index() subscripts %s' % (a, b), f, stmt)
                        else:
                            d4.fail(f.qualname, 'index-of-%s-into-%s' % (a, b),
                                    'an index obtained from %s.index(...) is used to subscript %s' % (a, b), f, stmt)
        # (b) kind of parameters / loop variables
        if f.cls is not None and unit in f.cls.mro():
            kind = {}
            for p in f.params:
                if p in ('inlet', 'inlets'):
                    kind[p] = 'in'
                elif p in ('outlet', 'outlets'):
                    kind[p] = 'out'
            if kind:
                alias = {}
                for n in walk_no_nested(f.node):
                    if isinstance(n, ast.Assign) and len(n.targets) == 1 and isinstance(n.targets[0], ast.Name):
                        v = src(n.value)
                        if v in ('self._ins', 'self.ins'):
                            alias[n.targets[0].id] = 'in'
                        elif v in ('self._outs', 'self.outs'):
                            alias[n.targets[0].id] = 'out'
                    if isinstance(n, ast.For) and isinstance(n.iter, ast.Name) and n.iter.id in kind \
                            and isinstance(n.target, ast.Name):
                        kind[n.target.id] = kind[n.iter.id]

                def side_of(expr):
                    s = src(expr)
                    if s in ('self._ins', 'self.ins'):
                        return 'in'
                    if s in ('self._outs', 'self.outs'):
                        return 'out'
                    if isinstance(expr, ast.Name):
                        return alias.get(expr.id)
                    return None
                for n in walk_no_nested(f.node):
                    if isinstance(n, ast.Subscript):
                        sd = side_of(n.value)
                        if sd is None:
                            continue
                        used = {x.id for x in ast.walk(n.slice) if isinstance(x, ast.Name) and x.id in kind}
                        stmt = n
                        while not isinstance(stmt, ast.stmt):
                            stmt = stmt._parent
                        for u in sorted(used):
                            if kind[u] == sd:
                                d4.ok(f.qualname, '%s-kind value %s addresses the %s list' % (kind[u], u, sd), f, stmt)
                            else:
                                d4.fail(f.qualname, 'kind-%s-into-%s' % (kind[u], sd),
                                        '%s (an %slet) is used to address the %slet list %s'
                                        % (u, kind[u], sd, src(n.value)), f, stmt)
        # (c) <S.sink>.ins.replace/remove(S ...)   <S.source>.outs....
        ps, _ = run_paths(f.node, max_paths=200)
        seen = set()
        for p in ps:
            for e in p.events:
                if e.kind != 'call' or id(e.node) in seen:
                    continue
                parts = e.target.split('.')
                if len(parts) < 4 or parts[-1] not in ('remove', 'replace') or parts[-2] not in INLET_SIDE | OUTLET_SIDE:
                    continue
                owner_attr = parts[-3]
                if owner_attr not in ('sink', '_sink', 'source', '_source'):
                    continue
                seen.add(id(e.node))
                S = '.'.join(parts[:-3])
                lst_side = 'in' if parts[-2] in INLET_SIDE else 'out'
                want = 'in' if 'sink' in owner_attr else 'out'
                arg0 = e.value[0].pretty() if e.value else '?'
                if lst_side != want:
                    d4.fail(f.qualname, 'owner-side', '%s: the %s of %s lists it among its %s, not its %s'
                            % (e.target, owner_attr.strip('_'), S, 'ins' if want == 'in' else 'outs', parts[-2]), f, e.stmt)
                elif arg0 != S:
                    d4.fail(f.qualname, 'owner-stream', '%s(%s ...): the stream located is %s but the list belongs to the %s of %s'
                            % (e.target, arg0, arg0, owner_attr.strip('_'), S), f, e.stmt)
                else:
                    d4.ok(f.qualname, '%s is located in the %s of its own %s' % (S, parts[-2], owner_attr.strip('_')), f, e.stmt)


def assignment_redocks(ctx, d1, seq):
    """Item and slice assignment may be given a stream that is docked at ANOTHER unit (the quantifier says so); append/insert/extend
    may not (their precondition).  So in the assignment entry points every stream that enters the list must go through _redock,
    which also takes it off the list it was docked in -- never through plain _dock, nor through self.append/insert/extend."""
    for name in ('_set_stream', '_set_streams'):
        f = seq.methods.get(name)
        if f is None:
            raise AnalysisError('StreamSequence.%s not found' % name)
        cons = 'StreamSequence.' + name
        weak = [n for n in walk_no_nested(f.node) if isinstance(n, ast.Call) and isinstance(n.func, ast.Attribute) and src(n.func.value) == 'self'
                and n.func.attr in ('append', 'insert', 'extend', '_dock')]
        redocks = [n for n in walk_no_nested(f.node) if isinstance(n, ast.Call) and src(n.func) == 'self._redock']
        # every store into / append onto self._streams (or a local alias of it) takes a _redock result, or a redock loop over the whole list follows
        alias = {'self._streams'} | {t.id for n in walk_no_nested(f.node) if isinstance(n, ast.Assign) and src(n.value) == 'self._streams'
                                     for t in n.targets if isinstance(t, ast.Name)}
        enters = []
        for n in walk_no_nested(f.node):
            if isinstance(n, ast.Assign) and any(isinstance(t, ast.Subscript) and src(t.value) in alias for t in n.targets):
                enters.append((n, n.value))
            if isinstance(n, ast.Call) and isinstance(n.func, ast.Attribute) and n.func.attr in ('append', 'insert', 'extend') and src(n.func.value) in alias:
                enters.append((n, n.args[-1]))
        loop_redock = any(isinstance(n, ast.For) and src(n.iter) in alias and any(isinstance(x, ast.Call) and src(x.func) == 'self._redock' for x in ast.walk(n))
                          for n in walk_no_nested(f.node))
        if weak:
            d1.fail(cons, 'assignment-without-redock', 'an assigned stream enters through self.%s, which docks it here but leaves it listed at the unit it was docked at before '
                    '(append/insert/extend/_dock assume a free stream; assignment must use _redock)' % weak[0].func.attr, f, weak[0])
            continue
        bad = [st for st, v in enters if not ((isinstance(v, ast.Call) and src(v.func) == 'self._redock') or loop_redock)]
        if bad or not enters or not redocks:
            d1.fail(cons, 'assignment-without-redock', 'a stream enters the list without passing through _redock', f, (bad or [f.node])[0])
        else:
            d1.ok(cons, '%d entering store(s), each through _redock%s' % (len(enters), ' (loop over the whole list)' if loop_redock else ''), f)


def append_preconditions(ctx, d1):
    """append / insert / extend only DOCK a stream (their stated precondition: the stream is not docked on that side of any unit).
    The library's own callers must honour it: when AbstractUnit.insert appends the line's stream to one of its port lists, the
    stream must already have been taken off the list it sat in on that side (replace / remove through the old owner).
    Decided per path (the flag that defers the append is a constant on each path)."""
    prog = ctx.prog
    f = prog.method('AbstractUnit', 'insert', rel=NET)
    sp = f.params[1]
    def decide(t, st):
        # boolean locals that hold a constant on this path (the flag that defers the append)
        lin = getattr(st, 'lin', None)

        def val(x):
            if isinstance(x, ast.Name) and lin is not None and x.id in lin.env:
                c = lin.env[x.id].const_value()
                return None if c is None else bool(c)
            return None
        if isinstance(t, ast.Name):
            return val(t)
        if isinstance(t, ast.BoolOp) and isinstance(t.op, ast.Or):
            vs = [val(x) for x in t.values]
            if any(v is True for v in vs):
                return True
        if isinstance(t, ast.BoolOp) and isinstance(t.op, ast.And):
            vs = [val(x) for x in t.values]
            if any(v is False for v in vs):
                return False
        return None
    ps, _ = run_paths(f.node, max_paths=4000, decide=decide)
    seen = {}
    for p in ps:
        if p.raised:
            continue
        released = set()
        for e in p.events:
            if e.kind != 'call' or not e.value or not isinstance(e.value[-1] if e.target.endswith(('append', 'insert', 'extend')) else e.value[0], Form):
                continue
            parts = e.target.split('.')
            if parts[-1] in ('replace', 'remove', 'pop') and e.value[0] == Form.atom(sp) and len(parts) >= 2:
                released.add(parts[-2].lstrip('_'))
            if parts[-1] in ('append', 'insert', 'extend') and e.value[-1] == Form.atom(sp) and parts[0] == 'self' and len(parts) == 3:
                side = parts[1].lstrip('_')
                key = (e.stmt.lineno, side, parts[-1])
                seen.setdefault(key, []).append((side in released, e))
    if not seen:
        raise AnalysisError('AbstractUnit.insert: no append of the inserted stream found')
    for (ln, side, op), lst in sorted(seen.items()):
        e = lst[0][1]
        if all(okk for okk, _ in lst):
            d1.ok('AbstractUnit.insert', 'self.%s.%s(%s) happens only after the stream was taken off the %s it sat in (%d paths)' % (side, op, sp, side, len(lst)), f, e.stmt)
        else:
            d1.fail('AbstractUnit.insert', 'append-while-docked-' + side, 'self.%s.%s(%s) runs while the stream is still listed in the %s of its old unit; the later '
                    'replace there undocks it again, leaving it in self.%s with no %s' % (side, op, sp, side, side, 'source' if side == 'outs' else 'sink'), f, e.stmt)
