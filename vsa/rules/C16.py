"""C16 -- activity-coefficient models are side-effect free (structural clauses)."""
from __future__ import annotations
import ast, re
from ..frontend import AnalysisError, src, walk_no_nested
from ..symx import run_paths
from ..lin import Form

MANIFEST = {
    'technique': 'argument-purity (effect) analysis of every kernel reachable from the model objects, mutating-callee => caller-passes-a-copy rule, gather/scatter '
            'summaries of the two UNIFAC kernels, result provenance of __call__ and of the ideal decorator; definite-assignment dataflow over the CFG of every '
            'function of the module; coefficient-pairing rule on the symbolic form of the combinatorial terms; normalisation-shape rule for the sub-composition',
    'text': 'Decides for every input: no kernel reachable from an activity-coefficient model stores through its composition parameter; the one kernel that mutates '
            'an array parameter (psi of modified UNIFAC) is only ever called with a fresh copy; both UNIFAC kernels gather the sub-composition x_sub[i] <- '
            'x[index[i]], scatter gamma[index[i]] <- gamma_sub[i] and default to ones; the model object returns f(x, T, *args) so the functional form used by the '
            'flash solvers is the one the object evaluates; the ideal models return 1; every local of every function in the module is assigned on all paths before '
            'it is read (an unassigned read in a numba kernel is a crash at the vertex of a group-less chemical); in the combinatorial terms every c*ln(R) is '
            'paired with -c*R, a necessary condition of the Gibbs-Duhem relation. The composition handed to the group-contribution formulas in both UNIFAC kernels '
            'has the form v/v.sum(). The mask from which the positions of the chemicals with group data are taken (np.where) gets exactly one entry per chemical on'
            ' every path through its loop. gamma -> 1, Gibbs-Duhem for the residual part and permutation invariance are numerical and not decided.',
}

AC = 'thermosteam/equilibrium/activity_coefficients.py'
ID = 'thermosteam/equilibrium/ideal.py'
KERNELS = ('gamma_UNIFAC', 'gamma_modified_UNIFAC', 'group_activity_coefficients', 'loggammacs_UNIFAC',
           'loggammacs_modified_UNIFAC', 'psi_UNIFAC', 'psi_modified_UNIFAC', 'fill_group_psis')
COMPOSITION = {'x', 'xs', 'z'}
# output parameters: filled by design (scratch array owned by the model object)
OUT_PARAMS = {('fill_group_psis', 'group_psis'): 'scratch array of the model object, overwritten completely on every call'}


def mutated_params(f):
    """parameters written through: subscript store, in-place operator on the name or on a subscript of it"""
    params = set(f.params)
    rebound = set()
    out = {}
    # may-alias closure: a local bound (anywhere) to a parameter or to an alias of it denotes the caller's array
    alias_of = {}
    changed = True
    while changed:
        changed = False
        for n in ast.walk(f.node):
            if isinstance(n, ast.Assign) and isinstance(n.value, ast.Name) and (n.value.id in params or n.value.id in alias_of):
                root = alias_of.get(n.value.id, n.value.id)
                for t in n.targets:
                    if isinstance(t, ast.Name) and t.id not in params and alias_of.get(t.id) != root:
                        alias_of[t.id] = root
                        changed = True
    for n in ast.walk(f.node):
        if isinstance(n, ast.Assign):
            for t in n.targets:
                if isinstance(t, ast.Name) and t.id in params:
                    rebound.add((t.id, n.lineno))
    first_rebind = {}
    for name, ln in rebound:
        first_rebind[name] = min(ln, first_rebind.get(name, 10 ** 9))
    for n in ast.walk(f.node):
        tgt = None
        if isinstance(n, ast.Subscript) and isinstance(n.ctx, (ast.Store, ast.Del)):
            tgt = n
        if isinstance(n, ast.AugAssign):
            tgt = n.target
        if tgt is None:
            continue
        base = tgt
        while isinstance(base, (ast.Subscript, ast.Attribute)):
            base = base.value
        if isinstance(base, ast.Name) and base.id in alias_of:
            out.setdefault(alias_of[base.id], n)
            continue
        if isinstance(base, ast.Name) and base.id in params:
            # a parameter re-bound earlier to a fresh object (interactions = interactions.copy()) is no longer the caller's
            if base.id in first_rebind and first_rebind[base.id] < n.lineno:
                continue
            if isinstance(n, ast.AugAssign) and isinstance(n.target, ast.Name):
                pass    # x /= s on an ndarray parameter is in place
            out.setdefault(base.id, n)
    return out


def position_masks(ctx, d8):
    """`index` -- the positions of the chemicals that have group data, which the kernels use to gather x and scatter gamma -- is computed
    as np.where(mask)[0] from a list `mask` filled inside a loop over the chemicals.  Position k of the mask means chemical k only if every
    iteration that goes on to the next element appends exactly one entry.  Every function of the module that returns np.where(<list filled
    in a loop>) is an instance."""
    prog = ctx.prog
    m = prog.module(AC)
    n_inst = 0
    for f in m.functions.values():
        fn = prog.normal_form(f)
        masks = set()
        for r in walk_no_nested(fn):
            if isinstance(r, ast.Return) and r.value is not None:
                for c in ast.walk(r.value):
                    if isinstance(c, ast.Call) and src(c.func) in ('np.where', 'np.nonzero', 'np.flatnonzero') and len(c.args) == 1 and isinstance(c.args[0], ast.Name):
                        masks.add(c.args[0].id)
        for name in sorted(masks):
            inits = [n for n in walk_no_nested(fn) if isinstance(n, ast.Assign) and any(isinstance(t, ast.Name) and t.id == name for t in n.targets)]
            if not (inits and all(isinstance(n.value, ast.List) and not n.value.elts for n in inits)):
                continue

            def is_append(st):
                return isinstance(st, ast.Expr) and isinstance(st.value, ast.Call) and isinstance(st.value.func, ast.Attribute) \
                    and st.value.func.attr == 'append' and isinstance(st.value.func.value, ast.Name) and st.value.func.value.id == name

            def counts(stmts):
                """-> (set of append counts on paths that reach the end of `stmts`, set of counts on paths that go on to the next element early)"""
                falls, nexts = {0}, set()
                for st in stmts:
                    if not falls:
                        break
                    if is_append(st):
                        falls = {c + 1 for c in falls}
                    elif isinstance(st, ast.Continue):
                        nexts |= falls
                        falls = set()
                    elif isinstance(st, (ast.Return, ast.Raise, ast.Break)):
                        falls = set()
                    elif isinstance(st, ast.If):
                        fb, nb = counts(st.body)
                        fo, no = counts(st.orelse)
                        nexts |= {a + b for a in falls for b in nb | no}
                        falls = {a + b for a in falls for b in fb | fo}
                    elif isinstance(st, (ast.For, ast.While, ast.Try, ast.With)):
                        if any(is_append(x) for x in ast.walk(st)):
                            return {-1}, {-1}          # an append under a nested loop / handler: not judged
                return falls, nexts
            loops = [n for n in walk_no_nested(fn) if isinstance(n, ast.For) and any(is_append(x) for x in ast.walk(n))]
            for lp in loops:
                falls, nexts = counts(lp.body)
                allc = falls | nexts
                if -1 in allc:
                    continue
                n_inst += 1
                if allc == {1}:
                    d8.ok(f.qualname, 'every iteration over %s that goes on to the next element appends exactly one entry to the position mask %s' % (src(lp.iter), name), f, lp)
                else:
                    d8.fail(f.qualname, 'mask-misaligned', 'the position mask %s (positions taken with np.where) gets %s entries on some iteration over %s: from there on position '
                            'k of the mask is no longer element k, and the gather / scatter of the kernels uses the wrong chemicals' % (name, sorted(allc), src(lp.iter)), f, lp)
    return n_inst


def run(ctx):
    prog = ctx.prog
    ctx.decided = [
        'D8 the mask from which the positions of the chemicals with group data are taken (np.where) gets exactly one entry per chemical on every path through the loop',
        'D1 no kernel stores through its composition parameter',
        'D2 a kernel that mutates an array parameter is only called with a fresh copy',
        'D3 gather/scatter summaries of gamma_UNIFAC and gamma_modified_UNIFAC',
        'D4 __call__ returns f(x, T, *args); ideal f returns 1.0',
    ]
    ctx.decided += [
        'D5 in every function of the activity-coefficient module each local is assigned on every path before it is read (under numba an unassigned read is '
        'undefined behaviour: the vertex of a group-less chemical crashed the interpreter)',
        'D7 in both UNIFAC kernels every composition argument of loggammacs_* / group_activity_coefficients has the form v/v.sum() (the gathered '
        'sub-composition divided by ITS OWN total): the formulas assume mole fractions that sum to one',
        'D6 in the combinatorial parts every logarithmic term c*ln(R) is accompanied by -c*R: with R_i = a_i/sum_j x_j a_j (and ratios of two such), '
        'sum_i x_i d(-R_i + ln R_i) = 0, and any other coefficient pair leaves a non-zero Gibbs-Duhem residual',
    ]
    ctx.not_decided = ['gamma -> 1 in the pure limit', 'Gibbs-Duhem consistency of the residual (group) part', 'permutation invariance', 'numerical values']
    d1 = ctx.rule('D1', 'composition parameter is never written', floor=8)
    d2 = ctx.rule('D2', 'mutating callee => caller passes a copy', floor=2)
    d3 = ctx.rule('D3', 'gather / scatter summaries', floor=6)
    d4 = ctx.rule('D4', 'result provenance', floor=3)
    d5 = ctx.rule('D5', 'every local of a kernel is assigned on every path before it is read', floor=8)
    d6 = ctx.rule('D6', 'combinatorial term: every c*ln(R) is paired with -c*R (necessary for Gibbs-Duhem)', floor=4)
    definite_assignment(ctx, d5)
    gibbs_duhem_pairing(ctx, d6)
    d8 = ctx.rule('D8', 'a position mask built in a loop gets exactly one entry per element', floor=1)
    position_masks(ctx, d8)
    d7 = ctx.rule('D7', 'the sub-composition handed to the group-contribution formulas is normalised by its own total', floor=4)
    normalised_subcomposition(ctx, d7)
    m = prog.module(AC)
    summaries = {}
    for k in KERNELS:
        f = m.functions.get(k)
        if f is None:
            raise AnalysisError('kernel %s not found' % k)
        mp = mutated_params(f)
        summaries[k] = mp
        comp = [p for p in f.params if p in COMPOSITION]
        bad = [p for p in comp if p in mp]
        if bad:
            d1.fail(k, 'writes-composition', 'the kernel stores through its composition parameter %r (%s): the caller\'s array is overwritten'
                    % (bad[0], src(mp[bad[0]])), f, mp[bad[0]])
        else:
            d1.ok(k, 'composition parameter(s) %s are only read' % (comp or '(none)'), f)
    # methods of the model classes
    for cname in ('GroupActivityCoefficients', 'IdealActivityCoefficients'):
        c = prog.cls(cname, AC)
        for name in ('__call__', 'activity_coefficients'):
            f = c.methods.get(name)
            if f is None or f.cls is not c:
                continue
            mp = mutated_params(f)
            bad = [p for p in f.params if p in COMPOSITION and p in mp]
            if bad:
                d1.fail('%s.%s' % (cname, name), 'writes-composition', 'stores through %r' % bad[0], f, mp[bad[0]])
            else:
                d1.ok('%s.%s' % (cname, name), 'composition argument only read (np.asarray may alias it: the kernels must not write it)', f)
    # D2
    for k, mp in summaries.items():
        f = m.functions[k]
        for p, node in mp.items():
            if p in COMPOSITION:
                continue
            if (k, p) in OUT_PARAMS:
                d2.ok(k, 'output parameter %r: %s' % (p, OUT_PARAMS[(k, p)]), f, node)
                continue
            pos = f.params.index(p)
            sites = 0
            for g in prog.all_functions():
                if g.module is not m:
                    continue
                # a local bound to a method / function (psi = self.psi) is called like the thing it names
                fal = {}
                for n in walk_no_nested(g.node):
                    if isinstance(n, ast.Assign) and len(n.targets) == 1 and isinstance(n.targets[0], ast.Name) and isinstance(n.value, (ast.Attribute, ast.Name)):
                        fal.setdefault(n.targets[0].id, []).append(n.value)
                for n in walk_no_nested(g.node):
                    callee = None
                    if isinstance(n, ast.Call):
                        fn_ = n.func
                        if isinstance(fn_, ast.Name) and fn_.id != k and len(fal.get(fn_.id, [])) == 1:
                            fn_ = fal[fn_.id][0]
                        if isinstance(fn_, ast.Name) and fn_.id == k:
                            callee = k
                        elif isinstance(fn_, ast.Attribute) and fn_.attr == 'psi' and k.startswith('psi_'):
                            callee = k      # self.psi resolves to psi_UNIFAC / psi_modified_UNIFAC through the class property
                    if callee is None or len(n.args) <= pos:
                        continue
                    sites += 1
                    a = n.args[pos]
                    fresh = False
                    if isinstance(a, ast.Call) and isinstance(a.func, ast.Attribute) and a.func.attr == 'copy':
                        fresh = True
                    elif isinstance(a, ast.Name):
                        defs = [x for x in walk_no_nested(g.node) if isinstance(x, ast.Assign) and any(
                            isinstance(t, ast.Name) and t.id == a.id for t in x.targets) and x.lineno < n.lineno]
                        fresh = bool(defs) and all(isinstance(x.value, ast.Call) and isinstance(x.value.func, ast.Attribute)
                                                   and x.value.func.attr == 'copy' for x in defs)
                    if fresh:
                        d2.ok(g.qualname, '%s(...) receives a fresh copy for its mutated parameter %r (%s)' % (k, p, src(a)), g, n)
                    else:
                        d2.fail(g.qualname, 'no-copy-for-%s' % p, '%s mutates its parameter %r but is called with %s, which is not a fresh copy'
                                % (k, p, src(a)), g, n)
            if sites == 0:
                d2.skip(k, 'no call sites found for mutated parameter %r' % p, f)
    # D3
    for k in ('gamma_UNIFAC', 'gamma_modified_UNIFAC'):
        f = m.functions[k]
        # the two loops over the positions of `index`: for i, j in enumerate(index)  |  for i in range(index.size / len(index) / N) with j = index[i]
        sizes = {'index.size', 'len(index)'} | {n.targets[0].id for n in walk_no_nested(f.node) if isinstance(n, ast.Assign) and len(n.targets) == 1
                                                 and isinstance(n.targets[0], ast.Name) and src(n.value) in ('index.size', 'len(index)')}

        def _ij(lp):
            if src(lp.iter) == 'enumerate(index)' and isinstance(lp.target, ast.Tuple) and len(lp.target.elts) == 2 \
                    and all(isinstance(t, ast.Name) for t in lp.target.elts):
                return lp.target.elts[0].id, lp.target.elts[1].id
            if isinstance(lp.iter, ast.Call) and src(lp.iter.func) == 'range' and len(lp.iter.args) == 1 and src(lp.iter.args[0]) in sizes \
                    and isinstance(lp.target, ast.Name):
                return lp.target.id, 'index[%s]' % lp.target.id
            return None
        loops = [n for n in walk_no_nested(f.node) if isinstance(n, ast.For) and _ij(n) is not None]
        if len(loops) != 2:
            d3.fail(k, 'loops', 'expected a gather loop and a scatter loop over enumerate(index), found %d' % len(loops), f, f.node)
            continue
        loops.sort(key=lambda n: n.lineno)
        gl, sl = loops
        xparam = f.params[0]
        rets = [n for n in walk_no_nested(f.node) if isinstance(n, ast.Return)]
        GAM = src(rets[0].value) if rets and all(isinstance(r.value, ast.Name) and src(r.value) == src(rets[0].value) for r in rets) else None
        i, j = _ij(gl)
        stores = [n for n in ast.walk(gl) if isinstance(n, ast.Assign)]
        okg = len(stores) == 1 and isinstance(stores[0].targets[0], ast.Subscript) and src(stores[0].targets[0].slice) == i \
            and isinstance(stores[0].targets[0].value, ast.Name) and src(stores[0].value) == '%s[%s]' % (xparam, j)
        XS = stores[0].targets[0].value.id if okg else None
        # the gathered vector is what the group model is evaluated at
        # names that denote the gathered vector: XS itself and locals bound to it (x_sub = tmp;  x_sub, s = (tmp, tmp.sum()))
        XS_alias = {XS}
        grew = True
        while grew and XS is not None:
            grew = False
            for n in walk_no_nested(f.node):
                if not isinstance(n, ast.Assign):
                    continue
                for tg in n.targets:
                    pairs_ = [(tg, n.value)]
                    if isinstance(tg, (ast.Tuple, ast.List)) and isinstance(n.value, (ast.Tuple, ast.List)) and len(tg.elts) == len(n.value.elts):
                        pairs_ = list(zip(tg.elts, n.value.elts))
                    for t_, v_ in pairs_:
                        if isinstance(t_, ast.Name) and isinstance(v_, ast.Name) and v_.id in XS_alias and t_.id not in XS_alias:
                            XS_alias.add(t_.id)
                            grew = True
        used = XS is not None and any(isinstance(n, ast.Call) and src(n.func) == 'group_activity_coefficients' and n.args and src(n.args[0]) in XS_alias
                                      for n in walk_no_nested(f.node))
        if okg and used and XS != xparam:
            d3.ok(k, 'gather: x_sub[i] <- x[index[i]] (and the group model is evaluated at x_sub)', f, gl)
        else:
            d3.fail(k, 'gather', 'the gather loop is not x_sub[i] = x[index[i]] (found %s)' % '; '.join(src(s) for s in stores), f, gl)
        i, j = _ij(sl)
        stores = [n for n in ast.walk(sl) if isinstance(n, ast.Assign) and isinstance(n.targets[0], ast.Subscript)]
        vals = {src(n.targets[0]): n.value for n in ast.walk(sl) if isinstance(n, ast.Assign) and isinstance(n.targets[0], ast.Name)}
        okk = len(stores) == 1 and GAM is not None and src(stores[0].targets[0]) == '%s[%s]' % (GAM, j)
        if okk:
            v = stores[0].value
            v = vals.get(src(v), v)
            # value is <result of group_activity_coefficients>[i]
            gsub = {t.id for n in walk_no_nested(f.node) if isinstance(n, ast.Assign) and isinstance(n.value, ast.Call)
                    and src(n.value.func) == 'group_activity_coefficients' for t in n.targets if isinstance(t, ast.Name)}
            okk = isinstance(v, ast.Subscript) and src(v.value) in gsub and src(v.slice) == i
        if okk:
            d3.ok(k, 'scatter: gamma[index[i]] <- gamma_sub[i]', f, sl)
        else:
            d3.fail(k, 'scatter', 'the scatter loop is not gamma[index[i]] = gamma_sub[i]', f, sl)
        init = [n for n in walk_no_nested(f.node) if isinstance(n, ast.Assign) and src(n.targets[0]) == GAM]
        if init and src(init[0].value) == 'np.ones(%s.size)' % xparam:
            d3.ok(k, 'chemicals without groups default to gamma = 1', f, init[0])
        else:
            d3.fail(k, 'default', 'gamma is not initialised to ones of the full size', f, f.node)
        if GAM is not None:
            d3.ok(k, 'returns the scattered gamma', f, rets[0])
        else:
            d3.fail(k, 'return', 'does not return gamma', f, f.node)
    # D4
    c = prog.cls('GroupActivityCoefficients', AC)
    f = c.methods['__call__']
    ps, _ = run_paths(f.node)
    r = ps[0].ret_node.value if ps and ps[0].ret_node is not None else None
    if r is not None and src(r) == 'self.f(x, T, *self.args)':
        d4.ok('GroupActivityCoefficients.__call__', 'returns self.f(x, T, *self.args): the object evaluates the same functional form the flash solvers use', f)
    else:
        d4.fail('GroupActivityCoefficients.__call__', 'provenance', '__call__ does not evaluate f(x, T, *args)', f, f.node)
    wiring = {'UNIFACActivityCoefficients': 'gamma_UNIFAC', 'DortmundActivityCoefficients': 'gamma_modified_UNIFAC',
              'NISTActivityCoefficients': 'gamma_modified_UNIFAC'}
    for cname, want in wiring.items():
        k = prog.cls(cname, AC)
        fm = prog.find_method(k, 'f')
        rets = [n for n in walk_no_nested(fm.node) if isinstance(n, ast.Return)] if fm else []
        if rets and src(rets[0].value) == want:
            d4.ok('%s.f' % cname, 'functional form is %s' % want, fm)
        else:
            d4.fail('%s.f' % cname, 'wiring', 'functional form is %s, expected %s' % (src(rets[0].value) if rets else None, want), fm, fm.node if fm else None)
    idm = prog.module(ID)
    g = idm.functions.get('_ideal_coefficient')
    rets = [n for n in walk_no_nested(g.node) if isinstance(n, ast.Return)] if g else []
    if rets and all(isinstance(r.value, ast.Constant) and r.value.value == 1.0 for r in rets):
        d4.ok('ideal._ideal_coefficient', 'ideal functional form returns 1.0', g)
    else:
        d4.fail('ideal._ideal_coefficient', 'not-one', 'ideal coefficient is not the constant 1', g, g.node if g else None)
    dec = idm.functions.get('ideal')
    t = ' '.join(ast.unparse(dec.node).split())
    if 'cls.f = ideal_coefficient' in t and 'cls.args = ()' in t:
        d4.ok('ideal', 'decorator installs f = ideal coefficient and args = ()', dec)
    else:
        d4.fail('ideal', 'decorator', 'the ideal decorator does not install f and args', dec, dec.node)


def definite_assignment(ctx, d5):
    from ..generic import possibly_unassigned
    m = ctx.prog.module(AC)
    fs = list(m.functions.values())
    for c in m.classes.values():
        fs += [f for f in list(c.methods.values()) + list(c.setters.values()) if f.cls is c]
    seen = set()
    for f in fs:
        if id(f) in seen:
            continue
        seen.add(id(f))
        hits = possibly_unassigned(f)
        if not hits:
            d5.ok(f.qualname, 'every local is assigned before it is read on all paths', f)
            continue
        done = set()
        for name, x, nd in hits:
            if name in done:
                continue
            done.add(name)
            jit = any('jit' in src(d) for d in f.node.decorator_list)
            d5.fail(f.qualname, 'unassigned-read', 'a path reaches the read of a local that was never assigned on it (a value computed only under a condition is used '
                    'unconditionally)%s' % ('; the function is compiled by numba, where this is undefined behaviour (crash), not an UnboundLocalError' if jit else ''),
                    f, x)


def gibbs_duhem_pairing(ctx, d6):
    prog = ctx.prog
    m = prog.module(AC)
    # the combinatorial functions: module functions whose result is handed to group_activity_coefficients as `loggammacs`
    gac = m.functions.get('group_activity_coefficients')
    if gac is None:
        raise AnalysisError('group_activity_coefficients not found')
    pos = 2          # x, chemgroups, loggammacs
    names = set()
    for f in m.functions.values():
        ldefs = {}
        for n in walk_no_nested(f.node):
            if isinstance(n, ast.Assign) and len(n.targets) == 1 and isinstance(n.targets[0], ast.Name):
                ldefs.setdefault(n.targets[0].id, []).append(n.value)
        for n in walk_no_nested(f.node):
            if isinstance(n, ast.Call) and src(n.func) == 'group_activity_coefficients' and len(n.args) > pos:
                a = n.args[pos]
                if isinstance(a, ast.Name) and len(ldefs.get(a.id, [])) == 1:
                    a = ldefs[a.id][0]          # the argument computed into a local first
                if isinstance(a, ast.Call) and isinstance(a.func, ast.Name):
                    names.add(a.func.id)
    if len(names) < 2:
        raise AnalysisError('combinatorial functions not found: %s' % sorted(names))
    for name in sorted(names):
        f = m.functions[name]
        logs = {}

        def hook(node, lin, logs=logs):
            fn = src(node.func)
            if fn in ('np.log', 'log', 'math.log', 'numpy.log') and len(node.args) == 1:
                arg = lin.form(node.args[0])
                key = 'LOG<%s>' % arg.pretty()
                logs[key] = arg
                return Form.atom(key)
            return None
        ps, _ = run_paths(f.node, call_hook=hook)
        ps = [p for p in ps if not p.raised and p.ret is not None]
        if not ps or not logs:
            raise AnalysisError('%s: no logarithmic terms found' % name)
        for p in ps:
            ret = p.ret
            for k, c in list(ret.t.items()):
                ls = [(a, e) for a, e in k if a in logs]
                if not ls:
                    continue
                if len(ls) != 1 or ls[0][1] != 1:
                    d6.fail(name, 'log-shape', 'a term contains a power or product of logarithms: %s' % (k,), f, p.ret_node)
                    continue
                L = ls[0][0]
                R = logs[L]
                rest = Form({tuple(x for x in k if x[0] != L): c})
                want = -(rest * R)
                okk = all(ret.t.get(k2) == c2 for k2, c2 in want.t.items())
                if okk:
                    d6.ok(name, 'the term %s*ln(%s) is paired with its linear partner (coefficients opposite)' % (rest.pretty(), R.pretty()), f, p.ret_node)
                else:
                    got = Form({k2: ret.t.get(k2, 0) for k2 in want.t})
                    d6.fail(name, 'gibbs-duhem-pairing', 'the combinatorial term has %s*ln(R) with R = %s but its linear partner is %s instead of %s: '
                            'sum_i x_i dln(gamma_i) does not vanish' % (rest.pretty(), R.pretty(), got.pretty(), want.pretty()), f, p.ret_node)


def normalised_subcomposition(ctx, rule):
    """The combinatorial and residual formulas are written for mole fractions of the chemicals that HAVE groups, summing to one.
    The kernels gather those chemicals out of the full composition; the gathered vector must then be divided by its own sum
    (not by the sum of the full composition, which also counts the group-less chemicals)."""
    prog = ctx.prog
    m = prog.module(AC)
    for kn in ('gamma_UNIFAC', 'gamma_modified_UNIFAC'):
        f = m.functions.get(kn)
        if f is None:
            raise AnalysisError('%s not found' % kn)
        ps, _ = run_paths(f.node)
        seen = {}
        for p in ps:
            for e in p.events:
                if e.kind != 'call' or not e.value:
                    continue
                callee = e.target.split('.')[-1]
                if callee == 'group_activity_coefficients':
                    comp = e.value[0]
                elif callee.startswith('loggammacs'):
                    comp = e.value[-1]
                else:
                    continue
                if not isinstance(comp, Form):
                    continue
                okk = False
                if len(comp.t) == 1 and list(comp.t.values())[0] == 1:
                    k = dict(list(comp.t)[0])
                    pos = [a for a, x in k.items() if x == 1]
                    neg = [a for a, x in k.items() if x == -1]
                    okk = len(k) == 2 and len(pos) == 1 and len(neg) == 1 and neg[0] == '%s.sum()' % pos[0]
                seen.setdefault(callee, []).append((okk, comp, e))
        if not seen:
            raise AnalysisError('%s: no call of the group-contribution formulas found' % kn)
        for callee, items in sorted(seen.items()):
            bad = [it for it in items if not it[0]]
            if bad:
                rule.fail(kn, 'not-normalised-by-own-total', 'the composition handed to %s is %s, not v/v.sum(): the group-contribution formulas receive fractions '
                          'that do not sum to one whenever a chemical without groups is present' % (callee, bad[0][1].pretty()[:160]), f, bad[0][2].stmt)
            else:
                rule.ok(kn, 'the composition handed to %s is v/v.sum() on all %d evaluations' % (callee, len(items)), f, items[0][2].stmt)
