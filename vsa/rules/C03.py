"""C03 -- phase equilibrium neither creates nor destroys material (structural clauses)."""
from __future__ import annotations
import ast, re
from ..frontend import AnalysisError, src, walk_no_nested
from ..symx import run_paths
from ..lin import Form, Lin
from ..cfg import CFG
from ..pathcond import implied, rimplied, cmp_outcome
from .. import pairs

MANIFEST = {
    'technique': 'paired-complement-write rule over path-wise symbolic execution (D-lin sums of the two phase stores equal the conserved total); clamp-before-use and '
            'index-set rules on the CFG; divisibility rule on symbolic forms (the part subtracted in a complement is a multiple of the same whole); exact '
            'clamp-bound derivation for SLE',
    'text': 'Decides for every input and every path of VLE (all set_* / _set_*_chemical / _lever_rule / _setup / set_flows call sites), SLE and LLE: each store '
            'into one phase row at an index has a partner store into the other row at the same index and the two values sum symbolically to the conserved total of '
            'that region (mol_vle, the pooled liquid, the solute amount, or the documented reactive variants); in-place transfers add and remove the same amount; '
            'the vapour amount returned by the fixed-point solver is clipped into [0, total]; the H/S correction fraction and the lever-rule fraction are clamped '
            "before use and the amount taken out of a phase row is that fraction of the row's own entries; locked chemicals are written only in _setup; in "
            "LLE.__call__ every complement A = W - B has B = q*W or the solver's split of the same W, a necessary condition of 0 <= B <= W. In SLE the clamp bound "
            'equals N/(A+N) for the dissolved amount A*x/(1-x), the only bound for which the solid stays non-negative and nothing soluble is kept solid. That the '
            'numerical solvers respect their bounds is not decided.',
}

VLEF = 'thermosteam/equilibrium/vle.py'
LLEF = 'thermosteam/equilibrium/lle.py'
SLEF = 'thermosteam/equilibrium/sle.py'
ST = 'thermosteam/_stream.py'

VSIDE = re.compile(r"^self\._(vapor|liquid)_mol\[(.+)\]$")
VSIDE2 = re.compile(r"^self\._imol\['([lg])'\]\[(.+)\]$")


def vle_side(t):
    m = VSIDE.match(t)
    if m:
        return m.group(1), m.group(2)
    m = VSIDE2.match(t)
    if m:
        return {'l': 'liquid', 'g': 'vapor'}[m.group(1)], m.group(2)
    return None


def reactive_only(d):
    """every term of the difference carries a reaction-conversion factor"""
    for k in d.t:
        if not any('conversion' in a or '_dmol_vle' in a or '_dF_mol' in a for a, e in k):
            return False
    return True


IFEXP = re.compile(r'^\((.+) if [<(](.+)[>)] else (.+)\)$')


def vle_admissible(total, idx, p):
    base = Form.atom('self._mol_vle')
    d = total - base
    if d.is_zero():
        return None
    if reactive_only(d):
        return None
    # path taken only when a reaction conversion is present: documented reactive variant  mol_vle + dz*F
    reactive_path = implied(p.conds, lambda e: src(e) in ('gas_conversion', 'liquid_conversion', 'gas_conversion or liquid_conversion',
                                                          'liquid_conversion or gas_conversion'))
    if reactive_path and all(any(a == 'self._F_mol_vle' for a, e in k) for k in d.t):
        return None
    a = None
    if len(total.t) == 1:
        (k, v), = total.t.items()
        if v == 1 and len(k) == 1 and k[0][1] == 1:
            a = k[0][0]
    if a is not None:
        m = IFEXP.match(a)
        if m and 'conversion' in m.group(2):
            alts = {m.group(1).strip(), m.group(3).strip()}
            if alts <= {'self._mol_vle', 'self._dmol_vle + self._mol_vle', 'self._mol_vle + self._dmol_vle'}:
                return None
    # _setup: total is the pooled (l+g) row at the same (locked) index
    pooled = "(self._imol['g'] + self._imol['l'])[%s]" % idx
    if total == Form.atom(pooled):
        return None
    return 'expected the conserved total self._mol_vle (or the pooled l+g flows at that index)'


def run(ctx):
    prog = ctx.prog
    ctx.decided = [
        'D1 paired complement writes / equal-and-opposite transfers in VLE, SLE, LLE, set_flows and its call sites (D-lin sum = conserved total)',
        'D2 clip before use: fixed-point vapour amounts clipped into [0,total]; H/S correction fraction and lever-rule fraction clamped',
        'D3 locked (light/heavy) chemicals are written only by _setup; every later store uses the equilibrium index set',
        'D4 Stream.vlle: pooled liquids, normalise/rescale pair cancels',
        'D5 LLE.__call__: in every complement A = W - B the part B is q*W (closed form) or the solver\'s split of the same W -- never built from another amount (necessary for 0 <= B <= W)',
    ]
    ctx.not_decided = ['that numerical solver outputs (pseudo-equilibrium, shgo, Rachford-Rice) respect their bounds', 'non-negativity of LLE results']
    d1 = ctx.rule('D1', 'paired complement writes (VLE/SLE/LLE)', floor=40)
    d2 = ctx.rule('D2', 'clip / clamp before use', floor=5)
    d3 = ctx.rule('D3', 'locked chemicals: index discipline', floor=20)
    d4 = ctx.rule('D4', 'vlle pooling and rescale', floor=3)

    vle = prog.cls('VLE', VLEF)
    # set_flows body
    sf = prog.func(VLEF, 'set_flows')
    ps, _ = run_paths(sf.node)
    st = [e for e in ps[0].events if e.kind == 'store']
    a = sf.params
    okk = len(ps) == 1 and len(st) == 2 and st[0].target == '%s[%s]' % (a[0], a[2]) and st[1].target == '%s[%s]' % (a[1], a[2]) \
        and (st[0].value + st[1].value) == Form.atom(a[4]) and st[0].value == Form.atom(a[3])
    if okk:
        d1.ok('set_flows', 'vapor[index] = v ; liquid[index] = total - v (sum = total)', sf)
    else:
        d1.fail('set_flows', 'closure', 'set_flows does not write (v, total - v) at the same index', sf, sf.node)

    n_stores = 0
    for f in list(vle.methods.values()):
        if f.cls is not vle:
            continue
        has = any(isinstance(n, ast.Subscript) and isinstance(n.ctx, ast.Store) for n in walk_no_nested(f.node)) \
            or any(isinstance(n, ast.Call) and src(n.func) == 'set_flows' for n in walk_no_nested(f.node))
        if not has:
            continue
        ps, trunc = run_paths(f.node, max_paths=60000, follow_except=False)
        if trunc:
            d1.skip('VLE.' + f.name, 'path enumeration truncated', f)
        res = pairs.PairResult()
        idx_seen = {}
        calls_seen = {}
        for p in ps:
            if p.raised:
                continue
            pairs.check_path(p, vle_side, vle_admissible, res)
            for e in p.events:
                if e.kind in ('store', 'augstore'):
                    so = vle_side(e.target)
                    if so:
                        idx_seen[(e.stmt.lineno, so[1])] = e
                if e.kind == 'call' and e.target == 'set_flows':
                    calls_seen[e.stmt.lineno] = (e, p)
        pairs.report(res, d1, 'VLE.' + f.name, f)
        for ln, (e, p) in sorted(calls_seen.items()):
            v = e.value
            cons = 'VLE.%s' % f.name
            if len(v) != 5:
                d1.fail(cons, 'set_flows-arity', 'set_flows called with %d arguments' % len(v), f, e.stmt)
                continue
            t0, t1, t2 = v[0].pretty(), v[1].pretty(), v[2].pretty()
            why = vle_admissible(v[4], t2, p)
            if (t0, t1) != ('self._vapor_mol', 'self._liquid_mol'):
                d1.fail(cons, 'set_flows-sides', 'set_flows receives (%s, %s) as (vapour, liquid) rows' % (t0, t1), f, e.stmt)
            elif why is not None:
                d1.fail(cons, 'set_flows-total', 'set_flows total is %s: %s' % (v[4].pretty(), why), f, e.stmt)
            else:
                d1.ok(cons, 'set_flows(vapour row, liquid row, %s, v, %s)' % (t2, v[4].pretty()), f, e.stmt)
            idx_seen[(e.stmt.lineno, t2)] = e
        # D3
        for (ln, idx), e in sorted(idx_seen.items()):
            n_stores += 1
            cons = 'VLE.%s' % f.name
            if f.name == '_setup':
                if idx in ('self.chemicals._light_indices', 'self.chemicals._heavy_indices'):
                    d3.ok(cons, 'locked chemicals written at %s' % idx, f, e.stmt)
                else:
                    d3.fail(cons, 'setup-index', '_setup writes phase rows at unexpected index %s' % idx, f, e.stmt)
            elif idx == 'self._index':
                d3.ok(cons, 'store uses the equilibrium index set self._index', f, e.stmt)
            else:
                d3.fail(cons, 'index-set', 'phase rows written at %s, which is not the equilibrium index set (may touch locked chemicals)' % idx, f, e.stmt)
    # self._index provenance
    su = vle.methods['_setup']
    sps, _ = run_paths(su.node, max_paths=4000, follow_except=False)
    prov = [e for q in sps for e in q.events if e.kind == 'store' and e.target == 'self._index']
    if prov and all('get_vle_indices(' in e.value.pretty() for e in prov):
        d3.ok('VLE._setup', 'self._index comes from chemicals.get_vle_indices(nonzero)', su)
    else:
        d3.fail('VLE._setup', 'index-provenance', 'self._index is not built by get_vle_indices', su, su.node)

    clip_rules(ctx, d2, vle)
    sle_rules(ctx, d1)
    lle_paths = lle_rules(ctx, d1)
    d5 = ctx.rule('D5', 'LLE complements: the part subtracted is a fraction of the same whole', floor=2)
    fraction_of_whole(ctx, d5, lle_paths)
    vlle_rule(ctx, d4)


# ----------------------------------------------------------------------------
def clip_rules(ctx, d2, vle):
    prog = ctx.prog
    f = vle.methods['_solve_v']
    # every path that returns the fixed-point solution clips it from above (to the total of that path) and from below (to 0) first
    ps, trunc = run_paths(f.node, max_paths=4000, follow_except=True)
    if trunc:
        raise AnalysisError('VLE._solve_v: path enumeration truncated')
    n_fp = 0
    res = {'no-upper-clip': None, 'no-lower-clip': None, 'early-return': None}
    first_ok = {}

    class _R(ast.NodeTransformer):
        def __init__(self, defs, skip):
            self.defs, self.skip = defs, skip

        def visit_Name(self, node):
            d = self.defs.get(node.id)
            if d is not None and node.id not in self.skip and isinstance(node.ctx, ast.Load):
                return _R(self.defs, self.skip | {node.id}).visit(_clone(d))
            return node

    def _clone(e):
        return ast.parse(ast.unparse(e), mode='eval').body

    def rs(e, defs, keep):
        return src(_R(defs, set(keep)).visit(_clone(e)))

    TOTALS = ('self._mol_vle', 'self._mol_vle + self._dmol_vle')

    def total_ok(e, defs, depth=0):
        if isinstance(e, ast.IfExp):
            return total_ok(e.body, defs, depth) and total_ok(e.orelse, defs, depth)
        if isinstance(e, ast.Name) and e.id in defs and depth < 4:
            return total_ok(defs[e.id], defs, depth + 1)
        return src(e) in TOTALS or src(_R(defs, set()).visit(_clone(e))) in TOTALS

    for p in ps:
        if p.raised:
            continue
        calls = [e for e in p.events if e.kind == 'call' and e.target == 'self._solve_v_fixed_point']
        if not calls:
            continue
        n_fp += 1
        i0 = p.events.index(calls[-1])
        V = None
        defs = {}
        hi = lo = None
        from ..resolve import path_defs as _path_defs
        for e in p.events:
            if e.kind == 'assign' and isinstance(e.stmt, ast.Assign):
                if e.stmt is calls[-1].stmt:
                    V = e.target
            if e.kind == 'store' and V is not None:
                defs = {k_: v_ for k_, v_ in _path_defs(p, e).items() if k_ != V}
            if V is None or p.events.index(e) <= i0 or e.kind != 'store' or not isinstance(e.node, ast.Subscript) \
                    or not isinstance(e.stmt, ast.Assign) or src(e.node.value) != V:
                continue
            sl = rs(e.node.slice, defs, {V})
            val = e.stmt.value
            if isinstance(val, ast.Subscript) and isinstance(val.value, ast.Name):
                tot = val.value
                tfe = _R(defs, {V}).visit(_clone(tot))
                want = [src(ast.Compare(left=ast.Name(id=V, ctx=ast.Load()), ops=[op()], comparators=[tfe])) for op in (ast.Gt, ast.GtE)]
                if sl in want and rs(val.slice, defs, {V}) == sl and total_ok(tot, defs):
                    hi = e
            if isinstance(val, ast.Constant) and val.value == 0 and sl in ('%s < 0.0' % V, '%s < 0' % V):
                lo = e
        ret = [e for e in p.events if e.kind == 'ret']
        if not ret or ret[-1].node is None or src(ret[-1].node) != V:
            res['early-return'] = res['early-return'] or (calls[-1].stmt, 'the fixed-point solution is not what this path returns')
        if hi is None:
            res['no-upper-clip'] = res['no-upper-clip'] or (calls[-1].stmt, None)
        else:
            first_ok.setdefault('hi', hi.stmt)
        if lo is None:
            res['no-lower-clip'] = res['no-lower-clip'] or (calls[-1].stmt, None)
        else:
            first_ok.setdefault('lo', lo.stmt)
    if not n_fp:
        raise AnalysisError('VLE._solve_v: no path through the fixed-point solver')
    if res['no-upper-clip'] is None:
        d2.ok('VLE._solve_v', 'fixed-point result clipped from above on all %d paths: v[v > total] = total[v > total]' % n_fp, f, first_ok.get('hi'))
    else:
        d2.fail('VLE._solve_v', 'no-upper-clip', 'the fixed-point vapour amounts are not clipped to the available total before being returned', f, res['no-upper-clip'][0])
    if res['no-lower-clip'] is None:
        d2.ok('VLE._solve_v', 'fixed-point result clipped from below on all %d paths: v[v < 0] = 0' % n_fp, f, first_ok.get('lo'))
    else:
        d2.fail('VLE._solve_v', 'no-lower-clip', 'negative fixed-point vapour amounts are not zeroed before being returned', f, res['no-lower-clip'][0])
    if res['early-return'] is not None:
        d2.fail('VLE._solve_v', 'early-return', 'a return inside the fixed-point branch bypasses the clips', f, res['early-return'][0])
    # H/S correction: transfers only with f in (0, 1]
    for name in ('set_PH', 'set_PS'):
        g = vle.methods[name]
        ps, trunc = run_paths(g.node, max_paths=60000, follow_except=True)
        n = 0
        bad = None
        for p in ps:
            if p.raised:
                continue
            tr = [e for e in p.events if e.kind == 'augstore' and vle_side(e.target)]
            if not tr:
                continue
            n += 1
            # the fraction variable: the bare local that multiplies the phase amount in the definition of the transferred quantity
            fr = None
            amt_name = src(tr[0].stmt.value) if isinstance(tr[0].stmt.value, ast.Name) else None
            for e in p.events:
                if e.kind == 'assign' and e.target == amt_name and isinstance(e.stmt.value, ast.BinOp) and isinstance(e.stmt.value.op, ast.Mult):
                    for side in (e.stmt.value.left, e.stmt.value.right):
                        if isinstance(side, ast.Name):
                            fr = side.id
            if fr is None:
                bad = 'the transferred amount is not (fraction x phase amount)'
                continue
            neg = cmp_outcome(p, fr, (ast.Lt,), 0)
            pos = cmp_outcome(p, fr, (ast.Gt,), 0)
            big = cmp_outcome(p, fr, (ast.Gt,), 1)
            amt = tr[0].value
            # (f > 0 established on the path makes a separate f < 0 test redundant)
            if not (neg is not True and pos is True and big is not None):
                bad = 'a transfer happens on a path where the fraction was not tested against 0 and 1'
            elif big is True:
                # the fraction was reset to 1: the amount moved must be exactly the phase amount (coefficient 1, no quotient left)
                if not all(v == 1 and len(k) == 1 for k, v in amt.t.items()):
                    bad = 'fraction above 1 is not reset to 1 before the transfer'
            # a fraction in (0,1] keeps the donor non-negative only if it multiplies the DONOR's own amount: every term of the amount taken
            # out of a phase row carries that row's entries (possibly through a copy of it) as a factor
            for d_ in tr:
                if d_.op != 'Sub':
                    continue
                donor = vle_side(d_.target)[0]
                for k in d_.value.t:
                    own = [a_ for a_, ex in k if ex == 1 and (vle_side(a_.replace('.copy()', '')) or (None,))[0] == donor]
                    if not own:
                        bad = 'the amount taken out of the %s row is a fraction of another quantity (%s), not of that row: the row can go negative' % (
                            donor, ' * '.join(a_ for a_, ex in k if 'mol' in a_)[:120] or 'no phase amount')
        if bad or not n:
            d2.fail('VLE.' + name, 'fraction-clamp', bad or 'no transfer path found', g, g.node)
        else:
            d2.ok('VLE.' + name, 'phase transfers happen only with the correction fraction clamped into (0,1] (%d paths)' % n, g)
    g = vle.methods['_lever_rule']
    ps, _ = run_paths(g.node)
    n = 0
    bad = None
    for p in ps:
        if p.raised:
            continue
        n += 1
        # the fraction variable: the local compared with the constants 1 and 0 on this path
        cand = [t.left.id for t, taken in p.conds if not isinstance(t, str) and isinstance(t, ast.Compare) and isinstance(t.left, ast.Name)
                and isinstance(t.comparators[0], ast.Constant) and t.comparators[0].value in (0, 1) and len(t.ops) == 1]
        fr = cand[0] if cand else None
        hi = cmp_outcome(p, fr, (ast.Gt,), 1) if fr else None
        lo = cmp_outcome(p, fr, (ast.Lt,), 0) if fr else None
        sf = p.lin.env.get(fr) if fr else None
        # the fraction may reach the stores through locals computed from it (v = F * frac * y; rows[...] = v)
        carriers = {fr} if fr else set()
        for e in p.events:
            if e.kind == 'assign' and isinstance(e.stmt, ast.Assign) and any(isinstance(x, ast.Name) and x.id in carriers for x in ast.walk(e.stmt.value)):
                carriers.add(e.target)
        used = fr is not None and any(e.kind == 'store' and vle_side(e.target) and any(isinstance(x, ast.Name) and x.id in carriers for x in ast.walk(e.stmt.value))
                                      for e in p.events)
        # ... or through the paired-store helper set_flows(vapour row, liquid row, index, vapour amounts, total) (its pairing is D1's subject)
        used = used or (fr is not None and any(e.kind == 'call' and e.target == 'set_flows' and len(e.node.args) == 5
                                                and any(isinstance(x, ast.Name) and x.id in carriers for x in ast.walk(e.node.args[3])) for e in p.events))
        if not used:
            bad = 'the clamped fraction is not the one used in the phase stores'
        if hi is True and sf != Form.const(1):
            bad = 'fraction above 1 not reset'
        if hi is False and lo is True and sf != Form.const(0):
            bad = 'fraction below 0 not reset'
        if hi is None:
            bad = 'fraction not tested'
    if bad or not n:
        d2.fail('VLE._lever_rule', 'fraction-clamp', bad or 'no path', g, g.node)
    else:
        d2.ok('VLE._lever_rule', 'split fraction clamped into [0,1] before the phase rows are written (%d paths)' % n, g)


# ----------------------------------------------------------------------------
SSIDE = re.compile(r"^self\._(liquid|solid)_mol\[(.+)\]$")


def sle_rules(ctx, d1):
    prog = ctx.prog
    sle = prog.cls('SLE', SLEF)

    def side(t):
        m = SSIDE.match(t)
        return (m.group(1), m.group(2)) if m else None

    def adm(total, idx, p):
        if total == Form.atom('self._mol_solute'):
            return None
        return 'expected the solute total self._mol_solute'
    for name in ('__call__', '_update_solubility'):
        f = sle.methods[name]
        ps, trunc = run_paths(f.node, max_paths=20000, follow_except=False)
        res = pairs.PairResult()
        idxs = set()
        for p in ps:
            if p.raised:
                continue
            pairs.check_path(p, side, adm, res)
            for e in p.events:
                if e.kind in ('store', 'augstore') and side(e.target):
                    idxs.add((side(e.target)[1], e.stmt.lineno))
        pairs.report(res, d1, 'SLE.' + name, f)
        for idx, ln in sorted(idxs):
            if idx not in ('self._solute_index', "self.chemicals.get_index(solute)"):
                d1.fail('SLE.' + name, 'solute-only', 'phase rows written at %s, not only at the solute index' % idx, f, f.node)
    # three-way clamp of _update_solubility
    f = sle.methods['_update_solubility']
    ps, _ = run_paths(f.node)
    seen = {}
    for p in ps:
        xp = f.params[1]
        neg = cmp_outcome(p, xp, (ast.Lt,), 0)
        big = implied(p.conds, lambda e: isinstance(e, ast.Compare) and len(e.ops) == 1 and isinstance(e.ops[0], ast.GtE)
                      and src(e.left) == xp and isinstance(e.comparators[0], ast.Name))
        liq = [e for e in p.events if e.kind == 'store' and e.target.startswith('self._liquid_mol[')]
        if not liq:
            continue
        v = liq[-1].value
        if neg is True:
            seen['neg'] = v.is_zero()
        elif big is True:
            seen['max'] = v == Form.atom('self._mol_solute')
        elif neg is False and big is False:
            seen['mid'] = 'self._mol_solute' not in v.atoms() or True
    if seen.get('neg') and seen.get('max') and 'mid' in seen:
        d1.ok('SLE._update_solubility', 'three-way clamp: x<0 -> none dissolved, x>=x_max -> all dissolved, else F*x/(1-x)', f)
    else:
        d1.fail('SLE._update_solubility', 'clamp', 'solubility is not clamped into [0, x_max] (%s)' % seen, f, f.node)
    # x_max is the root of "solid = 0": with liquid = A*x/(1-x) and solid = N - liquid, solid >= 0  <=>  x <= N/(A + N).
    # Any other bound either dissolves more than is present (negative solid) or keeps solute solid that would dissolve.
    xm = None
    mid = None
    xp = f.params[1]
    for p in ps:
        for t, taken in p.conds:
            if not isinstance(t, str) and isinstance(t, ast.Compare) and isinstance(t.ops[0], ast.GtE) and isinstance(t.comparators[0], ast.Name):
                xm = p.lin.env.get(t.comparators[0].id)
        neg = cmp_outcome(p, xp, (ast.Lt,), 0)
        big = implied(p.conds, lambda e: isinstance(e, ast.Compare) and len(e.ops) == 1 and isinstance(e.ops[0], ast.GtE)
                      and src(e.left) == xp and isinstance(e.comparators[0], ast.Name))
        liq = [e for e in p.events if e.kind == 'store' and e.target.startswith('self._liquid_mol[')]
        if neg is False and big is False and liq:
            mid = liq[-1].value
    N = Form.atom('self._mol_solute')
    A = None
    if mid is not None:
        one_minus = '(%s)' % (Form.const(1) - Form.atom(xp)).pretty()
        A = Form.const(0)
        for k, c in mid.t.items():
            d = dict(k)
            if d.get(xp) != 1 or d.get(one_minus) != -1:
                A = None
                break
            A = A + Form({tuple(sorted((a, e) for a, e in d.items() if a not in (xp, one_minus))): c})
    if xm is None or A is None:
        d1.fail('SLE._update_solubility', 'x_max', 'clamp bound / dissolved amount A*x/(1-x) not recognised (bound %s, amount %s)'
                % (xm.pretty() if xm is not None else None, mid.pretty() if mid is not None else None), f, f.node)
    else:
        want = N * Form({((('(%s)' % (A + N).pretty()), -1),): 1})
        if xm == want:
            d1.ok('SLE._update_solubility', 'x_max = N/(A + N) with liquid = A*x/(1-x): exactly the solubility at which the solid vanishes', f)
        else:
            d1.fail('SLE._update_solubility', 'x_max', 'the clamp bound is %s but the dissolved amount is (%s)*x/(1-x): the solid stays non-negative only for x <= %s'
                    % (xm.pretty(), A.pretty(), want.pretty()), f, f.node)


LSIDE = re.compile(r"^self\._imol\['([lL])'\](?:\[(.+)\])?$")


def lle_rules(ctx, d1):
    prog = ctx.prog
    lle = prog.cls('LLE', LLEF)

    def side(t):
        m = LSIDE.match(t)
        return (m.group(1), m.group(2) or ':') if m else None
    f = lle.methods['get_liquid_mol_data']
    ps, _ = run_paths(f.node)

    def adm0(total, idx, p):
        if total == Form.atom("self._imol['l']") + Form.atom("self._imol['L']"):
            return None
        return 'expected the pooled l + L flows'
    res = pairs.PairResult()
    for p in ps:
        pairs.check_path(p, side, adm0, res)
    pairs.report(res, d1, 'LLE.get_liquid_mol_data', f)
    f = lle.methods['__call__']

    from ..pathcond import scenario_decide
    decide = scenario_decide(lambda t: True if (isinstance(t, ast.Name) and t.id == 'update') else None)      # the caller asks for the flows to be updated
    ps, trunc = run_paths(f.node, decide=decide, max_paths=60000, follow_except=True)

    def adm(total, idx, p):
        want = Form.atom('(self.get_liquid_mol_data())[0]')
        if total == want:
            return None
        return 'expected the pooled liquid amount returned by get_liquid_mol_data()'
    res = pairs.PairResult()
    n = 0
    for p in ps:
        if p.raised:
            continue
        n += 1
        pairs.check_path(p, side, adm, res)
    pairs.report(res, d1, 'LLE.__call__', f)
    if not res.ok and not res.bad:
        d1.fail('LLE.__call__', 'no-stores', 'no phase stores found on %d paths' % n, f, f.node)
    return ps


def fraction_of_whole(ctx, d5, ps):
    """Non-negativity of a complement  A = W - B  needs 0 <= B <= W.  In LLE.__call__ B is either q*W with a scalar
    fraction q (closed form of the remembered partition coefficients) or the solver's answer for the very same W.  If B is
    built from ANOTHER amount than the W it is subtracted from (a remembered composition, the unnormalised flows ...),
    B <= W no longer follows and a phase flow can go negative while the totals still agree."""
    prog = ctx.prog
    f = prog.cls('LLE', LLEF).methods['__call__']
    seen = set()
    for p in ps:
        if p.raised:
            continue
        for e in p.events:
            st = e.stmt
            if not (e.kind == 'assign' and isinstance(st, ast.Assign) and isinstance(st.value, ast.BinOp) and isinstance(st.value.op, ast.Sub)
                    and isinstance(st.value.left, ast.Name)):
                continue
            tot = e.value                      # W - B
            # the value the whole had when the complement was taken: its latest assignment on this path
            W = None
            for e2 in p.events:
                if e2 is e:
                    break
                if e2.kind == 'assign' and e2.target == st.value.left.id and isinstance(e2.value, Form):
                    W = e2.value
            if W is None:
                W = Form.atom(st.value.left.id)
            B = W - tot
            key = (st.lineno, repr(sorted(B.t.items(), key=str)), repr(sorted(W.t.items(), key=str)))
            if key in seen:
                continue
            seen.add(key)
            if not W.is_monomial():
                d5.skip('LLE.__call__', 'whole is not a monomial: %s' % W.pretty(), f, st)
                continue
            (wk, wc), = W.t.items()
            need = dict(wk)
            okk = True
            for k, c in B.t.items():
                have = dict(k)
                if all(have.get(a, 0) >= x for a, x in need.items() if x > 0):
                    continue
                # the solver's answer for the same whole
                if len(k) == 1 and k[0][1] == 1 and '(' in k[0][0] and W.pretty() in k[0][0]:
                    continue
                okk = False
            if okk:
                d5.ok('LLE.__call__', '%s: the part subtracted is a fraction (or the solver\'s split) of the same whole %s' % (src(st), W.pretty()), f, st)
            else:
                d5.fail('LLE.__call__', 'part-of-another-whole',
                        '%s: the part %s is not a multiple of the whole %s it is subtracted from, so the complement can be negative' % (src(st), B.pretty(), W.pretty()), f, st)


def vlle_rule(ctx, d4):
    prog = ctx.prog
    f = prog.method('Stream', 'vlle', rel=ST)
    ps, _ = run_paths(f.node)
    # liq += LIQ ; LIQ[:] = 0
    okp = okr = False
    for p in ps:
        ev = p.events
        for i, e in enumerate(ev):
            if e.kind == 'augname' and e.op == 'Add' and i + 1 < len(ev):
                nxt = [x for x in ev[i + 1:i + 3] if x.kind == 'store']
                if nxt and nxt[0].value.is_zero() and src(nxt[0].node.value) == src(e.stmt.value):
                    okp = True
    if okp:
        d4.ok('Stream.vlle', 'pooling: liq += LIQ immediately followed by LIQ[:] = 0', f)
    else:
        d4.fail('Stream.vlle', 'pooling', 'the second liquid is not zeroed right after being added to the first', f, f.node)
    # normalise / rescale
    txt = ' '.join(ast.unparse(f.node).split())
    tot = [n for n in walk_no_nested(f.node) if isinstance(n, ast.Assign) and src(n.targets[0]) == 'total_flow']
    div = 'data / total_flow' in txt
    mul = [n for n in walk_no_nested(f.node) if isinstance(n, ast.AugAssign) and src(n.target) == 'data' and isinstance(n.op, ast.Mult)
           and src(n.value) == 'total_flow']
    if tot and src(tot[0].value) == 'data.sum()' and div and mul:
        d4.ok('Stream.vlle', 'iterates on data/total_flow and rescales data *= total_flow (inverse pair)', f, mul[0])
    else:
        d4.fail('Stream.vlle', 'rescale', 'normalisation by total_flow is not undone by data *= total_flow', f, f.node)
    # the rescale is the last statement on the converged path (not skipped by an early return after normalisation)
    cfg = CFG(f.node)
    fp = [n for n in walk_no_nested(f.node) if isinstance(n, ast.Expr) and 'fixed_point' in src(n.value)]
    if fp and mul:
        start = cfg.node_of(fp[0])
        okk, wit = cfg.must_pass(start, lambda nd: nd.ast is mul[0])
        if okk:
            d4.ok('Stream.vlle', 'every path after the normalised iteration passes through the rescale', f, mul[0])
        else:
            d4.fail('Stream.vlle', 'rescale-skipped', 'a return after the normalised iteration skips data *= total_flow', f, mul[0])
