"""C17 -- reaction arithmetic: fresh results, untouched operands, binary == in-place."""
from __future__ import annotations
import ast
from ..frontend import AnalysisError, src, walk_no_nested
from ..symx import run_paths
from ..lin import Form, Lin

MANIFEST = {
    'technique': 'effect (purity/alias) analysis by path-wise symbolic execution of the Reaction operator methods; linear-form comparison of binary and in-place '
            "operators; field-mutability rule for copy(); helper summary 'the operand object is never changed before it is copied'; storability rule for attributes "
            'of hand-built instances (slots / properties with setters, class-decorator injections resolved); premise rule for the net-stoichiometry formula; '
            'representation rule for inherited methods',
    'text': 'Decides for every input: the value-returning operators of Reaction (copy, +, -, *, /, neg, backwards) store nothing through self or the argument and '
            'return a fresh object on every path; copy() of a reaction set does not share mutable state; each in-place operator computes the same linear form for '
            'stoichiometry and conversion as its binary twin with consistent signs; ReactionItem aliases the parent arrays; the helper shared by the binary and in-'
            'place operators never changes the operand object itself (callees that change an argument in place are summarised transitively, per parameter '
            'position); every attribute stored on an instance built with K.__new__(K) is storable (else the operator can never return). Both operands are filtered '
            'with has_reaction() before the net-stoichiometry formula of + - += -=; no method inherited by ReactionItem reads self._X directly. Equality of '
            'reaction products on feeds is not decided.',
}

RX = 'thermosteam/reaction/_reaction.py'
PURE_OPS = ['copy', '__add__', '__radd__', '__sub__', '__mul__', '__rmul__', '__truediv__', '__neg__', 'backwards']
PAIRS = [('__add__', '__iadd__'), ('__sub__', '__isub__'), ('__mul__', '__imul__'), ('__truediv__', '__itruediv__')]
FRESH_CALLS = ('copy', '__new__', '_math_compatible_reaction', '__mul__', '__add__', '__sub__')


def hook(node, lin):
    f = node.func
    if isinstance(f, ast.Attribute) and f.attr == '_math_compatible_reaction':
        return Form.atom('RXN')
    if isinstance(f, ast.Name) and f.id == 'float' and len(node.args) == 1:
        return lin.form(node.args[0])
    return None


def attr_hook(node, lin):
    # after the compatibility check rxn._reactant_index == self._reactant_index
    if node.attr == '_reactant_index' and lin._recv_text(node.value) == 'RXN':
        return Form.atom('self._reactant_index')
    return None


def has_reaction_decide(test, st):
    """the main scenario of the arithmetic: both operands are real reactions (X.has_reaction() holds, the operand is neither 0 nor None)"""
    t = test
    if st is not None and isinstance(t, ast.Name):
        from ..resolve import path_defs
        d = path_defs(st).get(t.id)          # a flag local: has_reaction = self.has_reaction()
        if d is not None:
            return has_reaction_decide(d, None)
    if isinstance(t, ast.UnaryOp) and isinstance(t.op, ast.Not):
        v = has_reaction_decide(t.operand, st)
        return None if v is None else not v
    if isinstance(t, ast.BoolOp):
        vs = [has_reaction_decide(v, st) for v in t.values]
        if isinstance(t.op, ast.And):
            return False if any(v is False for v in vs) else (True if all(v is True for v in vs) else None)
        return True if any(v is True for v in vs) else (False if all(v is False for v in vs) else None)
    if isinstance(t, ast.Call) and isinstance(t.func, ast.Attribute) and t.func.attr == 'has_reaction' and not t.args:
        return True
    if isinstance(t, ast.Compare) and len(t.ops) == 1 and isinstance(t.left, ast.Name):
        c = t.comparators[0]
        if isinstance(c, ast.Constant) and c.value in (0, None) and isinstance(t.ops[0], (ast.Eq, ast.Is)):
            return False
        if isinstance(c, ast.Constant) and c.value in (0, None) and isinstance(t.ops[0], (ast.NotEq, ast.IsNot)):
            return True
    return None


def run(ctx):
    prog = ctx.prog
    ctx.decided = [
        'D1 copy/+/-/*/ / /neg/backwards store nothing through self or the operand and return a fresh object on every path; copy of a reaction set shares no mutable field',
        'D2 each in-place operator yields the same linear forms (stoichiometry, X) as its binary twin, with consistent signs',
        'D3 ReactionItem aliases the parent set\'s X array and stoichiometry row; its X property reads/writes through the alias',
        'D4 every attribute stored on an instance created with K.__new__(K) in the reaction module is storable there (a slot, or a property with a setter): '
        'a store to a getter-only property raises AttributeError, so the copy / negation / sum could never be returned',
    ]
    ctx.not_decided = ['equality of products when the combined reactions are applied to arbitrary feeds (numerical)']
    R = prog.cls('Reaction', RX)
    d1 = ctx.rule('D1', 'operators are pure and return fresh objects', floor=12)
    d2 = ctx.rule('D2', 'binary operator == in-place operator (D-lin), sign consistency', floor=8)
    d3 = ctx.rule('D3', 'ReactionItem shares parent arrays', floor=4)
    d4 = ctx.rule('D4', 'hand-built copies only store attributes that can be stored', floor=20)
    from ..generic import storable_attributes
    storable_attributes(prog, d4, rels={RX})

    # helper summary: _math_compatible_reaction(copy=True) returns a copy
    mc = prog.method('Reaction', '_math_compatible_reaction', rel=RX)
    p_rxn, p_copy = mc.params[1], mc.params[2]
    from ..resolve import resolved, path_defs

    def copy_on(t, st_):
        # the test is the copy flag itself, or `copy or ...` (possibly through a local)
        r = resolved(t, path_defs(st_), keep=set(mc.params))
        if isinstance(r, ast.Name) and r.id == p_copy:
            return True
        if isinstance(r, ast.BoolOp) and isinstance(r.op, ast.Or) and any(isinstance(v, ast.Name) and v.id == p_copy for v in r.values):
            return True
        return None
    ps, _ = run_paths(mc.node, decide=copy_on)
    rets = [p for p in ps if not p.raised]
    if rets and all(p.ret is not None and p.ret.pretty().startswith(p_rxn + '.copy(') for p in rets):
        d1.ok('Reaction._math_compatible_reaction', 'with copy=True returns rxn.copy(basis) on all %d normal paths' % len(rets), mc)
    else:
        d1.fail('Reaction._math_compatible_reaction', 'not-a-copy', 'with copy=True does not return a copy of the operand', mc, mc.node)
    # ... and never changes the operand object itself (the in-place operators call it with copy=False)
    rx_mod = prog.module(RX)
    # module functions that change the object handed to them: name -> positions of the parameters changed in place (directly, or by
    # handing the parameter on to another such function: fixpoint)
    mutators = {}
    grew = True
    while grew:
        grew = False
        for name_, g_ in rx_mod.functions.items():
            for pos_, q in enumerate(g_.params):
                if pos_ in mutators.get(name_, ()):
                    continue
                hit = False
                for n in walk_no_nested(g_.node):
                    if isinstance(n, (ast.Attribute, ast.Subscript)) and isinstance(n.ctx, ast.Store) and _root_name(n) == q:
                        hit = True
                    if isinstance(n, ast.Call) and isinstance(n.func, ast.Attribute) and src(n.func.value) == q and n.func.attr in MUTATING_METHODS:
                        hit = True
                    if isinstance(n, ast.Call) and isinstance(n.func, ast.Name) and n.func.id in mutators:
                        for j, a_ in enumerate(n.args):
                            if j in mutators[n.func.id] and isinstance(a_, ast.Name) and a_.id == q:
                                hit = True
                if hit and not any(isinstance(n, ast.Name) and n.id == q and isinstance(n.ctx, ast.Store) for n in walk_no_nested(g_.node)):
                    mutators.setdefault(name_, set()).add(pos_)
                    grew = True
    all_ps, _ = run_paths(mc.node)
    touched = None
    n_normal = 0
    for p in all_ps:
        if p.raised:
            continue
        n_normal += 1
        orig = True
        for e in p.events:
            if e.kind == 'assign' and e.target == p_rxn:
                orig = False
            if not orig:
                continue
            if e.kind in ('store', 'augstore') and _root_name(e.node) == p_rxn:
                touched = (e, 'stores through the operand (%s)' % src(e.node))
            if e.kind == 'call':
                if e.target in mutators and e.value:
                    for j in sorted(mutators[e.target]):
                        if j < len(e.value) and isinstance(e.value[j], Form) and e.value[j] == Form.atom(p_rxn):
                            touched = (e, 'passes the operand itself to %s, which changes its argument %d in place' % (e.target, j + 1))
                parts = e.target.split('.')
                if len(parts) == 2 and parts[0] == p_rxn and parts[1] in MUTATING_METHODS:
                    touched = (e, 'calls the mutator %s on the operand itself' % e.target)
    if touched is None:
        d1.ok('Reaction._math_compatible_reaction', 'the operand object is never changed (it is copied before any re-basing) on all %d normal paths' % n_normal, mc)
    else:
        d1.fail('Reaction._math_compatible_reaction', 'helper-mutates-operand',
                'on a path where the operand has not been copied the helper %s: a += b / a - b change b' % touched[1], mc, touched[0].stmt)
    # ... and raises when the reactants differ
    # (every normal return has established that the reactant indices are equal)
    from ..pathcond import implied as _implied
    normal = [p for p in all_ps if not p.raised]
    raises_on_idx = bool(normal)
    for p in normal:
        ne = _implied(p.conds, lambda t: isinstance(t, ast.Compare) and len(t.ops) == 1 and isinstance(t.ops[0], ast.NotEq)
                      and '_reactant_index' in src(t.left) and '_reactant_index' in src(t.comparators[0]))
        eq = _implied(p.conds, lambda t: isinstance(t, ast.Compare) and len(t.ops) == 1 and isinstance(t.ops[0], ast.Eq)
                      and '_reactant_index' in src(t.left) and '_reactant_index' in src(t.comparators[0]))
        if not (ne is False or eq is True):
            raises_on_idx = False
    if raises_on_idx:
        d2.ok('Reaction._math_compatible_reaction', 'raises unless self._reactant_index == rxn._reactant_index', mc)
    else:
        d2.fail('Reaction._math_compatible_reaction', 'no-reactant-check', 'operands with different reactants are not rejected', mc, mc.node)

    # ---- D1 purity
    for cname in ('Reaction', 'ReactionItem'):
        c = prog.cls(cname, RX)
        for op in PURE_OPS:
            f = c.methods.get(op)
            if f is None or f.cls is not c:
                continue
            purity(ctx, d1, f, cname)
    copy_sharing(ctx, d1)

    # ---- D2
    for b, i in PAIRS:
        fb = prog.method('Reaction', b, rel=RX)
        fi = prog.method('Reaction', i, rel=RX)
        compare_pair(ctx, d2, fb, fi)

    # the net-stoichiometry formula  S' = (S_a X_a +- S_b X_b) / -(...)[r],  X' = X_a +- X_b  equals "a and b in parallel" only if both
    # reactant coefficients are -1; an empty reaction (all-zero stoichiometry) breaks that premise, so BOTH operands must have been
    # filtered with has_reaction() before the formula is reached
    for op in ('__add__', '__iadd__', '__sub__', '__isub__'):
        fo = prog.method('Reaction', op, rel=RX)
        other = fo.params[1]
        formula = [n for n in walk_no_nested(fo.node) if isinstance(n, ast.Assign) and isinstance(n.value, ast.BinOp) and isinstance(n.value.op, (ast.Add, ast.Sub))
                   and 'self._stoichiometry' in src(n.value.left) and '_stoichiometry' in src(n.value.right)]
        if not formula:
            d2.fail('Reaction.' + op, 'no-formula', 'net-stoichiometry statement not found', fo, fo.node)
            continue
        # on every path that reaches the formula, has_reaction() has been established for both operands (in whatever form it is tested)
        from ..pathcond import resolved_conds, implied as _imp2
        fps, _ = run_paths(fo.node, max_paths=2000)
        guards = None
        for p_ in fps:
            ev_ = [e for e in p_.events if e.kind == 'assign' and e.stmt is formula[0]]
            if not ev_:
                continue
            cut = p_.events.index(ev_[0])
            rc = resolved_conds(p_, keep=set(fo.params))
            # only the conditions evaluated before the formula count
            n_before = sum(1 for e in p_.events[:cut] if e.kind == 'cond' and isinstance(e.stmt, (ast.If, ast.While)) and isinstance(e.value, bool))
            rc = rc[:n_before]
            g = {x for x in ('self', other) if _imp2(rc, lambda t, x=x: isinstance(t, ast.Call) and isinstance(t.func, ast.Attribute)
                                                      and t.func.attr == 'has_reaction' and src(t.func.value) == x) is True}
            guards = g if guards is None else guards & g
        guards = guards or set()
        if {'self', other} <= guards:
            d2.ok('Reaction.' + op, 'both operands are filtered with has_reaction() before the net-stoichiometry formula', fo, formula[0])
        else:
            d2.fail('Reaction.' + op, 'empty-operand-unfiltered', 'the operand %s reaches the net-stoichiometry formula without a has_reaction() test: for an empty reaction the '
                    'reactant coefficient is 0, not -1, and X\' = X_a +- X_b no longer describes the combined effect' % sorted({'self', other} - guards), fo, formula[0])
    # ---- D3
    item = prog.cls('ReactionItem', RX)
    init = item.methods['__init__']
    ps, _ = run_paths(init.node)
    p = ps[0]
    st = {e.target: e.value for e in p.events if e.kind == 'store'}
    par = init.params[1]
    idx = init.params[2]
    for fld, want in (('self._X', '%s._X' % par), ('self._stoichiometry', '%s._stoichiometry[%s]' % (par, idx))):
        got = st.get(fld)
        if got is not None and got.pretty() == want:
            d3.ok('ReactionItem.__init__', '%s aliases %s' % (fld, want), init)
        else:
            d3.fail('ReactionItem.__init__', 'alias-' + fld, '%s is %s, expected the parent\'s %s (shared)' % (fld, got, want), init, init.node)
    # representation: in a ReactionItem `_X` is the parent's ARRAY; only the X property knows the item's own element.  Every method the
    # item INHERITS from Reaction must therefore read the conversion through self.X, never through self._X
    base = prog.cls('Reaction', RX)
    for name, meth in sorted(base.methods.items()):
        if meth.cls is not base or name in item.methods and item.methods[name].cls is item:
            continue
        raw = [n for n in walk_no_nested(meth.node) if isinstance(n, ast.Attribute) and n.attr == '_X' and src(n.value) == 'self' and isinstance(n.ctx, ast.Load)]
        if raw:
            d3.fail('Reaction.' + name, 'raw-conversion-in-inherited-method', 'reads self._X; ReactionItem inherits this method and its _X is the conversion array of the whole set', meth, raw[0])
    d3.ok('Reaction -> ReactionItem', 'no method inherited by ReactionItem reads self._X directly', item.methods['__init__'])
    g = item.methods.get('X')
    s = item.setters.get('X')
    if g is not None and g.cls is item:
        ps, _ = run_paths(g.node)
        if all(p.ret is not None and p.ret.pretty() == 'self._X[self._index]' for p in ps):
            d3.ok('ReactionItem.X', 'getter reads self._X[self._index]', g)
        else:
            d3.fail('ReactionItem.X', 'getter', 'getter does not read the shared array at its index', g, g.node)
    if s is not None and s.cls is item:
        ps, _ = run_paths(s.node)
        okk = all(any(e.kind == 'store' and e.target == 'self._X[self._index]' and e.value == Form.atom(s.params[1])
                      for e in p.events) for p in ps)
        if okk:
            d3.ok('ReactionItem.X.setter', 'setter writes self._X[self._index]', s)
        else:
            d3.fail('ReactionItem.X.setter', 'setter', 'setter does not write through to the shared array', s, s.node)


MUTATING_METHODS = ('__iadd__', '__isub__', '__imul__', '__itruediv__', '_rescale', 'reset_chemicals')


def purity(ctx, d1, f, cname):
    paths, _ = run_paths(f.node, call_hook=None)
    params = f.params
    cons = '%s.%s' % (cname, f.name)
    bad = False
    n_paths = 0
    for p in paths:
        if p.raised:
            continue
        n_paths += 1
        fresh = set()   # local names bound to fresh objects
        for e in p.events:
            if e.kind == 'assign' and isinstance(e.stmt, (ast.Assign,)) and isinstance(e.stmt.value, ast.Call):
                callee = src(e.stmt.value.func).split('.')[-1]
                if callee in FRESH_CALLS:
                    kws = {k.arg: src(k.value) for k in e.stmt.value.keywords}
                    if callee == '_math_compatible_reaction' and kws.get('copy') == 'False':
                        continue
                    fresh.add(e.target)
            if e.kind in ('store', 'augstore'):
                root = _root_name(e.node)
                if root in fresh:
                    continue
                if root == 'self' or root in params:
                    d1.fail(cons, 'mutates-' + ('self' if root == 'self' else 'operand'),
                            'stores through %s (%s) although the operator must leave its operands unchanged' % (root, src(e.node)),
                            f, e.stmt)
                    bad = True
            if e.kind == 'call':
                # in-place dunder / mutator called on self or operand
                parts = e.target.split('.')
                if len(parts) == 2 and parts[0] in ('self',) + tuple(params[1:]) and parts[0] not in fresh \
                        and parts[1] in MUTATING_METHODS:
                    d1.fail(cons, 'mutates-call', 'calls mutator %s' % e.target, f, e.stmt)
                    bad = True
        # return value fresh?
        rn = p.ret_node.value if p.ret_node is not None else None
        if rn is None:
            continue
        if isinstance(rn, ast.Name):
            if rn.id in fresh:
                continue
            if rn.id == 'self' or rn.id in params:
                d1.fail(cons, 'returns-operand', 'returns %s itself instead of a new object on a path' % rn.id, f, p.ret_node)
                bad = True
                continue
        if isinstance(rn, ast.Call):
            callee = src(rn.func).split('.')[-1]
            if callee in FRESH_CALLS or callee in ('__mul__', '__add__'):
                continue
            if isinstance(rn.func, ast.Attribute) and callee == '__class__':
                continue
        if isinstance(rn, ast.BinOp):
            continue   # delegates to another operator (self + rxn)
        d1.fail(cons, 'returns-unknown', 'cannot show that the returned value %s is a fresh object' % src(rn), f, p.ret_node)
        bad = True
    if not bad:
        d1.ok(cons, 'no store through self/operands and a fresh result on all %d normal paths' % n_paths, f)


def _root_name(node):
    while isinstance(node, (ast.Attribute, ast.Subscript)):
        node = node.value
    return node.id if isinstance(node, ast.Name) else None


def copy_sharing(ctx, d1):
    """copy() applied to each class that inherits/aliases it: fields that are mutable
    in that class must not be shared, list-typed fields whose elements are mutated in
    place must be copied element-wise."""
    prog = ctx.prog
    done = set()
    for cname in ('Reaction', 'ReactionItem', 'ReactionSet', 'ParallelReaction', 'SeriesReaction'):
        c = prog.cls(cname, RX)
        f = prog.find_method(c, 'copy')
        if f is None:
            raise AnalysisError('%s has no copy()' % cname)
        if (id(f), cname not in ('Reaction', 'ReactionItem')) in done:
            continue
        done.add((id(f), cname not in ('Reaction', 'ReactionItem')))
        # field kinds in this class (from its own constructors)
        kinds = {}
        for k in c.mro():
            init = k.methods.get('__init__')
            if init is None or init.cls is not k:
                continue
            for n in walk_no_nested(init.node):
                if isinstance(n, ast.Assign):
                    for t in n.targets:
                        if isinstance(t, ast.Attribute) and src(t.value) == 'self':
                            v = n.value
                            if isinstance(v, (ast.List, ast.ListComp)):
                                kinds.setdefault(t.attr, 'list')
                            elif isinstance(v, ast.Call) and src(v.func) in ('np.array', 'np.zeros', 'np.ones', 'np.asarray'):
                                kinds.setdefault(t.attr, 'ndarray')
                            elif isinstance(v, ast.IfExp) and any(isinstance(x, ast.Call) and src(x.func) == 'np.array' for x in (v.body, v.orelse)):
                                kinds.setdefault(t.attr, 'index-array')
            break
        # fields updated in place by methods of this class hierarchy are mutable whatever their constructor looks like
        for k in c.mro():
            for meth in list(k.methods.values()) + list(k.setters.values()):
                for n in walk_no_nested(meth.node):
                    tgt = None
                    if isinstance(n, ast.AugAssign) and isinstance(n.target, ast.Attribute) and src(n.target.value) == 'self':
                        tgt = n.target.attr
                    if isinstance(n, ast.Subscript) and isinstance(n.ctx, ast.Store) and isinstance(n.value, ast.Attribute) and src(n.value.value) == 'self':
                        tgt = n.value.attr
                    if tgt in ('_X', '_stoichiometry') and kinds.get(tgt) not in ('list', 'ndarray'):
                        kinds[tgt] = 'array updated in place'
        # X setter of Reaction stores float(X): immutable
        from ..pathcond import scenario_decide as _sdb
        ps, _ = run_paths(f.node, decide=_sdb(lambda t: False if (isinstance(t, ast.Name) and t.id == 'basis') else None))      # no re-basing asked for
        p = [q for q in ps if not q.raised][0]
        cons = '%s.copy' % cname
        for e in p.events:
            if e.kind != 'store' or not isinstance(e.node, ast.Attribute):
                continue
            fld = e.node.attr
            if fld not in ('_X', '_stoichiometry'):
                continue
            kind = kinds.get(fld)
            vnode = e.stmt.value if isinstance(e.stmt, ast.Assign) else None
            deep = kind == 'list' and _elements_mutated_in_place(prog, fld)
            if vnode is not None and src(vnode) == 'self.X':
                # resolve the property: an element read (self._X[i]) is a value, a bare self._X is the shared array
                g = prog.find_method(c, 'X')
                rets = [r for r in walk_no_nested(g.node) if isinstance(r, ast.Return)] if g else []
                if rets and all(isinstance(r.value, ast.Subscript) for r in rets):
                    d1.ok(cons, '%s: taken by value through the X property (element read %s)' % (fld, src(rets[0].value)), f, e.stmt)
                    continue
            # locals that merely name a field of self (stoichiometry = self._stoichiometry) are resolved before the value is judged
            amap = {}
            for e2 in p.events:
                if e2 is e:
                    break
                if e2.kind == 'assign' and isinstance(e2.stmt, ast.Assign) and isinstance(e2.stmt.value, ast.Attribute) and src(e2.stmt.value.value) == 'self' \
                        and isinstance(e2.node, ast.Name):
                    amap[e2.node.id] = e2.stmt.value
            if vnode is not None and amap:
                import copy as _copy

                class _R(ast.NodeTransformer):
                    def visit_Name(self, nd):
                        if isinstance(nd.ctx, ast.Load) and nd.id in amap:
                            return _copy.deepcopy(amap[nd.id])
                        return nd
                vnode = ast.fix_missing_locations(_R().visit(_copy.deepcopy(vnode)))
            verdict, why = _copied(vnode, fld, kind, deep)
            if verdict:
                d1.ok(cons, '%s: %s' % (fld, why), f, e.stmt)
            else:
                d1.fail(cons, ('shallow-' if 'shallow' in why else 'shares-') + fld, why, f, e.stmt)


def _copied(v, fld, kind, deep):
    """is the value expression an independent copy of self.<fld> for a field of this kind?"""
    s = src(v) if v is not None else '?'
    if isinstance(v, ast.IfExp):
        a, wa = _copied(v.body, fld, kind, deep)
        b, wb = _copied(v.orelse, fld, None if kind == 'list' else kind, False)
        tests_list = 'list' in src(v.test)
        if kind == 'list' and not tests_list:
            b, wb = _copied(v.orelse, fld, kind, deep)
        return (a and b), (wa if not a else wb if not b else 'copied in both branches (%s)' % s)
    if s in ('self.' + fld, 'self.' + fld.lstrip('_')) and kind in ('list', 'ndarray', 'array updated in place'):
        return False, 'the copy shares the mutable %s %s with the original' % (kind, fld)
    if s == 'self.' + fld:
        return True, 'shared but immutable here (%s)' % (kind or 'scalar')
    if s == 'self.X':
        return True, 'taken by value through the X property'
    if s == 'self.%s.copy()' % fld or (isinstance(v, ast.Name)):
        if isinstance(v, ast.Name):
            return False, 'cannot show that %s is a copy' % s
        if deep:
            return False, 'shallow: %s is a list of rows that are rescaled in place; list.copy() shares the rows with the original' % fld
        return True, 'copied with .copy()'
    if isinstance(v, ast.Call) and isinstance(v.func, ast.Attribute) and v.func.attr == 'copy':
        return True, 'copied with .copy() (%s)' % s
    if isinstance(v, ast.ListComp) and isinstance(v.elt, ast.Call) and isinstance(v.elt.func, ast.Attribute) \
            and v.elt.func.attr == 'copy' and isinstance(v.elt.func.value, ast.Name) \
            and v.elt.func.value.id == getattr(v.generators[0].target, 'id', None):
        return True, 'element-wise copy (%s)' % s
    return False, 'cannot show that %s is an independent copy of %s' % (s, fld)


def _elements_mutated_in_place(prog, fld):
    """is some element (row) of the list-typed field `fld` updated in place anywhere in the reaction module?  An element is: the loop
    variable of a loop whose iterable mentions X.fld (directly, through a local alias, inside zip / enumerate), or a local read from
    X.fld[i] / alias[i]; it is updated in place by an augmented assignment to it, an item store into it, or `X.fld[i] op= ...`."""
    m = prog.module(RX)

    def is_fld(e, aliases):
        return (isinstance(e, ast.Attribute) and e.attr == fld) or (isinstance(e, ast.Name) and e.id in aliases)
    for fn in ast.walk(m.tree):
        if not isinstance(fn, (ast.FunctionDef, ast.AsyncFunctionDef)):
            continue
        aliases = {t.id for n in walk_no_nested(fn) if isinstance(n, ast.Assign) and isinstance(n.value, ast.Attribute) and n.value.attr == fld
                   for t in n.targets if isinstance(t, ast.Name)}
        elems = set()
        for n in walk_no_nested(fn):
            if isinstance(n, ast.For) and any(is_fld(x, aliases) for x in ast.walk(n.iter)):
                elems |= {x.id for x in ast.walk(n.target) if isinstance(x, ast.Name)}
            if isinstance(n, ast.Assign) and isinstance(n.value, ast.Subscript) and is_fld(n.value.value, aliases):
                elems |= {t.id for t in n.targets if isinstance(t, ast.Name)}
        for n in walk_no_nested(fn):
            if isinstance(n, ast.AugAssign):
                t = n.target
                if isinstance(t, ast.Name) and t.id in elems:
                    return True
                if isinstance(t, ast.Subscript) and (is_fld(t.value, aliases) or (isinstance(t.value, ast.Name) and t.value.id in elems)):
                    return True
            if isinstance(n, ast.Subscript) and isinstance(n.ctx, ast.Store) and isinstance(n.value, ast.Name) and n.value.id in elems:
                return True
    return False


def compare_pair(ctx, d2, fb, fi):
    cons = 'Reaction.%s/%s' % (fb.name, fi.name)

    def summary(f):
        ps, _ = run_paths(f.node, decide=has_reaction_decide, call_hook=hook, attr_hook=attr_hook)
        ps = [p for p in ps if not p.raised]
        if len(ps) != 1:
            raise AnalysisError('%s: expected a single main path, got %d' % (f.qualname, len(ps)))
        p = ps[0]
        out = {}
        for e in p.events:
            if e.kind == 'store' and isinstance(e.node, ast.Attribute):
                out[e.node.attr.lstrip('_')] = ('=', e.value, e)
            elif e.kind == 'augstore' and isinstance(e.node, ast.Attribute):
                out[e.node.attr.lstrip('_')] = (e.op, e.value, e)
            elif e.kind == 'ret' and isinstance(e.node, ast.Call):
                out['delegate'] = (src(e.node.func).split('.')[-1], [Lin(call_hook=hook).form(a) for a in e.node.args], e)
        return out

    sb, si = summary(fb), summary(fi)
    if 'delegate' in sb or 'delegate' in si:
        db, di = sb.get('delegate'), si.get('delegate')
        twin = dict(PAIRS)
        if db and di and twin.get(db[0]) == di[0] and db[1] == di[1]:
            d2.ok(cons, 'both delegate to the (%s, %s) pair with argument %s' % (db[0], di[0], db[1][0].pretty()), fb)
        else:
            d2.fail(cons, 'delegation', 'binary delegates to %s, in-place to %s' % (db and (db[0], db[1]), di and (di[0], di[1])), fi, fi.node)
        return
    for fld in sorted(set(sb) | set(si)):
        a, b = sb.get(fld), si.get(fld)
        if a is None or b is None:
            d2.fail(cons, 'field-' + fld, 'only one of the two operators updates %s' % fld, fi, fi.node)
            continue
        if a[0] == b[0] and a[1] == b[1]:
            d2.ok(cons, '%s: both compute %s %s' % (fld, a[0], a[1].pretty()), fi, b[2].stmt)
        else:
            d2.fail(cons, 'differs-' + fld, '%s: binary computes %s %s but in-place computes %s %s'
                    % (fld, a[0], a[1].pretty(), b[0], b[1].pretty()), fi, b[2].stmt)
    # sign consistency inside each operator
    for f, s in ((fb, sb), (fi, si)):
        if 'stoichiometry' in s and 'X' in s and s['X'][0] == '=':
            xs = s['X'][1].coeff('RXN.X')
            stoich_num = None
            # numerator: the local `stoichiometry` form
            ps, _ = run_paths(f.node, decide=has_reaction_decide, call_hook=hook, attr_hook=attr_hook)
            p = [q for q in ps if not q.raised][0]
            for e in p.events:
                if e.kind == 'assign' and e.value.coeff('RXN.X', 'RXN._stoichiometry') != 0 and e.value.coeff('self.X', 'self._stoichiometry') != 0:
                    stoich_num = e.value
            if stoich_num is None:
                continue
            ss = stoich_num.coeff('RXN.X', 'RXN._stoichiometry')
            if xs != 0 and ss != 0 and (xs > 0) == (ss > 0):
                d2.ok('Reaction.' + f.name, 'operand enters stoichiometry (%s) and X (%s) with the same sign' % (ss, xs), f)
            else:
                d2.fail('Reaction.' + f.name, 'sign-mismatch',
                        'operand term has coefficient %s in the combined stoichiometry but %s in the combined conversion' % (ss, xs),
                        f, f.node)
