"""C09 -- sparse arrays behave like dense ones (structural clauses)."""
from __future__ import annotations
import ast, re
from ..frontend import AnalysisError, src, walk_no_nested
from ..symx import run_paths
from ..lin import Form
from ..cfg import CFG, header_exprs
from ..nz import NZAnalysis, NZ, NZS, MZ

MANIFEST = {
    'technique': 'non-zero dataflow (D-nz) over the CFG of every sparse kernel including the 115 template-generated methods; dominator rule for the read-only gate; '
            'alias/purity analysis of binary kernels; exhaustiveness of the dispatcher name space; size-dispatch totality; range-check rule for storage keys taken '
            'from the caller',
    'text': 'Decides for every input: every store into a dict that is or becomes sparse storage stores a provably non-zero value (sums are re-tested, loop values '
            'come from sparse dicts); products/quotients are enumerated as non-zero up to IEEE underflow; the public mutators of SparseVector reach no write '
            'without passing the read_only test; binary kernels never write an operand and return a vector whose dict is fresh; every kernel name a dispatcher '
            "template can form resolves to a definition; every size dispatch ends in raise ValueError. Item assignment must compare the caller's index with the "
            'size before using it as a storage key (two known findings: it does not). No in-place kernel may store into the size of its target (NumPy never resizes the output operand; 20 kernels do, a known finding pinned by a test). Equality with NumPy results for all values is not decided.',
}

SP = 'thermosteam/base/sparse.py'
IX = 'thermosteam/indexer.py'
# frozen, one site each, with the reason the stored value cannot be zero although D-nz cannot see it
NZ_EXCEPTIONS = {
    # (function, regex on the stored expression)
    ('sum_sparse_vectors', r'^sum\(\[1\.0 for (\w+) in \w+ if \w+ in \1\]\)$'):
        'the key ranges over the union of the sets, so at least one set contains it and the count is >= 1',
}


def inplace_keeps_size(ctx, d7, classes):
    """NumPy rejects  a op= b  when the broadcast result is larger than a (the output operand is never resized): a length-1
    TARGET is not broadcast, only a length-1 operand is.  So no in-place kernel (_i<op>_sparse/_array/_scalar, hand-written or
    generated) may store into self.size; with such a store the size dispatch accepts a shape mismatch and grows the target."""
    n = 0
    for c in classes:
        for name, f in sorted(c.methods.items()):
            if f.cls is not c or not re.match(r'^_i[a-z]+_(sparse|scalar|array)$', name):
                continue
            n += 1
            selfn = f.params[0] if f.params else 'self'
            hits = [x for x in walk_no_nested(f.node) if isinstance(x, ast.Attribute) and isinstance(x.ctx, ast.Store) and x.attr in ('size', '_size', 'shape')
                    and isinstance(x.value, ast.Name) and x.value.id == selfn]
            cons = '%s.%s' % (c.name, name)
            if hits:
                st = hits[0]
                while getattr(st, '_parent', None) is not None and not isinstance(st, ast.stmt):
                    st = st._parent
                d7.fail(cons, 'resizes-target', 'the in-place kernel re-sizes its target (%s): a length-1 target combined with a longer operand grows instead of being '
                        'rejected as a shape mismatch' % src(st), f, st)
            else:
                d7.ok(cons, 'no store into the size of the target', f)
    return n


def nz_exception(qual, expr):
    for (fn, rx), why in NZ_EXCEPTIONS.items():
        if fn == qual and re.match(rx, expr):
            return why
    return None
OPS = ('add', 'sub', 'mul', 'truediv')
KINDS = ('scalar', 'sparse', 'array')


def run(ctx):
    prog = ctx.prog
    ctx.decided = [
        'D1 no stored zero: every store into sparse storage is NZ (NZ* = product/quotient, enumerated)',
        'D2 read-only gate dominates every write in the public mutators of SparseVector',
        'D3 binary kernels do not write operands and return fresh storage; in-place kernels write only self',
        'D4 every kernel name formed by the dispatcher templates resolves to a definition',
        'D5 every size dispatch of a _sparse/_array kernel ends in raise ValueError',
        'D7 no in-place kernel stores into the size of its target (NumPy never resizes the output operand of an in-place operation; a length-1 target is not '
        'broadcast against a longer operand, it is a shape mismatch)',
    ]
    ctx.not_decided = ['equality of results with NumPy for all operand values', 'index-in-range', 'broadcasting results']
    d1 = ctx.rule('D1', 'no stored zero (D-nz)', floor=150)
    d2 = ctx.rule('D2', 'read-only gate', floor=6)
    d3 = ctx.rule('D3', 'operand purity / fresh result of kernels', floor=24, observational=True)
    d4 = ctx.rule('D4', 'dispatcher exhaustiveness', floor=100)
    d5 = ctx.rule('D5', 'size dispatch ends in ValueError', floor=20)
    m = prog.module(SP)
    classes = [prog.cls(n, SP) for n in ('SparseVector', 'SparseLogicalVector', 'SparseArray')]
    ctx.anchor(prog.n_generated >= 100, 'template expansion produced only %d methods' % prog.n_generated)

    # ---------------- D1
    fns = []
    for c in classes:
        seen = set()
        for f in list(c.methods.values()) + list(c.setters.values()):
            if f.cls is c and id(f) not in seen:
                seen.add(id(f))
                fns.append(f)
    fns += list(m.functions.values())
    ix = prog.module(IX)
    for f in prog.all_functions():
        if f.module is ix and any(isinstance(n, ast.Attribute) and n.attr == 'dct' for n in walk_no_nested(f.node)):
            fns.append(f)
    logical = prog.cls('SparseLogicalVector', SP)
    for f in fns:
        if f.cls is logical:
            continue        # its dct is a set of indices, not value storage
        if f.qualname in prog.absorbed:
            continue        # normal form: analysed inside each of its callers (sites keep the helper's name)
        an = NZAnalysis(f.node)
        try:
            sites = an.run()
        except RecursionError:
            d1.skip(f.qualname, 'analysis recursion limit', f)
            continue
        nzs = {}
        for s in sites:
            q = getattr(s.stmt, '_origin', None) or getattr(s.node, '_origin', None) or f.qualname
            if s.grade == NZ:
                d1.ok(q, 'NZ: ' + s.what, f, s.stmt)
            elif s.grade == NZS:
                nzs.setdefault(q, []).append(s)
            elif nz_exception(q, s.expr):
                d1.ok(q, 'frozen exception: %s -- %s' % (s.expr, nz_exception(q, s.expr)), f, s.stmt)
            else:
                d1.fail(q, 'maybe-zero', 'a possibly-zero value is stored into sparse storage: %s' % s.what, f, s.stmt)
        for q, lst in nzs.items():
            d1.fail(q, 'nzstar', 'product/quotient stored without a zero test (%d site(s), e.g. %s): an IEEE underflow stores 0.0'
                    % (len(lst), lst[0].what), f, lst[0].stmt)

    # ---------------- D2
    sv = prog.cls('SparseVector', SP)
    for name in ('__setitem__', 'clear', '__iadd__', '__isub__', '__imul__', '__itruediv__'):
        f = sv.methods.get(name)
        if f is None:
            raise AnalysisError('SparseVector.%s missing' % name)
        cfg = CFG(f.node)
        dom = cfg.dominators()
        gate = None
        for nd in cfg.nodes:
            if nd.kind == 'test' and isinstance(nd.ast, ast.If) and src(nd.ast.test) == 'self.read_only' \
                    and nd.ast.body and isinstance(nd.ast.body[0], ast.Raise):
                gate = nd
        writes = []
        for nd in cfg.nodes:
            for h in header_exprs(nd):
                if nd.kind not in ('stmt', 'return', 'for', 'test'):
                    continue
                if nd.kind == 'test' and nd is gate:
                    continue
                for x in ast.walk(h) if not isinstance(h, (ast.If, ast.For, ast.While)) else []:
                    if isinstance(x, ast.Subscript) and isinstance(x.ctx, (ast.Store, ast.Del)) and 'dct' in src(x.value):
                        writes.append(nd)
                    if isinstance(x, ast.Call) and isinstance(x.func, ast.Attribute):
                        if re.match(r'^_i\w+_(sparse|scalar|array)$', x.func.attr) and src(x.func.value) == 'self':
                            writes.append(nd)
                        if x.func.attr in ('clear', 'update', 'pop') and 'dct' in src(x.func.value):
                            writes.append(nd)
        cons = 'SparseVector.' + name
        if gate is None:
            d2.fail(cons, 'no-gate', 'mutator has no "if self.read_only: raise" gate', f, f.node)
        elif not writes:
            d2.fail(cons, 'no-writes', 'no write sites recognised (anchor changed?)', f, f.node)
        else:
            bad = [w for w in writes if gate.id not in dom[w.id]]
            if bad:
                d2.fail(cons, 'write-before-gate', 'a write to the storage is reachable without passing the read_only test', f, bad[0].ast)
            else:
                d2.ok(cons, 'read_only test dominates all %d write sites' % len(writes), f)

    # ---------------- D3
    for op in OPS:
        for k in KINDS:
            for inplace in (False, True):
                name = '_%s%s_%s' % ('i' if inplace else '', op, k)
                f = sv.methods.get(name)
                if f is None:
                    d3.fail('SparseVector.' + name, 'missing', 'kernel missing', None, None)
                    continue
                purity(ctx, d3, f, inplace)

    # ---------------- D3b: no value-returning function builds its result on the storage of an existing vector
    d6 = ctx.rule('D6', 'keys written by item assignment are range-checked against the size', floor=2)
    index_range(ctx, d6)
    d7 = ctx.rule('D7', 'an in-place kernel never changes the size of its target', floor=30)
    inplace_keeps_size(ctx, d7, classes)
    d3b = ctx.rule('D3b', 'results are never built on an operand\'s storage (from_dict / returned dicts)', floor=60, observational=True)
    allf = []
    for c in classes:
        seen = set()
        for f in list(c.methods.values()):
            if f.cls is c and id(f) not in seen:
                seen.add(id(f))
                allf.append(f)
    allf += list(m.functions.values())
    for f in allf:
        nm = f.name
        if nm.startswith('_i') or nm.startswith('__i') and nm not in ('__iter__', '__init__', '__invert__', '__index__') or nm in (
                'from_dict', 'from_set', 'dct', 'set', '__init__', 'from_rows', 'sparse_vector', 'sparse_array', 'sparse'):
            continue
        if not any(isinstance(n, ast.Call) and isinstance(n.func, ast.Attribute) and n.func.attr in ('from_dict', 'from_set') for n in walk_no_nested(f.node)) \
                and f.cls is not None:
            continue
        try:
            ps, trunc = run_paths(f.node, max_paths=3000, follow_except=False)
        except RecursionError:
            d3b.skip(f.qualname, 'recursion limit', f)
            continue
        bad = None
        for p in ps:
            if p.raised:
                continue
            for e in p.events:
                if e.kind == 'call' and e.target.split('.')[-1] in ('from_dict', 'from_set') and e.value:
                    a = e.value[0].pretty()
                    if re.search(r'\.(dct|set)$', a) and not a.endswith('.copy()'):
                        bad = (e.stmt, 'the result is built on %s, the storage of an existing vector' % a)
            if f.cls is None and p.ret is not None and re.search(r'\.(dct|set)$', p.ret.pretty()):
                bad = (p.ret_node, 'returns %s, the storage of an existing vector, as the storage of a new one' % p.ret.pretty())
        if bad:
            d3b.fail(f.qualname, 'result-aliases-operand', bad[1] + ': writing the result writes the operand', f, bad[0])
        else:
            d3b.ok(f.qualname, 'every result is built on fresh storage (%d paths)' % len(ps), f)

    # ---------------- D4
    pat = re.compile(r'^_i?(add|sub|mul|truediv|and|xor|or|eq|ne|gt|lt|ge|le)_[a-z]+$')
    for c in classes:
        for name in c.generated:
            f = c.methods.get(name)
            if f is None or not name.startswith('__'):
                continue
            for n in walk_no_nested(f.node):
                if isinstance(n, ast.Call) and isinstance(n.func, ast.Attribute) and pat.match(n.func.attr):
                    recv = src(n.func.value)
                    if recv == 'self' or c.name != 'SparseArray':
                        targets = [c]
                    else:
                        targets = [prog.cls('SparseVector', SP)]
                    for t in targets:
                        if prog.find_method(t, n.func.attr) is not None:
                            d4.ok('%s.%s' % (c.name, name), '%s.%s resolves in %s' % (recv, n.func.attr, t.name), f, n)
                        else:
                            d4.fail('%s.%s' % (c.name, name), 'unresolved-' + n.func.attr,
                                    'dispatcher calls %s.%s which %s does not define' % (recv, n.func.attr, t.name), f, n)

    # ---------------- D5
    for c in classes[:2]:
        for name, f in sorted(c.methods.items()):
            if f.cls is not c or not re.match(r'^_i?\w+_(sparse|array)$', name):
                continue
            chain = None
            for st in f.node.body:
                if isinstance(st, ast.If) and ('other_size' in src(st.test) or 'size ==' in src(st.test)):
                    chain = st
            if chain is None:
                continue
            last = chain
            while len(last.orelse) == 1 and isinstance(last.orelse[0], ast.If):
                last = last.orelse[0]
            cons = '%s.%s' % (c.name, name)
            if last.orelse and isinstance(last.orelse[0], ast.Raise) and 'ValueError' in src(last.orelse[0]):
                d5.ok(cons, 'size dispatch ends in raise ValueError', f, last.orelse[0])
            else:
                d5.fail(cons, 'no-shape-error', 'size dispatch has no final "raise ValueError" branch (mismatching shapes fall through)', f, chain)


def purity(ctx, d3, f, inplace):
    ps, trunc = run_paths(f.node, max_paths=4000, follow_except=False)
    cons = 'SparseVector.' + f.name
    other = f.params[1]
    bad = False
    for p in ps:
        if p.raised:
            continue
        for e in p.events:
            if e.kind in ('store', 'augstore', 'delete'):
                t = e.target
                if t.startswith('%s.dct[' % other) or (not inplace and t.startswith('self.dct[')):
                    d3.fail(cons, 'writes-operand', 'kernel writes %s (an operand\'s storage)' % t, f, e.stmt)
                    bad = True
            if e.kind == 'call':
                parts = e.target.rsplit('.', 1)
                if len(parts) == 2 and parts[1] in ('clear', 'update', 'pop', 'popitem', 'setdefault'):
                    if parts[0] == '%s.dct' % other or (not inplace and parts[0] == 'self.dct'):
                        d3.fail(cons, 'writes-operand', 'kernel mutates %s through %s()' % (parts[0], parts[1]), f, e.stmt)
                        bad = True
                if not inplace and parts[-1] == 'from_dict' and e.value:
                    a = e.value[0].pretty()
                    if a in ('self.dct', '%s.dct' % other):
                        d3.fail(cons, 'result-aliases-operand', 'the result is built on %s itself: writing the result writes the operand' % a, f, e.stmt)
                        bad = True
        if not inplace and p.ret is not None and p.ret.pretty() in ('self', other):
            d3.fail(cons, 'returns-operand', 'binary kernel returns an operand', f, p.ret_node)
            bad = True
        if inplace and p.ret is not None and p.ret.pretty() != 'self':
            d3.fail(cons, 'returns-other', 'in-place kernel does not return self', f, p.ret_node)
            bad = True
    if not bad:
        d3.ok(cons, ('writes only self, returns self' if inplace else 'writes no operand, result storage is fresh') + ' (%d paths)' % len(ps), f)


def index_range(ctx, rule):
    """"... with indices inside the array's size."  Item assignment stores the caller's index (an int, the elements of a list, the
    positions of a mask, the range of a slice) as dictionary keys.  Unless the index is normalised (negative -> size + index) and
    compared with the size, sv[-1] = x creates a second entry for the last position and sv[size + k] = x an entry outside the array."""
    prog = ctx.prog
    for cname in ('SparseVector', 'SparseLogicalVector'):
        c = prog.cls(cname, SP)
        f = c.methods.get('__setitem__')
        if f is None:
            raise AnalysisError('%s.__setitem__ not found' % cname)
        ip = f.params[1]
        # names derived from the index parameter
        derived = {ip}
        changed = True
        while changed:
            changed = False
            for n in walk_no_nested(f.node):
                tg = None
                if isinstance(n, ast.Assign) and any(isinstance(x, ast.Name) and x.id in derived for x in ast.walk(n.value)):
                    tg = n.targets
                elif isinstance(n, ast.For) and any(isinstance(x, ast.Name) and x.id in derived for x in ast.walk(n.iter)):
                    tg = [n.target]
                for t in tg or []:
                    for x in ast.walk(t):
                        if isinstance(x, ast.Name) and isinstance(x.ctx, ast.Store) and x.id not in derived:
                            derived.add(x.id)
                            changed = True
        keyed = [n for n in walk_no_nested(f.node)
                 if (isinstance(n, ast.Subscript) and isinstance(n.ctx, ast.Store) and isinstance(n.slice, ast.Name) and n.slice.id in derived)
                 or (isinstance(n, ast.Call) and isinstance(n.func, ast.Attribute) and n.func.attr in ('add',) and n.args and isinstance(n.args[0], ast.Name) and n.args[0].id in derived)]
        if not keyed:
            raise AnalysisError('%s.__setitem__: no store keyed by the index found' % cname)
        checks = [n for n in walk_no_nested(f.node) if isinstance(n, ast.Compare)
                  and any(isinstance(x, ast.Name) and x.id in derived for x in ast.walk(n))
                  and any((isinstance(x, ast.Attribute) and x.attr == 'size') or (isinstance(x, ast.Constant) and x.value == 0 and isinstance(n.ops[0], (ast.Lt, ast.GtE))) for x in ast.walk(n))]
        if checks:
            rule.ok('%s.__setitem__' % cname, '%d stores keyed by the caller\'s index; the index is compared with the size / zero first' % len(keyed), f, checks[0])
        else:
            rule.fail('%s.__setitem__' % cname, 'index-not-range-checked', '%d stores use the caller\'s index as a storage key and nothing compares it with the size: a negative '
                      'index creates a second entry for the position it denotes and an index >= size an entry outside the array' % len(keyed), f, keyed[0])
