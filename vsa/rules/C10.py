"""C10 -- name-keyed access is history independent (structural clauses on the bounded caches)."""
from __future__ import annotations
import ast, re
from ..frontend import AnalysisError, src, walk_no_nested
from ..symx import run_paths
from ..pathcond import implied
from ..lin import Form
from ..cfg import CFG

MANIFEST = {
    'technique': 'well-formedness rules for the three eviction statements (iterable typing, no mutation under a live dict iterator, store-before-evict), memo==result on '
            'miss and hit paths, writer/reader schema agreement for the (index, kind) cache entries, no-mutation rule for handed-out index lists, who-may-write the '
            'name table; key-determines-fill rule for the registry of shared lookup dicts; order-signature rule for the parallel per-name tables of define_group; '
            'memo invalidation after a redefinition',
    'text': 'Decides for every lookup history: the eviction code of the three bounded lookup caches can only delete keys, terminates and cannot raise (iterates an '
            'iterable, never advances a dict iterator after deleting from the dict), runs after the new entry is stored; what a miss stores is what it returns and '
            'what a later hit returns; every writer of an (index, kind) entry uses kind 0 only for an integer index; no caller mutates an index list handed out by '
            'the lookup functions; the name table is written only by compile / set_alias (guarded) / define_group; the registry key of the shared per-indexer '
            'lookup dict contains, for every self.F.p its fillers read, self.F itself or a prefix of that path (a projection such as the ID tuple lets packages '
            "with different groups share one dict), and the dict is re-selected after F changes. In define_group every per-name table reaches the caller's IDs / "
            "composition through the same order-changing operations, and after the name table is written the chemicals' lookup memo and the multi-phase indexers' "
            'memos are cleared on every path. For multi-phase indexers the writer of the (index, kind) entries and the readers agree: kind None exactly when the '
            "index is one row position or None (the chemicals' lookup returns kind None for the ellipsis, so [phase, ...] must not be paired). That each alias "
            'resolves to one position at run time is not decided.',
}

CH = 'thermosteam/_chemicals.py'
IX = 'thermosteam/indexer.py'
UC = 'thermosteam/utils/cache.py'
LOOKUPS = {'_get_index_and_kind', '_get_index_data', 'index_overlap', 'get_index', 'indices', 'index', 'get_vle_indices', 'get_lle_indices'}
MUT = {'append', 'extend', 'insert', 'pop', 'remove', 'clear', 'sort', 'reverse'}


def run(ctx):
    prog = ctx.prog
    ctx.decided = [
        'D1 eviction statements are well-formed (iterable loop, no mutation under a live iterator, evict after store, only deletions)',
        'D2 memo == result on miss and hit paths of the memoising lookups',
        'D3 writers of (index, kind) cache entries agree with the reader on the meaning of kind',
        'D4 no caller mutates an index list handed out by the lookup functions',
 'D7 in define_group every per-name table (member positions, weight and molar compositions, member objects) is derived from the given IDs / composition '
        'without an order-changing operation, so position k names the same chemical in all of them',
        'D5 the name table _index is written only by _compile, set_alias (guarded) and define_group',
    ]
    ctx.not_decided = ['that every alias resolves to a single position at run time', 'group arithmetic']
    d1 = ctx.rule('D1', 'eviction well-formed', floor=3)
    d2 = ctx.rule('D2', 'memo equals result', floor=3)
    d3 = ctx.rule('D3', 'kind schema of cache entries', floor=3)
    d4 = ctx.rule('D4', 'handed-out indices are not mutated', floor=20)
    d5 = ctx.rule('D5', 'who may write the name table', floor=2)
    evictors = [prog.method('CompiledChemicals', '_get_index_and_kind', rel=CH), prog.func(IX, 'index_overlap'), prog.func(UC, 'trim_cache')]
    for f in evictors:
        eviction(ctx, d1, f)
    # trim_cache callers: store before evict
    g = prog.method('MaterialIndexer', '_get_index_data', rel=IX)
    cfg = CFG(g.node)
    calls = [n for n in walk_no_nested(g.node) if isinstance(n, ast.Call) and src(n.func).endswith('trim_cache')]
    ctx.anchor(calls, '_get_index_data no longer trims its cache')
    for c in calls:
        st = c
        while not isinstance(st, ast.stmt):
            st = st._parent
        blk = st._parent.body if st in getattr(st._parent, 'body', []) else getattr(st._parent, 'orelse', [])
        i = blk.index(st)
        prev = blk[i - 1] if i > 0 else None
        if isinstance(prev, ast.Assign) and any(isinstance(t, ast.Subscript) and src(t.value) == src(c.args[0]) for t in prev.targets):
            d1.ok('MaterialIndexer._get_index_data', 'cache is trimmed right after the new entry is stored', g, st)
        else:
            d1.fail('MaterialIndexer._get_index_data', 'evict-before-store', 'trim_cache is not called right after the new entry is stored', g, st)
    memo(ctx, d2)
    schema(ctx, d3)
    material_schema(ctx, d3)
    handed_out(ctx, d4)
    name_table(ctx, d5)
    d7 = ctx.rule('D7', 'parallel per-name tables (members, compositions) are derived from their inputs without re-ordering', floor=1)
    parallel_tables(ctx, d7)
    d6 = ctx.rule('D6', 'the per-(phases, chemicals) index cache is refreshed after its inputs change', floor=3)
    from ..generic import index_cache_follows_inputs
    index_cache_follows_inputs(prog, d6)


def eviction(ctx, d1, f):
    cons = f.qualname
    # the guarded eviction block: `if len(C) > N:` / `if C.__len__() > N:`
    # (or, with the test the other way round: `if len(C) <= N: return` followed by the eviction / its else branch)
    blocks = []
    for n in walk_no_nested(f.node):
        if isinstance(n, ast.If) and isinstance(n.test, ast.Compare) and len(n.test.ops) == 1 \
                and ('len(' in src(n.test.left) or '__len__' in src(n.test.left)):
            if isinstance(n.test.ops[0], (ast.Gt, ast.GtE)):
                blocks.append(n)
            elif isinstance(n.test.ops[0], (ast.Lt, ast.LtE)):
                from ..normalize import falls_through
                region = list(n.orelse)
                if not falls_through(n.body):
                    par_ = getattr(n, '_parent', None)
                    for fld in ('body', 'orelse', 'finalbody'):
                        blk_ = getattr(par_, fld, None)
                        if isinstance(blk_, list) and any(x is n for x in blk_):
                            region += blk_[[x is n for x in blk_].index(True) + 1:]
                if region:
                    syn = ast.If(test=n.test, body=region, orelse=[])
                    ast.copy_location(syn, n)
                    syn._parent = getattr(n, '_parent', None)
                    blocks.append(syn)
    if not blocks:
        raise AnalysisError('%s: eviction block not found' % cons)
    for b in blocks:
        m = re.match(r'^(?:len\((.+)\)|(.+)\.__len__\(\))$', src(b.test.left))
        C = m.group(1) or m.group(2)
        bad = False
        iters = {}
        for n in ast.walk(b):
            if isinstance(n, ast.Assign) and isinstance(n.value, ast.Call) and src(n.value.func) in ('%s.__iter__' % C, 'iter'):
                for t in n.targets:
                    if isinstance(t, ast.Name):
                        iters[t.id] = C
        for n in ast.walk(b):
            if isinstance(n, ast.For):
                it = n.iter
                if isinstance(it, ast.Constant) and not isinstance(it.value, (str, bytes)):
                    d1.fail(cons, 'loop-over-noniterable', 'eviction loop iterates over the constant %r, which is not iterable (TypeError when the cache is full)' % it.value, f, n)
                    bad = True
                # advancing a dict iterator after deleting from the dict
                advances = [x for x in ast.walk(n) if isinstance(x, ast.Call) and (
                    (isinstance(x.func, ast.Attribute) and x.func.attr == '__next__' and src(x.func.value) in iters)
                    or (src(x.func) == 'next' and x.args and src(x.args[0]) in iters))]
                dels = [x for x in ast.walk(n) if (isinstance(x, ast.Delete) and any(src(t).startswith(C + '[') for t in x.targets))
                        or (isinstance(x, ast.Call) and src(x.func) == C + '.pop')]
                if advances and dels:
                    d1.fail(cons, 'mutation-under-iterator', 'the loop deletes from %s and then advances an iterator created over it '
                            '(RuntimeError: dictionary changed size during iteration)' % C, f, n)
                    bad = True
                if (isinstance(it, ast.Name) and it.id == C or src(it) in (C, C + '.keys()', C + '.items()')) and dels:
                    d1.fail(cons, 'mutation-under-iterator', 'the loop deletes from %s while iterating over it directly' % C, f, n)
                    bad = True
            if isinstance(n, ast.While):
                d1.fail(cons, 'unbounded-loop', 'eviction uses a while loop (termination not evident)', f, n)
                bad = True
        # only deletions of keys taken from the cache itself
        for st in b.body:
            for n in ast.walk(st):
                if isinstance(n, ast.Subscript) and isinstance(n.ctx, ast.Store) and src(n.value) == C:
                    d1.fail(cons, 'store-in-eviction', 'eviction block writes an entry', f, n)
                    bad = True
        # eviction after the store of the new entry (same block, earlier statement)
        par = b._parent
        body = getattr(par, 'body', [])
        for fld in ('body', 'orelse', 'handlers', 'finalbody'):
            if b in getattr(par, fld, []):
                body = getattr(par, fld)
        idx = body.index(b) if b in body else -1
        stores_before = [s for s in body[:idx] if isinstance(s, ast.Assign) and any(
            isinstance(t, ast.Subscript) and src(t.value) == C for t in s.targets)]
        # (evicting before or after the insertion are both fine: not a necessary condition, not checked)
        # the eviction must not re-bind the names that form the new entry (key / value) before it is stored
        clobber = set()
        for x in ast.walk(b):
            if isinstance(x, ast.Name) and isinstance(x.ctx, ast.Store):
                clobber.add(x.id)
        later = body[idx + 1:] if idx >= 0 else []
        used_later = set()
        for s_ in later:
            if isinstance(s_, ast.Assign) and any(isinstance(t, ast.Subscript) and src(t.value) == C for t in s_.targets):
                for x in ast.walk(s_):
                    if isinstance(x, ast.Name) and isinstance(x.ctx, ast.Load):
                        used_later.add(x.id)
        hit = sorted(clobber & used_later)
        if hit:
            d1.fail(cons, 'eviction-clobbers-%s' % hit[0], 'the eviction re-binds %r, which is then used to store the new entry: the entry lands under the wrong key' % hit[0], f, b)
            bad = True
        if not bad:
            d1.ok(cons, 'eviction of %s: deletes keys only, loops (if any) over an iterable without a live iterator, leaves the key and value of the new entry untouched' % C, f, b)


def memo(ctx, d2):
    prog = ctx.prog
    f = prog.method('CompiledChemicals', '_get_index_and_kind', rel=CH)
    ps, _ = run_paths(f.node, follow_except=True, max_paths=4000)
    okk = True
    n_miss = 0
    hit = False
    for p in ps:
        if p.raised:
            continue
        st = [e for e in p.events if e.kind == 'store' and e.target.startswith('self._index_cache[')]
        if st:
            n_miss += 1
            tup = st[-1].extra
            ret = p.tup.get('<ret>')
            if not tup or not ret or [t.key() for t in tup] != [r.key() for r in ret]:
                okk = False
        elif p.ret is not None and p.ret.pretty().startswith('self._index_cache['):
            hit = True
    if okk and n_miss and hit:
        d2.ok('CompiledChemicals._get_index_and_kind', 'the tuple stored on a miss is the tuple returned (%d miss paths); a hit returns the stored entry' % n_miss, f)
    else:
        d2.fail('CompiledChemicals._get_index_and_kind', 'memo-differs', 'stored entry and returned value differ on a miss path, or no hit path returns the entry', f, f.node)
    g = prog.method('MaterialIndexer', '_get_index_data', rel=IX)
    gps, _ = run_paths(prog.normal_form(g), follow_except=True, max_paths=4000)
    okk = True
    n = 0
    hits = 0
    for p in gps:
        if p.raised:
            continue
        st = [e for e in p.events if e.kind == 'store' and e.target.startswith('self._index_cache[')]
        if st:
            n += 1
            if p.ret is None or p.ret.pretty() != st[-1].value.pretty():
                okk = False
        elif p.ret is not None and p.ret.pretty().startswith('self._index_cache['):
            hits += 1
        else:
            okk = False        # a normal return that is neither the stored entry nor a freshly stored one
    okk = okk and n >= 2
    if okk and hits:
        d2.ok('MaterialIndexer._get_index_data', 'the entry stored on each of the %d miss paths is the value returned; the %d hit paths return the stored entry' % (n, hits), g)
    else:
        d2.fail('MaterialIndexer._get_index_data', 'memo-differs', 'the value stored in the cache is not the value returned', g, g.node)
    h = prog.func(IX, 'index_overlap')
    ps, _ = run_paths(h.node)
    okk = True
    seen_hit = seen_miss = False
    for p in ps:
        if p.raised or p.ret_node is None:
            continue
        ret = p.tup.get('<ret>')
        st = [e for e in p.events if e.kind == 'store' and '_index_cache[' in e.target]
        if st:
            seen_miss = True
            tup = st[-1].extra
            if not (tup and ret and tup[0].key() == ret[0].key()):
                okk = False
        else:
            seen_hit = True
            if not (ret and '_index_cache[' in ret[0].pretty()):
                okk = False
    if okk and seen_hit and seen_miss:
        d2.ok('index_overlap', 'the left index stored on a miss is the one returned; a hit returns the stored left index', h)
    else:
        d2.fail('index_overlap', 'memo-differs', 'stored and returned left index differ', h, h.node)


def _is_list_expr(e, env):
    if isinstance(e, (ast.List, ast.ListComp)):
        return True
    if isinstance(e, ast.BinOp) and isinstance(e.op, ast.Mult) and (isinstance(e.left, ast.List) or isinstance(e.right, ast.List)):
        return True
    if isinstance(e, ast.Call) and isinstance(e.func, ast.Attribute) and e.func.attr in ('indices', 'get_index') :
        return e.func.attr == 'indices'
    if isinstance(e, ast.Name) and e.id in env:
        return any(_is_list_expr(v, {}) for v in env[e.id])
    return False


def _kind_justified_on_paths(f, idx, kind, isa_names, kind_ok):
    """the same derivation written with statements: on every path that stores an entry the constant kind agrees with the type
    tests taken on that path (0 <=> isinstance(index, int); 2 <=> some element of the index is a list; 3 otherwise)"""
    from ..pathcond import implied
    ps, trunc = run_paths(f.node, follow_except=True, max_paths=4000)
    if trunc:
        return False
    n = 0
    for p in ps:
        if p.raised:
            continue
        defs = {}
        for e in p.events:
            if e.kind == 'assign' and isinstance(e.stmt, ast.Assign):
                defs[e.target] = (e.stmt.value, e.value)
        stores = [e for e in p.events if e.kind == 'store' and isinstance(e.stmt, ast.Assign) and isinstance(e.stmt.value, ast.Tuple)
                  and len(e.stmt.value.elts) == 2 and src(e.stmt.value.elts[1]) == src(kind)]
        for e in stores:
            n += 1
            kexpr, kform = defs.get(src(kind), (None, None))
            if kexpr is None:
                return False
            if not isinstance(kexpr, ast.Constant):
                # chained `kind = index = None` etc. are constants too; anything else must be one of the accepted expressions
                from ..resolve import resolved as _res, path_defs as _pd
                kres = _res(kexpr, {k_: v_ for k_, v_ in _pd(p, e).items() if k_ not in isa_names and k_ != src(idx)}, keep=set(f.params))
                if not (kind_ok(kexpr) or kind_ok(kres)):
                    return False
                continue
            k = kexpr.value
            from ..pathcond import resolved_conds
            rc_ = resolved_conds(p, keep=set(f.params) | {src(idx)} | isa_names)
            is_int = implied(rc_, lambda t: isinstance(t, ast.Call) and src(t.func) in isa_names and len(t.args) == 2
                             and src(t.args[1]) == 'int' and src(t.args[0]) == src(idx))
            loops = [l.stmt for l in p.events if l.kind == 'loop' and isinstance(l.stmt, ast.For) and src(l.stmt.iter) == src(idx)
                     and isinstance(l.stmt.target, ast.Name)]
            has_list = None
            for lp in loops:
                v = implied(p.conds, lambda t: isinstance(t, ast.Call) and src(t.func) in isa_names and len(t.args) == 2
                            and src(t.args[1]) == 'list' and src(t.args[0]) == lp.target.id)
                if v is not None:
                    has_list = v
            def any_list(t):
                if not (isinstance(t, ast.Call) and src(t.func) == 'any' and len(t.args) == 1 and isinstance(t.args[0], (ast.ListComp, ast.GeneratorExp))):
                    return False
                comp = t.args[0]
                g0, e_ = comp.generators[0], comp.elt
                return src(g0.iter) == src(idx) and not g0.ifs and isinstance(e_, ast.Call) and src(e_.func) in isa_names \
                    and len(e_.args) == 2 and src(e_.args[0]) == src(g0.target) and src(e_.args[1]) == 'list'
            v_any = implied(rc_, any_list)
            if v_any is not None:
                has_list = v_any
                if k == 3 and v_any is False:
                    continue
            if k is None:
                continue
            if k == 0 and is_int is True:
                continue
            if k == 1 and is_int is False:
                continue
            if k == 2 and has_list is True:
                continue
            if k == 3 and loops and has_list is not True:
                continue
            return False
    return n > 0


def schema(ctx, d3):
    prog = ctx.prog
    n = 0
    for f in prog.all_functions():
        if f.module.rel not in (CH, IX):
            continue
        env = {}
        aliases = set()
        for node in walk_no_nested(f.node):
            if isinstance(node, ast.Assign) and len(node.targets) == 1 and isinstance(node.targets[0], ast.Name):
                env.setdefault(node.targets[0].id, []).append(node.value)
                if src(node.value).endswith('._index_cache'):
                    aliases.add(node.targets[0].id)
        for node in walk_no_nested(f.node):
            if not isinstance(node, ast.Assign):
                continue
            for t in node.targets:
                if isinstance(t, ast.Subscript) and (src(t.value).endswith('._index_cache') or src(t.value) in aliases):
                    v = node.value
                    if f.cls is not None and f.cls.name == 'MaterialIndexer':
                        continue      # (index, kind, sum_across_phases) entries of the per-phase cache: produced by the readers below
                    if not (isinstance(v, ast.Tuple) and len(v.elts) == 2):
                        d3.fail(f.qualname, 'entry-shape', 'cache entry %s is not an (index, kind) pair' % src(v), f, node)
                        continue
                    n += 1
                    idx, kind = v.elts
                    kc = kind.value if isinstance(kind, ast.Constant) else None
                    if kc is None and isinstance(kind, ast.Name):
                        vals = env.get(kind.id, [])
                        # kind computed as `0 if isinstance(<index>, int) else 1` or constants 2 / 3 / None
                        texts = {src(x) for x in vals}
                        isa_names = {'isinstance'} | {k_ for k_, v_ in env.items() if any(src(x) == 'isinstance' for x in v_)}

                        def kind_ok(x):
                            if isinstance(x, ast.Constant):
                                return x.value in (2, 3, None)
                            if isinstance(x, ast.IfExp) and isinstance(x.body, ast.Constant) and x.body.value == 0 \
                                    and isinstance(x.orelse, ast.Constant) and x.orelse.value == 1 and isinstance(x.test, ast.Call) \
                                    and src(x.test.func) in isa_names and len(x.test.args) == 2 and src(x.test.args[1]) == 'int' \
                                    and src(x.test.args[0]) == src(idx):
                                return True
                            # 2 if any(isinstance(i, list) for i in <index>) else 3   (nested group <=> some element is itself a list of positions)
                            if isinstance(x, ast.IfExp) and isinstance(x.body, ast.Constant) and x.body.value == 2 \
                                    and isinstance(x.orelse, ast.Constant) and x.orelse.value == 3 and isinstance(x.test, ast.Call) \
                                    and src(x.test.func) == 'any' and len(x.test.args) == 1 \
                                    and isinstance(x.test.args[0], (ast.ListComp, ast.GeneratorExp)):
                                comp = x.test.args[0]
                                g0 = comp.generators[0]
                                e_ = comp.elt
                                if src(g0.iter) == src(idx) and not g0.ifs and isinstance(e_, ast.Call) and src(e_.func) in isa_names \
                                        and len(e_.args) == 2 and src(e_.args[0]) == src(g0.target) and src(e_.args[1]) == 'list':
                                    return True
                            return False
                        good = bool(vals) and all(kind_ok(x) for x in vals)
                        if not good:
                            good = _kind_justified_on_paths(f, idx, kind, isa_names, kind_ok)
                        if good:
                            d3.ok(f.qualname, 'kind is computed from the type of the index (%s)' % sorted(texts), f, node)
                        else:
                            d3.fail(f.qualname, 'kind-derivation', 'kind is derived as %s' % sorted(texts), f, node)
                        continue
                    is_list = _is_list_expr(idx, env)
                    if kc == 0 and is_list:
                        d3.fail(f.qualname, 'list-index-kind-0', 'a list of positions is cached with kind 0 (the reader treats kind 0 as one integer position: dict.get(list) raises TypeError)',
                                f, node)
                    elif kc in (1, 2, 3) and not is_list:
                        d3.fail(f.qualname, 'scalar-index-kind-%s' % kc, 'a non-list index is cached with kind %s' % kc, f, node)
                    else:
                        d3.ok(f.qualname, 'entry (%s, %s) agrees with the reader (kind 0 <=> integer position)' % (src(idx), src(kind)), f, node)
    # the reader: kind 0 uses dct.get(index) ; kinds 1-3 iterate
    r = prog.func(IX, 'get_sparse_chemical_data')
    ip, kp = r.params[1], r.params[2]
    # decided on the paths of the normal form: the value returned where `kind == 0` holds is <dict>.get(index, ...), where `kind == 3`
    # holds it is built from one <dict>.get(i, ...) per element i of the index
    from ..resolve import resolved as _res2, path_defs as _pd2
    rps, _ = run_paths(prog.normal_form(r), follow_except=False, max_paths=2000)
    reader = {}
    for p in rps:
        if p.raised or p.ret_node is None or p.ret_node.value is None:
            continue
        for k_ in (0, 3):
            if implied(p.conds, lambda t, k_=k_: isinstance(t, ast.Compare) and len(t.ops) == 1 and isinstance(t.ops[0], ast.Eq) and src(t.left) == kp
                       and isinstance(t.comparators[0], ast.Constant) and t.comparators[0].value == k_ and not isinstance(t.comparators[0].value, bool)) is True:
                reader.setdefault(k_, []).append(_res2(p.ret_node.value, _pd2(p), keep=set(r.params)))
    r0s, r3s = reader.get(0, []), reader.get(3, [])
    ok0 = bool(r0s) and all(isinstance(r0, ast.Call) and isinstance(r0.func, ast.Attribute) and r0.func.attr == 'get' and r0.args and src(r0.args[0]) == ip for r0 in r0s)
    ok3 = bool(r3s)
    for r3 in r3s:
        comps = [x for x in ast.walk(r3) if isinstance(x, ast.ListComp)]
        ok3 = ok3 and bool(comps) and src(comps[0].generators[0].iter) == ip and isinstance(comps[0].elt, ast.Call) \
            and isinstance(comps[0].elt.func, ast.Attribute) and comps[0].elt.func.attr == 'get' \
            and src(comps[0].elt.args[0]) == src(comps[0].generators[0].target)
    if ok0 and ok3:
        d3.ok('get_sparse_chemical_data', 'reader: kind 0 -> dct.get(index); kind 3 -> one lookup per listed position', r)
    else:
        d3.fail('get_sparse_chemical_data', 'reader-changed', 'the reader no longer interprets kind 0 / 3 as (one position / list of positions)', r, r.node)


def material_schema(ctx, d3):
    """MaterialIndexer: the writer (_get_index_and_kind) hands (index, kind) to the readers (__getitem__, __setitem__).  The readers
    branch on `kind is None`: there `index` is one row position (or None = all rows); otherwise it is unpacked into (phase position,
    chemical index).  So on every writer path: kind None <=> index is not a pair.  The kind may come from the chemicals' own lookup,
    which returns None for the ellipsis: a writer path that pairs the phase with whatever kind comes back, untested, builds a pair with
    kind None for the documented key [phase, ...] and the readers subscript the row list with a tuple (TypeError)."""
    prog = ctx.prog
    mi = prog.cls('MaterialIndexer', IX)
    w = mi.methods.get('_get_index_and_kind')
    if w is None:
        raise AnalysisError('MaterialIndexer._get_index_and_kind not found')
    # readers: what they do with index under each outcome of `kind is None`
    from ..pathcond import implied2 as _imp2, resolved_conds as _rcs
    from ..resolve import resolved as _res, path_defs as _pd

    def none_test(name):
        return (lambda t: isinstance(t, ast.Compare) and len(t.ops) == 1 and isinstance(t.ops[0], ast.Is) and src(t.left) == name
                and isinstance(t.comparators[0], ast.Constant) and t.comparators[0].value is None,
                lambda t: isinstance(t, ast.Compare) and len(t.ops) == 1 and isinstance(t.ops[0], ast.IsNot) and src(t.left) == name
                and isinstance(t.comparators[0], ast.Constant) and t.comparators[0].value is None)
    expect = {}       # kind-is-None outcome -> {'pair', 'scalar'}
    for rname in ('__getitem__', '__setitem__'):
        r = mi.methods.get(rname)
        if r is None:
            raise AnalysisError('MaterialIndexer.%s not found' % rname)
        # the locals the reader unpacks the writer's result into: index, kind, ... = self._get_index_data(key)
        names = None
        for n in walk_no_nested(prog.normal_form(r)):
            if isinstance(n, ast.Assign) and isinstance(n.targets[0], ast.Tuple) and isinstance(n.value, ast.Call) \
                    and src(n.value.func) in ('self._get_index_data', 'self._get_index_and_kind') and len(n.targets[0].elts) >= 2 \
                    and all(isinstance(x, ast.Name) for x in n.targets[0].elts[:2]):
                names = (n.targets[0].elts[0].id, n.targets[0].elts[1].id)
                third = n.targets[0].elts[2].id if len(n.targets[0].elts) > 2 and isinstance(n.targets[0].elts[2], ast.Name) else None
        if names is None:
            raise AnalysisError('MaterialIndexer.%s: unpacking of the (index, kind) entry not found' % rname)
        iname, kname = names
        pos, neg = none_test(kname)
        ps, _ = run_paths(prog.normal_form(r), follow_except=False, max_paths=4000)
        for p in ps:
            if p.raised:
                continue
            kn = _imp2(p.conds, pos, neg)
            if kn is None:
                continue
            # entries of the chemicals' own lookup (summed across phases) are not this writer's: only the per-phase branch counts
            if third is not None and implied(p.conds, lambda t: isinstance(t, ast.Name) and t.id == third) is not False:
                continue
            unpacked = any(e.kind == 'assign' and isinstance(e.stmt, ast.Assign) and isinstance(e.stmt.targets[0], ast.Tuple)
                           and isinstance(e.stmt.value, ast.Name) and e.stmt.value.id == iname for e in p.events)
            scalar = any(isinstance(x, ast.Subscript) and isinstance(x.slice, ast.Name) and x.slice.id == iname
                         for e in p.events if isinstance(e.stmt, (ast.Assign, ast.AugAssign, ast.Expr, ast.Return)) for x in ast.walk(e.stmt)) or \
                any(src(t) in ('%s is None' % iname, '%s is not None' % iname) for t, _o in p.conds if not isinstance(t, str))
            if unpacked:
                expect.setdefault(kn, set()).add('pair')
            if scalar:
                expect.setdefault(kn, set()).add('scalar')
    if expect.get(True) != {'scalar'} or expect.get(False) != {'pair'}:
        d3.fail('MaterialIndexer.__getitem__', 'reader-changed', 'the readers no longer treat (kind None -> one row position / all rows) and (kind not None -> '
                '(phase position, chemical index)): found %s' % {k_: sorted(v_) for k_, v_ in expect.items()}, mi.methods['__getitem__'], mi.methods['__getitem__'].node)
        return
    d3.ok('MaterialIndexer.__getitem__', 'readers: kind None -> index is a row position or None; otherwise index is unpacked into (phase position, chemical index)',
          mi.methods['__getitem__'])
    # the chemicals' lookup may return kind None (the ellipsis)
    cc = prog.cls('CompiledChemicals', CH).methods.get('_get_index_and_kind')
    callee_may_none = cc is None or any(isinstance(n, ast.Assign) and isinstance(n.value, ast.Constant) and n.value.value is None
                                        and any('kind' == src(t) for t in n.targets) for n in walk_no_nested(cc.node))
    wn = prog.normal_form(w)
    ps, _ = run_paths(wn, follow_except=False, max_paths=4000)
    n_paths = 0
    bad = None
    for p in ps:
        if p.raised or p.ret_node is None or not isinstance(p.ret_node.value, ast.Tuple) or len(p.ret_node.value.elts) < 2:
            continue
        n_paths += 1
        defs = _pd(p)
        idx = _res(p.ret_node.value.elts[0], defs, keep=set(w.params))
        kind_e = p.ret_node.value.elts[1]
        kres = _res(kind_e, defs, keep=set(w.params))
        shape = 'pair' if isinstance(idx, ast.Tuple) and len(idx.elts) == 2 else 'scalar'
        if isinstance(kres, ast.Constant):
            kn = kres.value is None
        else:
            kname = src(kind_e)
            pos, neg = none_test(kname)
            kn = _imp2(p.conds, pos, neg)
            if kn is None:
                # the kind comes back from the chemicals' lookup, untested on this path
                from_lookup = any(isinstance(x, ast.Call) and src(x.func).endswith('._get_index_and_kind') for x in ast.walk(kres))
                kn = 'maybe' if (from_lookup and callee_may_none) else False
        if shape == 'pair' and kn in (True, 'maybe'):
            bad = (p, 'a (phase position, chemical index) pair is returned with a kind that %s None (the chemicals\' lookup returns kind None for the ellipsis): for the key '
                   '[phase, ...] the readers take the kind-None branch and subscript the row list with the pair (TypeError)' % ('is' if kn is True else 'may be'))
        elif shape == 'scalar' and kn is False:
            bad = (p, 'a single position is returned with a kind that is not None: the readers unpack it into (phase position, chemical index)')
    if not n_paths:
        raise AnalysisError('MaterialIndexer._get_index_and_kind: no returning path')
    if bad:
        d3.fail('MaterialIndexer._get_index_and_kind', 'entry-shape', bad[1], w, bad[0].ret_node)
    else:
        d3.ok('MaterialIndexer._get_index_and_kind', 'on all %d returning paths: kind None <=> the index is one row position / None, otherwise a (phase, chemical) pair' % n_paths, w)


def handed_out(ctx, d4):
    prog = ctx.prog
    for f in prog.all_functions():
        bound = {}
        for node in walk_no_nested(f.node):
            if isinstance(node, ast.Assign) and isinstance(node.value, ast.Call):
                fn = node.value.func
                name = fn.attr if isinstance(fn, ast.Attribute) else fn.id if isinstance(fn, ast.Name) else None
                if name in LOOKUPS:
                    for t in node.targets:
                        for x in ast.walk(t):
                            if isinstance(x, ast.Name) and isinstance(x.ctx, ast.Store):
                                bound.setdefault(x.id, []).append((node, name))
        if not bound:
            continue
        # names re-bound elsewhere from non-lookup values are dropped (flow-insensitive, conservative towards silence on copies)
        for node in walk_no_nested(f.node):
            if isinstance(node, ast.Assign):
                for t in node.targets:
                    if isinstance(t, ast.Name) and t.id in bound and not (isinstance(node.value, ast.Call) and (
                            (isinstance(node.value.func, ast.Attribute) and node.value.func.attr in LOOKUPS)
                            or (isinstance(node.value.func, ast.Name) and node.value.func.id in LOOKUPS))):
                        bound[t.id].append((node, None))
        for name, defs in bound.items():
            if any(d[1] is None for d in defs):
                continue
            muts = []
            for node in walk_no_nested(f.node):
                if isinstance(node, ast.Subscript) and isinstance(node.ctx, (ast.Store, ast.Del)) and isinstance(node.value, ast.Name) \
                        and node.value.id == name:
                    muts.append(node)
                if isinstance(node, ast.AugAssign) and isinstance(node.target, ast.Name) and node.target.id == name:
                    muts.append(node)
                if isinstance(node, ast.Call) and isinstance(node.func, ast.Attribute) and node.func.attr in MUT \
                        and isinstance(node.func.value, ast.Name) and node.func.value.id == name:
                    muts.append(node)
            lk = defs[0][1]
            if muts:
                st = muts[0]
                while not isinstance(st, ast.stmt):
                    st = st._parent
                d4.fail(f.qualname, 'mutates-%s' % name, '%r holds an index handed out by %s() (it aliases a cache entry / group table) and is mutated in place'
                        % (name, lk), f, st)
            else:
                d4.ok(f.qualname, '%r from %s() is only read' % (name, lk), f, defs[0][0])


def name_table(ctx, d5):
    prog = ctx.prog
    allowed = {'CompiledChemicals._compile', 'CompiledChemicals.set_alias', 'CompiledChemicals.define_group'}
    for f in prog.all_functions():
        if f.module.rel != CH:
            continue
        for node in walk_no_nested(f.node):
            tgt = None
            if isinstance(node, ast.Subscript) and isinstance(node.ctx, (ast.Store, ast.Del)):
                if src(node.value) == 'self._index' or src(node) == "dct['_index']":
                    tgt = node
            if isinstance(node, ast.Attribute) and isinstance(node.ctx, ast.Store) and node.attr == '_index' and src(node.value) == 'self':
                tgt = node
            if tgt is None:
                continue
            st = tgt
            while not isinstance(st, ast.stmt):
                st = st._parent
            if f.qualname in allowed:
                d5.ok(f.qualname, 'allowed writer of the name table: %s' % src(st), f, st)
            else:
                d5.fail(f.qualname, 'name-table-writer', 'the name table is written outside compile / set_alias / define_group', f, st)
    # a writer that may CHANGE the meaning of an existing name (no "name is new" guard) must forget what was memoised under it:
    # the chemicals' own lookup memo and the per-(phases, chemicals) memos of the multi-phase indexers
    from ..cfg import CFG
    dg = prog.method('CompiledChemicals', 'define_group', rel=CH)
    cfg = CFG(dg.node)
    st = [n for n in walk_no_nested(dg.node) if isinstance(n, ast.Assign) and any(isinstance(t, ast.Subscript) and src(t.value) == 'self._index' for t in n.targets)]
    if not st:
        raise AnalysisError('define_group: store into the name table not found')
    node = cfg.node_of(st[0])

    def clears_own(nd):
        return nd.kind == 'stmt' and any(isinstance(x, ast.Call) and src(x.func) == 'self._index_cache.clear' for x in ast.walk(nd.ast)) \
            or nd.kind == 'stmt' and isinstance(nd.ast, ast.Assign) and any(src(t) == 'self._index_cache' for t in nd.ast.targets)

    def clears_registry(nd):
        if nd.kind not in ('for', 'stmt'):
            return False
        a = nd.ast
        return isinstance(a, ast.For) and '_index_caches' in src(a.iter) and any(isinstance(x, ast.Call) and isinstance(x.func, ast.Attribute) and x.func.attr == 'clear' for x in ast.walk(a)) \
            or (nd.kind == 'stmt' and any(isinstance(x, ast.Call) and '_index_caches' in src(x.func) and src(x.func).endswith('.clear') for x in ast.walk(a)))
    for what, pred, tag in (('the lookup memo of the chemicals object', clears_own, 'memo-not-invalidated'),
                            ('the per-(phases, chemicals) lookup memos of the multi-phase indexers', clears_registry, 'indexer-memos-not-invalidated')):
        okk, wit = cfg.must_pass(node, lambda nd, pred=pred: nd is not node and pred(nd))
        if okk:
            d5.ok('CompiledChemicals.define_group', 'after (re)defining a name, %s is cleared on every path' % what, dg, st[0])
        else:
            d5.fail('CompiledChemicals.define_group', tag, 'define_group can give an existing name a new meaning but does not clear %s: a lookup made before the '
                    'redefinition keeps returning the old positions' % what, dg, st[0])
    sa = prog.method('CompiledChemicals', 'set_alias', rel=CH)
    # every path that writes the name table excludes the scenario "the alias already names ANOTHER chemical": some test taken on
    # the path evaluates, under that scenario, to the other outcome (three-valued evaluation over the resolved test)
    from ..resolve import resolved, path_defs
    idp, alp = sa.params[1], sa.params[2]
    D = ('self.__dict__',)

    def is_owner(x):
        if isinstance(x, ast.Subscript) and src(x.value) in D and src(x.slice) == alp:
            return True
        return isinstance(x, ast.Call) and isinstance(x.func, ast.Attribute) and x.func.attr == 'get' and src(x.func.value) in D \
            and x.args and src(x.args[0]) == alp

    def is_chem(x):
        return isinstance(x, ast.Subscript) and src(x.value) in D and src(x.slice) == idp

    def ev(t):
        """value of test t when the alias is in the table and names another chemical (None = unknown)"""
        if isinstance(t, ast.UnaryOp) and isinstance(t.op, ast.Not):
            v = ev(t.operand)
            return None if v is None else not v
        if isinstance(t, ast.BoolOp):
            vs = [ev(v) for v in t.values]
            if isinstance(t.op, ast.And):
                return False if any(v is False for v in vs) else (True if all(v is True for v in vs) else None)
            return True if any(v is True for v in vs) else (False if all(v is False for v in vs) else None)
        if isinstance(t, ast.Compare) and len(t.ops) == 1:
            a, b, op = t.left, t.comparators[0], t.ops[0]
            if isinstance(op, (ast.In, ast.NotIn)) and src(a) == alp and src(b) in D:
                return isinstance(op, ast.In)
            if isinstance(op, (ast.Is, ast.IsNot)) and ((is_owner(a) and is_chem(b)) or (is_owner(b) and is_chem(a))):
                return isinstance(op, ast.IsNot)
        return None

    sps, _ = run_paths(sa.node, follow_except=False)
    n_w = 0
    unguarded = None
    for p in sps:
        if p.raised:
            continue
        w = [e for e in p.events if e.kind == 'store' and e.target.startswith('self._index[')]
        if not w:
            continue
        n_w += 1
        excluded = False
        for e in p.events:
            if e.kind != 'cond' or not isinstance(e.stmt, ast.If) or p.events.index(e) > p.events.index(w[0]):
                continue
            v = ev(resolved(e.stmt.test, path_defs(p, e), keep={idp, alp}))
            if v is not None and v != e.value:
                excluded = True
        if not excluded:
            unguarded = w[0]
    guard = n_w and unguarded is None
    stores_in_else = guard
    if guard and stores_in_else:
        d5.ok('CompiledChemicals.set_alias', 'an alias already naming another chemical is rejected before the table is written (%d writing paths)' % n_w, sa)
    else:
        d5.fail('CompiledChemicals.set_alias', 'alias-guard', 'set_alias writes the name table without rejecting an alias already in use', sa, sa.node)


ORDER_CHANGING = {'sorted', 'set', 'frozenset', 'reversed', 'np.unique', 'np.sort', 'np.argsort', 'numpy.unique', 'numpy.sort', 'np.flip', 'np.random.permutation'}


def parallel_tables(ctx, rule):
    """define_group stores, under one name, the member positions and the default compositions.  Position k of every table must
    refer to the same chemical, so each table has to be an element-by-element image of the caller's (IDs, composition) in their
    given order.  An order-changing operation (sorted, set, reversed, unique, sort, a negative-step slice) anywhere in the
    derivation of one table mis-pairs members and fractions whenever the caller's order is not the canonical one."""
    prog = ctx.prog
    f = prog.method('CompiledChemicals', 'define_group', rel=CH)
    key = f.params[1]
    # assignments of locals, in order
    defs = {}
    for n in walk_no_nested(f.node):
        if isinstance(n, ast.Assign) and len(n.targets) == 1 and isinstance(n.targets[0], ast.Name):
            defs.setdefault(n.targets[0].id, []).append(n.value)
        if isinstance(n, ast.Expr) and isinstance(n.value, ast.Call) and isinstance(n.value.func, ast.Attribute) and n.value.func.attr in ('sort', 'reverse') \
                and isinstance(n.value.func.value, ast.Name):
            defs.setdefault(n.value.func.value.id, []).append(n.value)

    seqs = set(f.params[2:4])       # the parallel inputs: IDs and composition

    def leaves(e, ops, seen):
        """[(input sequence reached, order-changing operations applied on the way to it)]"""
        out = []
        if isinstance(e, ast.Call):
            fn = src(e.func)
            here = ops
            if fn in ORDER_CHANGING or (isinstance(e.func, ast.Attribute) and e.func.attr in ('sort', 'reverse', 'argsort')):
                here = ops | {fn.split('.')[-1]}
            for c in list(e.args) + [k.value for k in e.keywords] + ([e.func.value] if isinstance(e.func, ast.Attribute) else []):
                out += leaves(c, here, seen)
            return out
        if isinstance(e, ast.Subscript):
            here = ops
            if isinstance(e.slice, ast.Slice) and e.slice.step is not None and src(e.slice.step).startswith('-'):
                here = ops | {'negative-step slice'}
            return leaves(e.value, here, seen) + leaves(e.slice, here, seen)
        if isinstance(e, ast.Name):
            if e.id in seqs and e.id not in defs:
                return [(e.id, frozenset(ops))]
            if e.id in defs and (e.id, frozenset(ops)) not in seen:
                seen.add((e.id, frozenset(ops)))
                for d in defs[e.id]:
                    if isinstance(d, ast.Call) and isinstance(d.func, ast.Attribute) and d.func.attr in ('sort', 'reverse') and src(d.func.value) == e.id:
                        out += [(q, o | {d.func.attr}) for q, o in leaves(ast.Name(id=e.id + '@', ctx=ast.Load()), ops, seen)]
                        continue
                    out += leaves(d, ops, seen)
                if e.id in seqs:
                    out.append((e.id, frozenset(ops)))
                return out
            return []
        for c in ast.iter_child_nodes(e):
            out += leaves(c, ops, seen)
        return out
    n = 0
    sig = {}
    for node in walk_no_nested(f.node):
        if isinstance(node, ast.Assign) and len(node.targets) == 1 and isinstance(node.targets[0], ast.Subscript) \
                and src(node.targets[0].slice) == key and src(node.targets[0].value).startswith('self.'):
            n += 1
            tbl = src(node.targets[0].value)
            for leaf, ops in leaves(node.value, frozenset(), set()):
                sig.setdefault(ops, []).append((tbl, leaf, node))
    if len(sig) <= 1:
        rule.ok('CompiledChemicals.define_group', '%d per-name tables; every path from a table to the given IDs / composition applies the same order-changing operations (%s)'
                % (n, sorted(next(iter(sig)) if sig else [])), f)
        for ops, items in sig.items():
            for tbl in sorted({t for t, _, _ in items}):
                rule.ok('CompiledChemicals.define_group', '%s[%s] is aligned with the other tables' % (tbl, key), f)
    else:
        desc = '; '.join('%s <- %s via %s' % (sorted({t.split('.')[-1] for t, _, _ in items}), sorted({l for _, l, _ in items}), sorted(ops) or 'no re-ordering')
                         for ops, items in sorted(sig.items(), key=lambda kv: sorted(kv[0])))
        node = [it[2] for ops, items in sig.items() if ops for it in items][0]
        rule.fail('CompiledChemicals.define_group', 'tables-misaligned',
                  'the per-name tables are derived from the caller\'s parallel sequences with different re-orderings (%s): position k no longer refers to the same '
                  'chemical in all of them' % desc, f, node)
    ctx.anchor(n >= 3, 'define_group: expected >= 3 per-name tables, found %d' % n)
