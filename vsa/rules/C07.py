"""C07 -- pure-component and mixture H/S consistency (algebraic clauses)."""
from __future__ import annotations
import ast
from fractions import Fraction
from ..frontend import AnalysisError, src, dotted, walk_no_nested
from ..lin import Lin, Form
from ..symx import run_paths
from ..pathcond import implied

FE = 'thermosteam/free_energy.py'
MANIFEST = {
    'technique': 'symbolic linear-form (Laurent polynomial) identity checking over the ast of free_energy.py and Chemical._init_energies; comprehension-shape rules for '
            'mixture models; typestate rule (dirty after a change of a frozen input, clean after reset_free_energies) over the CFGs of the Chemical methods with '
            'interprocedural summaries; writer/reader agreement of constants patched by attribute name; raw-optional rule for _init_data',
    'text': 'Decides, for every input, the algebraic clauses of C07: with the integral additivity axiom the 3x18 reference-state / derivative / pressure / phase-'
            'jump identities of the enthalpy and entropy functors hold as equalities of symbolic forms, data tuples bind functor parameters with the right arity '
            'and position, mixture H/S/Cn are mole-weighted sums over stored entries and the ideal mixing term has coefficient -R; every public Chemical method '
            'that changes a model or constant frozen into the functors (the arguments reset_free_energies hands to _init_energies) rebuilds the functors on every '
            'normal path before returning. Constants that a setter patches into existing functors by attribute name (S0, Hfus, Sfus) are bound to the functor '
            'parameter of that name wherever _init_energies hands them over; once _init_data has resolved an optional argument into its field nothing is computed '
            'from the raw argument; a functor call of the wrong arity is reported unless what it stores is overwritten on every path consistent with the enclosing '
            'tests. Numerical model values are out of scope.',
}
CH = 'thermosteam/_chemical.py'
IMM = 'thermosteam/mixture/ideal_mixture_model.py'
MIX = 'thermosteam/mixture/mixture.py'
PH = 'thermosteam/base/phase_handle.py'

INT_H = 'T_dependent_property_integral'
INT_S = 'T_dependent_property_integral_over_T'


def call_hook(node, lin):
    """axioms: integral(f,a,b) = F_f(b) - F_f(a) ; log(a/b) = log a - log b"""
    f = node.func
    if isinstance(f, ast.Attribute) and f.attr in (INT_H, INT_S) and len(node.args) == 2:
        who = lin._recv_text(f.value)
        a = lin.form(node.args[0]).pretty()
        b = lin.form(node.args[1]).pretty()
        tag = 'FH' if f.attr == INT_H else 'FS'
        return Form.atom('%s[%s](%s)' % (tag, who, b)) - Form.atom('%s[%s](%s)' % (tag, who, a))
    if isinstance(f, ast.Name) and f.id == 'log' and len(node.args) == 1:
        x = lin.form(node.args[0])
        if x.is_monomial():
            (k, c), = x.t.items()
            out = Form()
            if c != 1:
                if c <= 0:
                    return None
                out = out + Form.atom('log(%s)' % c)
            for a, e in k:
                out = out + Form.const(e) * Form.atom('log(%s)' % a)
            return out
    return None


def functor_table(prog):
    """functor name -> (params after T[,P], has_P, FuncInfo) for @functor functions"""
    m = prog.module(FE)
    out = {}
    for f in m.functions.values():
        if any(d.startswith('functor') for d in f.decorators):
            ps = f.params
            if not ps or ps[0] != 'T':
                continue
            hasP = len(ps) > 1 and ps[1] == 'P'
            out[f.name] = (ps[2:] if hasP else ps[1:], hasP, f)
    return out


def builder_table(prog):
    """BuilderName -> (var, {'s': functor, 'l': functor, 'g': functor})"""
    m = prog.module(FE)
    # parameter order of PhaseFunctorBuilder.__init__
    init = prog.method('PhaseFunctorBuilder', '__init__', rel=PH)
    order = [p for p in init.params[1:]]
    out = {}
    for st in m.tree.body:
        if isinstance(st, ast.Assign) and isinstance(st.value, ast.Call) and len(st.targets) == 1 \
                and isinstance(st.targets[0], ast.Name):
            fn = dotted(st.value.func) or ''
            if fn.endswith('FunctorBuilder'):
                args = st.value.args
                if len(args) != len(order):
                    raise AnalysisError('%s: builder %s has %d args' % (FE, st.targets[0].id, len(args)))
                d = {}
                var = None
                for p, a in zip(order, args):
                    if p == 'var':
                        var = a.value if isinstance(a, ast.Constant) else src(a)
                    else:
                        name = dotted(a) or ''
                        if not name.endswith('.functor'):
                            raise AnalysisError('%s: builder arg %s is not X.functor' % (FE, src(a)))
                        d[p] = name[:-len('.functor')]
                out[st.targets[0].id] = (var, d, st)
    return out, order


def check_builder_call_zip(ctx, r):
    """PhaseFunctorBuilder.__call__ pairs (phase letter, builder, data): decided on the normal form of the method (literal
    tuples zipped, literal loops / dict comprehensions unrolled), where every pairing is one guarded item store
    d['p'] = self.<p>.from_args(<p>data) into the dict that is handed to the handle as **d."""
    from ..resolve import resolved, path_defs
    prog = ctx.prog
    f = prog.method('PhaseFunctorBuilder', '__call__', rel=PH)
    node = prog.normal_form(f)
    ps, _ = run_paths(node, follow_except=False)
    cons = 'PhaseFunctorBuilder.__call__'
    seen = {}
    n_paths = 0
    for p in ps:
        if p.raised:
            continue
        n_paths += 1
        rets = [e for e in p.events if e.kind == 'ret' and isinstance(e.node, ast.Call)]
        stars = [k.value for k in rets[-1].node.keywords if k.arg is None] if rets else []
        if len(stars) != 1 or not isinstance(stars[0], ast.Name):
            r.fail(cons, 'loop-body', 'the functors are not handed to the handle as one **mapping', f, node)
            return
        d = stars[0].id
        defs = path_defs(p)
        for e in p.events:
            if e.kind != 'store' or not isinstance(e.node, ast.Subscript) or src(e.node.value) != d:
                continue
            key = e.node.slice
            val = resolved(e.stmt.value, path_defs(p, e), keep=set(f.params))
            letters = []
            okform = isinstance(key, ast.Constant) and isinstance(val, ast.Call) and isinstance(val.func, ast.Attribute) \
                and val.func.attr == 'from_args' and isinstance(val.func.value, ast.Attribute) and src(val.func.value.value) == f.params[0] \
                and len(val.args) == 1 and isinstance(val.args[0], ast.Name) and val.args[0].id in f.params
            if not okform:
                r.fail(cons, 'loop-body', 'loop body does not bind builder.from_args(data) under the phase key', f, e.stmt)
                continue
            letters = [key.value, val.func.value.attr, val.args[0].id[0]]   # sdata -> s (parameters of __call__, bound positionally by the callers checked in D1)
            # the store must be guarded by the truth of the same builder
            guard = implied(p.conds, lambda t: src(t) == src(val.func.value))
            seen.setdefault(key.value, []).append((letters, guard, e))
    if not n_paths:
        raise AnalysisError('PhaseFunctorBuilder.__call__: no normal path')
    for i, ph in enumerate(sorted(seen)):
        bad = [x for x in seen[ph] if len(set(x[0])) != 1]
        if bad:
            r.fail(cons, 'zip-misaligned-%s' % ph, 'the entry for phase %r mixes phases %s' % (ph, sorted(set(map(str, bad[0][0])))), f, bad[0][2].stmt)
        else:
            r.ok(cons, 'phase %r: d[%r] = self.%s.from_args(%sdata) on %d paths' % (ph, ph, ph, ph, len(seen[ph])), f, seen[ph][0][2].stmt)
    if set(seen) >= {'s', 'l', 'g'}:
        r.ok(cons, 'all three phases are bound and handed to the handle as **mapping', f, node)
    else:
        r.fail(cons, 'loop-body', 'loop body does not bind builder.from_args(data) under the phase key (phases bound: %s)' % sorted(seen), f, node)


def run(ctx):
    prog = ctx.prog
    ctx.decided = [
        'D1 data tuples/functor calls built in Chemical._init_energies have the arity of the functor parameter lists',
        'D2 for each reference phase: H(T_ref)=H_ref, S(T_ref,P_ref)=S0, one +1 integral of the matching-phase Cn per functor '
        '(=> dH/dT=Cn, dS/dT=Cn/T), only gas S depends on P through -R log(P/P_ref), jumps at Tb/Tm equal Hvap/Hfus (/T for S)',
        'D3 mixture models are sum_i n_i f_i over stored entries; entropy mixing term coefficient is -R; excess only when enabled',
        'D6 in Chemical._init_data, once an optional argument has been resolved into its field (self._X = X or lookup(...)), later values are computed from the '
        'field, never from the raw argument (which is None for every chemical taken from the database)',
        'D5 every constant a setter patches into existing functors by attribute name (S0, Hfus, Sfus) is bound, in _init_energies, to the functor parameter of '
        'that name (writer/reader agreement; otherwise the setter silently stops reaching that functor)',
        'D4 typestate: after a public Chemical method changes a model or constant that the H/S functors freeze (the arguments '
        'reset_free_energies hands to _init_energies), the functors are rebuilt on every normal path before the method returns',
    ]
    ctx.not_decided = ['values delivered by the database models', 'derivative relations of the external integral implementations']
    functors = functor_table(prog)
    builders, order = builder_table(prog)
    ctx.anchor(len(functors) >= 39, 'free_energy.py: expected >= 39 functors, found %d' % len(functors))
    ctx.anchor(len(builders) >= 12, 'free_energy.py: expected 12 builders, found %d' % len(builders))

    r0 = ctx.rule('D1z', 'builder __call__ pairs phase letter, builder and data tuple', floor=4)
    check_builder_call_zip(ctx, r0)

    r6 = ctx.rule('D6', 'data handed to the functors are derived from the resolved fields, not from optional constructor arguments', floor=3)
    raw_optionals(ctx, r6)
    r4 = ctx.rule('D4', 'H/S functors are rebuilt after their frozen inputs change', floor=6)
    frozen_follow_inputs(ctx, r4)

    r1 = ctx.rule('D1', 'arity of data tuples / functor() calls equals functor parameter list', floor=29)
    r2 = ctx.rule('D2', 'reference-state, derivative, pressure and phase-jump identities (D-lin)', floor=27)
    fe = prog.method('Chemical', '_init_energies', rel=CH)

    # ---- D5: constants that a setter patches into the functors BY ATTRIBUTE NAME (reset_energy_constant(self, 'S0', ...)) must be
    # bound to the functor parameter of that very name wherever _init_energies hands them over (functor attributes are the parameter names)
    r5 = ctx.rule('D5', 'constants patched by name are bound to the functor parameter of that name', floor=6)
    ch_mod = prog.module(CH)
    patched = set()
    chem_cls = prog.cls('Chemical', CH)
    for g_ in list(chem_cls.methods.values()) + list(chem_cls.setters.values()):
        for n in walk_no_nested(g_.node):
            if isinstance(n, ast.Call) and isinstance(n.func, ast.Name) and n.func.id in ch_mod.functions and len(n.args) >= 2 \
                    and isinstance(n.args[1], ast.Constant) and isinstance(n.args[1].value, str):
                helper = ch_mod.functions[n.func.id]
                # the helper sets the attribute called <its 2nd parameter> on the energy handles
                # (a call f(obj, <2nd parameter>, ...) on something other than the chemical itself, inside a loop over the module's table of energy handles)
                if any(isinstance(m_, ast.Call) and len(m_.args) >= 2 and src(m_.args[1]) == helper.params[1] and src(m_.args[0]) != helper.params[0]
                       for m_ in walk_no_nested(helper.node)) \
                        and any(isinstance(m_, ast.For) and isinstance(m_.iter, ast.Name) and 'energy' in m_.iter.id for m_ in walk_no_nested(helper.node)):
                    patched.add(n.args[1].value)
        # the same patch written in place (the helper's body in the method itself): inside a loop over the module's table of
        # energy handles, f(obj, '<name>', value) / obj.<name> = value on something other than the chemical
        for lp in walk_no_nested(g_.node):
            if not (isinstance(lp, ast.For) and isinstance(lp.iter, ast.Name) and 'energy' in lp.iter.id):
                continue
            for n in ast.walk(lp):
                if isinstance(n, ast.Call) and len(n.args) == 3 and isinstance(n.args[1], ast.Constant) and isinstance(n.args[1].value, str) \
                        and src(n.args[0]) != g_.params[0] and isinstance(n.func, (ast.Name, ast.Attribute)):
                    patched.add(n.args[1].value)
    ctx.anchor(len(patched) >= 2, 'Chemical: expected >= 2 constants patched into the functors by name, found %s' % sorted(patched))
    ctx.extra['C07_patched'] = patched

    # ---- D1 direct X.functor(...) calls
    for n in ast.walk(fe.node):
        if isinstance(n, ast.Call) and isinstance(n.func, ast.Attribute) and n.func.attr == 'functor' \
                and isinstance(n.func.value, ast.Name) and n.func.value.id in functors:
            name = n.func.value.id
            params = functors[name][0]
            for i_, a_ in enumerate(n.args[:len(params)]):
                if isinstance(a_, ast.Name) and a_.id in patched:
                    if params[i_] == a_.id:
                        r5.ok('Chemical._init_energies', '%s.functor: %s is bound to the parameter of the same name' % (name, a_.id), fe, n)
                    else:
                        r5.fail('Chemical._init_energies', 'patched-by-name-%s' % a_.id,
                                '%s.functor receives %s as its parameter %r, but the %s setter patches existing functors through the attribute %r: '
                                'the setter no longer reaches this functor' % (name, a_.id, params[i_], a_.id, a_.id), fe, n)
            if len(n.args) == len(params):
                r1.ok('Chemical._init_energies', '%s.functor(%s) binds %s' % (name, ', '.join(src(a) for a in n.args), params), fe, n)
            else:
                # is the stored value overwritten before the function returns on every path?
                from ..cfg import CFG as _CFG, header_exprs as _hx
                st_ = n
                while getattr(st_, '_parent', None) is not None and not isinstance(st_, ast.stmt):
                    st_ = st_._parent
                tgts = {src(t) for t in getattr(st_, 'targets', []) if isinstance(t, ast.Attribute)}
                cfg_ = _CFG(fe.node)
                nd0 = cfg_.node_of(st_)

                def restores(nd):
                    return nd is not nd0 and any(isinstance(h, ast.Assign) and any(src(t) in tgts for t in h.targets) for h in _hx(nd))
                # what the enclosing tests establish about plain names that are never re-bound in the function (a parameter such as
                # single_phase): later tests of the same name take the same branch
                n_st = {}
                for x in ast.walk(fe.node):
                    if isinstance(x, ast.Name) and isinstance(x.ctx, (ast.Store, ast.Del)):
                        n_st.setdefault(x.id, []).append(x)
                # re-bound names: more than one binding, or one that comes after this statement
                stored_ = {k_ for k_, v_ in n_st.items() if len(v_) > 1 or v_[0].lineno >= st_.lineno}
                facts = {}
                cur = st_
                while getattr(cur, '_parent', None) is not None:
                    par = cur._parent
                    if isinstance(par, ast.If) and any(cur is b for b in par.body + par.orelse):
                        t_, val_ = par.test, any(cur is b for b in par.body)
                        while isinstance(t_, ast.UnaryOp) and isinstance(t_.op, ast.Not):
                            t_, val_ = t_.operand, not val_
                        if isinstance(t_, ast.Name) and t_.id not in stored_:
                            facts.setdefault(t_.id, val_)
                    cur = par

                def contradicts(a, b, label):
                    if a.kind != 'test' or not isinstance(a.ast, ast.If) or label not in (True, False):
                        return False
                    t_, neg = a.ast.test, False
                    while isinstance(t_, ast.UnaryOp) and isinstance(t_.op, ast.Not):
                        t_, neg = t_.operand, not neg
                    return isinstance(t_, ast.Name) and t_.id in facts and (label != neg) != facts[t_.id]
                dead = bool(tgts) and nd0 is not None and cfg_.must_pass(nd0, restores, edge_blocked=contradicts)[0]
                if dead:
                    r1.note('Chemical._init_energies',
                            '%s.functor called with %d args, functor takes %s (binds by position; uncounted: the value stored into %s is '
                            'overwritten on every path before the function returns)' % (name, len(n.args), params, sorted(tgts)), fe, n)
                else:
                    r1.fail('Chemical._init_energies', 'functor-arity', '%s.functor is called with %d arguments (%s) but the functor takes %s: they bind by '
                            'position, so %s receives %s -- and what is stored into %s here is what the chemical keeps on some path' % (
                                name, len(n.args), ', '.join(src(a) for a in n.args), params,
                                params[-1] if params else '?', src(n.args[len(params) - 1]) if len(n.args) >= len(params) and params else '?', sorted(tgts)), fe, n)

    # ---- symbolic evaluation of _init_energies per reference phase
    for ref in ('s', 'l', 'g'):
        analyse_ref(ctx, r1, r2, fe, ref, functors, builders)

    mixture_rules(ctx)


TRUTHY = {'has_Cns', 'has_Cnl', 'has_Cng', 'Hvap', 'Tb', 'Tm', 'Hvap_Tb'}


def analyse_ref(ctx, r1, r2, fe, ref, functors, builders):
    prog = ctx.prog

    def decide(test, state):
        lin = getattr(state, 'lin', state)
        return tri(test, ref, lin)

    def rtext(t, lin):
        try:
            return lin.text(t) if lin is not None else src(t)
        except Exception:
            return src(t)

    def tri(t, ref, lin):
        if isinstance(t, ast.BoolOp):
            vals = [tri(v, ref, lin) for v in t.values]
            if isinstance(t.op, ast.And):
                if any(v is False for v in vals):
                    return False
                return True if all(v is True for v in vals) else None
            if any(v is True for v in vals):
                return True
            return False if all(v is False for v in vals) else None
        if isinstance(t, ast.UnaryOp) and isinstance(t.op, ast.Not):
            v = tri(t.operand, ref, lin)
            return None if v is None else (not v)
        if isinstance(t, ast.Compare) and len(t.ops) == 1 and isinstance(t.comparators[0], ast.Constant):
            left = rtext(t.left, lin)
            if left == 'phase_ref':
                eq = (t.comparators[0].value == ref)
                return eq if isinstance(t.ops[0], ast.Eq) else (not eq) if isinstance(t.ops[0], ast.NotEq) else None
            if left == 'self._locked_state':
                return False
        if isinstance(t, ast.Call):
            s = src(t)
            if s == 'isinstance(Cn, PhaseHandle)':
                return True
            if s == 'isinstance(eos, IG)':
                return True
            if src(t.func) == 'any':
                return True
        r = rtext(t, lin)
        # data assumed complete: every heat-capacity model, Tm, Tb, Hvap and Hvap(Tb) exist; the chemical is not phase-locked
        if r in ('bool(Cn.s)', 'bool(Cn.l)', 'bool(Cn.g)', 'Hvap', 'Tb', 'Tm', 'Hvap(Tb)'):
            return True
        if r == 'self._locked_state':
            return False
        return None

    paths, trunc = run_paths(fe.node, decide=decide, call_hook=call_hook, follow_except=False, max_paths=64)
    paths = [p for p in paths if not p.raised]
    if len(paths) != 1:
        raise AnalysisError('_init_energies: expected one path for phase_ref=%s under the full-data assumptions, got %d'
                            % (ref, len(paths)))
    p = paths[0]
    got = {}
    for e in p.events:
        if e.kind == 'store' and e.target in ('self._H', 'self._S') and isinstance(e.stmt.value, ast.Call):
            call = e.stmt.value
            b = dotted(call.func)
            if b in builders:
                got[e.target] = (b, call, e.stmt)
    if set(got) != {'self._H', 'self._S'}:
        raise AnalysisError('_init_energies: phase_ref=%s path does not store both _H and _S through builders' % ref)

    # re-run to capture tuple forms at each store: walk events in order with tuple env snapshots
    # (State.tup holds the final snapshot only; we re-derive from 'assign' events)
    tupsnap = {}
    cur = {}
    for e in p.events:
        if e.kind == 'assign' and isinstance(e.stmt, ast.Assign) and isinstance(e.stmt.value, ast.Tuple) \
                and isinstance(e.node, ast.Name):
            cur[e.node.id] = (e.stmt.value, e)
        if e.kind == 'store' and e.target in got:
            tupsnap[e.target] = dict(cur)

    # need forms of tuple elements at the time: re-evaluate by replaying assign events
    env_at = {}
    lin = Lin(call_hook=call_hook)
    for e in p.events:
        if e.kind == 'assign':
            lin.env[e.target] = e.value
        if e.kind == 'store' and e.target in got:
            env_at[e.target] = dict(lin.env)

    phase_forms = {}
    for tgt, (bname, call, stmt) in got.items():
        var, fmap, _ = builders[bname]
        kind = 'H' if tgt == 'self._H' else 'S'
        if var != kind:
            r2.fail('Chemical._init_energies[ref=%s]' % ref, 'builder-var-%s' % kind,
                    '%s is built with %s whose variable is %r' % (tgt, bname, var), fe, stmt)
            continue
        # positional args of builder __call__(sdata, ldata, gdata, Tc)
        bc = prog.method('PhaseFunctorBuilder', '__call__', rel=PH)
        cparams = bc.params[1:]
        amap = dict(zip(cparams, call.args))
        for ph in ('s', 'l', 'g'):
            dname = ph + 'data'
            a = amap.get(dname)
            if a is None:
                raise AnalysisError('builder call %s lacks %s' % (src(call), dname))
            if isinstance(a, ast.Name):
                tv = tupsnap[tgt].get(a.id)
                if tv is None:
                    raise AnalysisError('_init_energies: %s is not a literal tuple at %s' % (a.id, src(stmt)))
                elts = tv[0].elts
                # forms evaluated at the tuple's own assignment point
                lin_t = Lin(call_hook=call_hook)
                for e in p.events:
                    if e is tv[1]:
                        break
                    if e.kind == 'assign':
                        lin_t.env[e.target] = e.value
                forms = [lin_t.form(x) for x in elts]
            elif isinstance(a, ast.Tuple):
                lin_t = Lin(env_at[tgt], call_hook=call_hook)
                elts = a.elts
                forms = [lin_t.form(x) for x in elts]
            else:
                raise AnalysisError('builder data arg %s unsupported' % src(a))
            fname = fmap[ph]
            if fname not in functors:
                raise AnalysisError('functor %s not found' % fname)
            params, hasP, finfo = functors[fname]
            cons = 'Chemical._init_energies[ref=%s].%s.%s' % (ref, kind, ph)
            if len(params) != len(forms):
                r1.fail(cons, 'arity', '%s takes %s but the %s tuple has %d elements (%s)' % (
                    fname, params, dname, len(forms), ', '.join(src(x) for x in elts)), fe, stmt)
                continue
            r1.ok(cons, '%s%s <- (%s)' % (fname, tuple(params), ', '.join(src(x) for x in elts)), fe, stmt)
            r5 = next((r_ for r_ in ctx.rules if r_.id.endswith('-D5')), None)
            for prm_, x_ in zip(params, elts):
                if isinstance(x_, ast.Name) and x_.id in ctx.extra.get('C07_patched', ()) and r5 is not None:
                    if prm_ == x_.id:
                        r5.ok(cons, '%s: %s is bound to the parameter of the same name' % (fname, x_.id), fe, stmt)
                    else:
                        r5.fail(cons, 'patched-by-name-%s' % x_.id, '%s receives %s as its parameter %r, but the %s setter patches existing functors through the '
                                'attribute %r' % (fname, x_.id, prm_, x_.id, x_.id), fe, stmt)
            phase_forms[(kind, ph)] = (finfo, dict(zip(params, forms)), hasP)

    if len(phase_forms) != 6:
        return

    base_env = env_at['self._S']

    def value(kind, ph, T=None, P=None):
        finfo, binding, hasP = phase_forms[(kind, ph)]
        env = dict(binding)
        env['T'] = T if T is not None else Form.atom('T')
        env['P'] = P if P is not None else Form.atom('P')
        ps, tr = run_paths(finfo.node, call_hook=call_hook, init_env=env, consts={})
        ps = [q for q in ps if not q.raised]
        if len(ps) != 1 or ps[0].ret is None:
            raise AnalysisError('functor %s is not a single-expression functor' % finfo.name)
        return ps[0].ret

    Tref, Pref, Href = Form.atom('self.T_ref'), Form.atom('self.P_ref'), Form.atom('self.H_ref')
    S0 = Form.atom('S0')
    Tb, Tm = Form.atom('Tb'), Form.atom('Tm')
    Hvap_Tb = Form.atom('Hvap(Tb)')
    Hfus, Sfus = Form.atom('Hfus'), Form.atom('Sfus')
    cn = {'s': 'Cn.s', 'l': 'Cn.l', 'g': 'Cn.g'}
    C = 'Chemical._init_energies[ref=%s]' % ref

    def expect(tag, desc, got_form, want_form, finfo=None):
        if got_form == want_form:
            r2.ok(C, '%s: %s == %s' % (desc, got_form.pretty(), want_form.pretty()), finfo or fe)
        else:
            r2.fail(C, tag, '%s: got %s, expected %s' % (desc, got_form.pretty(), want_form.pretty()), finfo or fe,
                    (finfo or fe).node)

    # 1,2 reference state
    expect('H-ref', 'H_%s(T_ref)' % ref, value('H', ref, T=Tref, P=Pref), Href)
    expect('S-ref', 'S_%s(T_ref,P_ref)' % ref, value('S', ref, T=Tref, P=Pref), S0)
    # 3 derivative / P-dependence per phase functor
    for kind, tagF in (('H', 'FH'), ('S', 'FS')):
        for ph in ('s', 'l', 'g'):
            f = value(kind, ph)
            finfo = phase_forms[(kind, ph)][0]
            tdep = Form({k: v for k, v in f.t.items() if any(_mentions(a, 'T') for a, e in k)})
            want = Form.atom('%s[%s](T)' % (tagF, cn[ph]))
            expect('dT-%s-%s' % (kind, ph), 'T-dependent part of %s_%s' % (kind, ph), tdep, want, finfo)
            pdep = Form({k: v for k, v in f.t.items() if any(_mentions(a, 'P') for a, e in k)})
            if kind == 'S' and ph == 'g':
                wantp = -(Form.atom('R') * Form.atom('log(P)'))
            else:
                wantp = Form()
            expect('dP-%s-%s' % (kind, ph), 'P-dependent part of %s_%s' % (kind, ph), pdep, wantp, finfo)
    # 4 jumps
    expect('Hvap-jump', 'H_g(Tb)-H_l(Tb)', value('H', 'g', T=Tb, P=Pref) - value('H', 'l', T=Tb, P=Pref), Hvap_Tb)
    expect('Hfus-jump', 'H_l(Tm)-H_s(Tm)', value('H', 'l', T=Tm, P=Pref) - value('H', 's', T=Tm, P=Pref), Hfus)
    expect('Svap-jump', 'S_g(Tb,P_ref)-S_l(Tb)', value('S', 'g', T=Tb, P=Pref) - value('S', 'l', T=Tb, P=Pref),
           Hvap_Tb * Tb.inv())
    expect('Sfus-jump', 'S_l(Tm)-S_s(Tm)', value('S', 'l', T=Tm, P=Pref) - value('S', 's', T=Tm, P=Pref), Sfus)


def _mentions(atom, name):
    """does the atom text mention `name` as a free argument, e.g. FH[Cn.l](T) or log(P)"""
    import re
    return re.search(r'(?<![A-Za-z0-9_\.])%s(?![A-Za-z0-9_])' % re.escape(name), atom) is not None


# ----------------------------------------------------------------------------

def mixture_rules(ctx):
    prog = ctx.prog
    r3 = ctx.rule('D3', 'mixture models: mole-weighted sums over stored entries; entropy mixing term; excess gating', floor=10)
    R = Form.atom('R')

    spec = {
        'IdealTPMixtureModel': ('models[i](phase, T, P)', None),
        'IdealTMixtureModel': ('models[i](phase, T)', None),
        'SinglePhaseIdealTMixtureModel': ('models[i](T)', None),
        'SinglePhaseIdealTPMixtureModel': ('models[i](T, P)', None),
        'IdealEntropyModel': ('models[i](phase, T, P)', 'mix'),
    }
    for cname, (pure, extra) in spec.items():
        f = prog.method(cname, '__call__', rel=IMM)
        cons = cname + '.__call__'
        fnode = prog.normal_form(f)         # terms built by an append loop / through a helper read like the comprehension
        rets = [n for n in ast.walk(fnode) if isinstance(n, ast.Return)]
        if len(rets) != 1:
            r3.fail(cons, 'shape', 'expected a single return', f, f.node)
            continue
        rv = rets[0].value
        if not (isinstance(rv, ast.Call) and src(rv.func) == 'sum' and rv.args and isinstance(rv.args[0], (ast.ListComp, ast.GeneratorExp))):
            from ..resolve import resolved
            tdefs = {}
            for st in fnode.body:
                if isinstance(st, ast.Assign) and len(st.targets) == 1 and isinstance(st.targets[0], ast.Name):
                    if st.targets[0].id in f.params:
                        continue
                    tdefs[st.targets[0].id] = st.value
            rv = resolved(rv, {k: v for k, v in tdefs.items() if isinstance(v, (ast.ListComp, ast.GeneratorExp, ast.Call))})
        comp = None
        if isinstance(rv, ast.Call) and src(rv.func) == 'sum' and len(rv.args) == 1 \
                and isinstance(rv.args[0], (ast.ListComp, ast.GeneratorExp)):
            comp = rv.args[0]
        if comp is None or len(comp.generators) != 1 or comp.generators[0].ifs:
            r3.fail(cons, 'shape', 'return is not sum(<elt> for i, j in mol.dct.items())', f, rets[0])
            continue
        g = comp.generators[0]
        it = src(g.iter)
        tg = g.target
        if not (it.endswith('.dct.items()') and isinstance(tg, ast.Tuple) and len(tg.elts) == 2
                and all(isinstance(e, ast.Name) for e in tg.elts)):
            r3.fail(cons, 'iter', 'comprehension does not range over the stored (index, value) entries: %s' % it, f, rets[0])
            continue
        iname, jname = tg.elts[0].id, tg.elts[1].id
        # local straight-line env (models = self.models, total_mol = mol.sum())
        lin = Lin(call_hook=call_hook)
        for st in fnode.body:
            if isinstance(st, ast.Assign):
                lin.exec_stmt(st)
        lin.env[iname] = Form.atom('i')
        lin.env[jname] = Form.atom('j')
        elt = lin.form(comp.elt)
        j = Form.atom('j')
        want = j * Form.atom('self.' + pure)
        mixing = elt - want
        if extra is None:
            if mixing.is_zero():
                r3.ok(cons, 'element is n_i*f_i: %s' % elt.pretty(), f, rets[0])
            else:
                r3.fail(cons, 'element', 'element is %s, expected %s' % (elt.pretty(), want.pretty()), f, rets[0])
        else:
            tot = 'mol.sum()'
            want_mix = -(R * j * Form.atom('log(j)')) + R * j * Form.atom('log(%s)' % tot)
            pure_ok = (elt.terms_without('log(j)').terms_without('log(%s)' % tot) == want)
            if not pure_ok:
                r3.fail(cons, 'element', 'pure part of the entropy element is not n_i*S_i: %s' % elt.pretty(), f, rets[0])
            else:
                r3.ok(cons, 'pure part is n_i*S_i', f, rets[0])
            if mixing == want_mix:
                r3.ok(cons, 'mixing term is -R*n_i*log(n_i/n): %s' % mixing.pretty(), f, rets[0])
            else:
                r3.fail(cons, 'mixing-coefficient',
                        'ideal mixing term is %s, expected -R*n_i*log(n_i/n) = %s' % (mixing.pretty(), want_mix.pretty()),
                        f, rets[0])

    # wiring in IdealMixture.from_chemicals-like builders: var 'S' uses IdealEntropyModel; H / Cn ideal sums
    m = prog.module(MIX)
    wired = 0
    for n in ast.walk(m.tree):
        if isinstance(n, ast.Call) and src(n.func) == 'create_mixture_model' and len(n.args) == 3 \
                and isinstance(n.args[1], ast.Constant):
            var, model = n.args[1].value, src(n.args[2])
            want = {'S': 'IdealEntropyModel', 'Cn': 'IdealTMixtureModel'}.get(var, 'IdealTPMixtureModel')
            fn = _enclosing(n)
            if model == want:
                r3.ok('create_mixture_model(%s)' % var, '%s is modelled by %s' % (var, model), None, n)
            else:
                r3.fail('create_mixture_model(%s)' % var, 'wiring', '%s is modelled by %s, expected %s' % (var, model, want), None, n)
            wired += 1
    ctx.anchor(wired >= 8, 'mixture.py: create_mixture_model wiring not found')

    # Mixture.H / S / xH / xS
    def ret_forms(f, decide):
        ps, _ = run_paths(f.node, decide=decide, follow_except=False)
        return [p for p in ps if not p.raised]

    for name, base, exc in (('H', 'self._H(phase, mol, T, P)', 'self._H_excess(phase, mol, T, P)'),
                            ('S', 'self._S(phase, mol, T, P)', 'self._S_excess(phase, mol, T, P)')):
        f = prog.method('Mixture', name, rel=MIX)
        for flag in (False, True):
            from ..pathcond import scenario_decide

            def atom(t, flag=flag):
                s = src(t)
                if s == 'self.include_excess_energies':
                    return flag
                if s == 'mol.dct':
                    return True                      # a non-empty composition
                if isinstance(t, ast.Compare) and 'SparseVector' in s and len(t.ops) == 1:
                    return isinstance(t.ops[0], (ast.Is, ast.Eq))      # the composition already is a sparse vector
                return None
            decide = scenario_decide(atom)
            ps = ret_forms(f, decide)
            want = Form.atom(base) + (Form.atom(exc) if flag else Form())
            good = len(ps) == 1 and ps[0].ret == want
            cons = 'Mixture.%s[excess=%s]' % (name, flag)
            if good:
                r3.ok(cons, 'returns %s' % want.pretty(), f)
            else:
                r3.fail(cons, 'value', 'returns %s, expected %s' % ([p.ret for p in ps], want.pretty()), f, f.node)
    for name, inner in (('xH', 'H'), ('xS', 'S'), ('xCn', 'Cn')):
        f = prog.method('Mixture', name, rel=MIX)
        fn = prog.normal_form(f)
        pm = f.params[1]
        ok = False
        lin = Lin()
        # the summation: sum(<comprehension over the phase-amount pairs>)  or  acc = 0; for phase, mol in pairs: acc += term
        defs = {}
        for st in walk_no_nested(fn):
            if isinstance(st, ast.Assign) and len(st.targets) == 1 and isinstance(st.targets[0], ast.Name):
                defs.setdefault(st.targets[0].id, []).append(st.value)

        def unwrap(e):
            while isinstance(e, ast.Call) and isinstance(e.func, ast.Name) and e.func.id in ('tuple', 'list', 'iter') and len(e.args) == 1 and not e.keywords:
                e = e.args[0]
            return e
        # the parameter itself may only be re-bound to a materialised copy of itself (phase_mol = tuple(phase_mol))
        pm_kept = all(isinstance(unwrap(v), ast.Name) and unwrap(v).id == pm for v in defs.get(pm, []))

        def is_pairs(e, depth=0):
            """the parameter holding the (phase, amounts) pairs, possibly materialised with tuple()/list()/iter() or kept in a local"""
            e = unwrap(e)
            if not isinstance(e, ast.Name):
                return False
            if e.id == pm:
                return pm_kept
            if depth < 3 and len(defs.get(e.id, [])) == 1:
                return is_pairs(defs[e.id][0], depth + 1)
            return False
        cand = []       # (target, iterable, term)
        for n in walk_no_nested(fn):
            if isinstance(n, ast.Call) and src(n.func) == 'sum' and n.args and isinstance(n.args[0], (ast.ListComp, ast.GeneratorExp)) \
                    and len(n.args[0].generators) == 1 and not n.args[0].generators[0].ifs:
                g = n.args[0].generators[0]
                cand.append((g.target, g.iter, n.args[0].elt))
            if isinstance(n, ast.For) and not n.orelse and len(n.body) == 1 and isinstance(n.body[0], ast.AugAssign) and isinstance(n.body[0].op, ast.Add) \
                    and isinstance(n.body[0].target, ast.Name):
                acc = n.body[0].target.id
                inits = [v for v in defs.get(acc, [])]
                if inits and all(isinstance(v, ast.Constant) and v.value == 0 for v in inits):
                    cand.append((n.target, n.iter, n.body[0].value))
        for st in fn.body:
            if isinstance(st, ast.Assign) and not any(isinstance(x, ast.Call) and src(x.func) == 'sum' for x in ast.walk(st.value)):
                lin.exec_stmt(st)
        if len(cand) == 1:
            tg, it, term = cand[0]
            if isinstance(tg, ast.Tuple) and len(tg.elts) == 2 and all(isinstance(e, ast.Name) for e in tg.elts) and is_pairs(it):
                a, b = (e.id for e in tg.elts)
                lin.env[a] = Form.atom('phase')
                lin.env[b] = Form.atom('mol')
                elt = lin.form(term)
                ok = elt == Form.atom('self.%s(phase, mol, %s, %s)' % (inner, f.params[2], f.params[3]))
        if ok:
            r3.ok('Mixture.' + name, 'sum over (phase, mol) of self.%s(phase, mol, T, P)' % inner, f)
        else:
            r3.fail('Mixture.' + name, 'value', 'not the sum over phases of self.%s' % inner, f, f.node)


def _enclosing(n):
    while n is not None and not isinstance(n, (ast.FunctionDef, ast.ClassDef)):
        n = getattr(n, '_parent', None)
    return n


# ---------------------------------------------------------------------------------------------------------------
# D4: the H / S functors freeze integrals of Cn, Hvap(Tb), Tm, Tb ... at construction.  They follow their inputs only
# if every method that changes an input rebuilds them.

def frozen_follow_inputs(ctx, rule):
    import copy as _copy
    from ..cfg import CFG, header_exprs
    from ..frontend import set_parents
    prog = ctx.prog
    c = prog.cls('Chemical', CH)
    rf = c.methods.get('reset_free_energies')
    if rf is None:
        raise AnalysisError('Chemical.reset_free_energies not found')
    frozen = set()
    builder = None
    for n in walk_no_nested(rf.node):
        if isinstance(n, ast.Call) and isinstance(n.func, ast.Attribute) and src(n.func.value) == 'self' and len(n.args) >= 5:
            fr = {a.attr for a in n.args if isinstance(a, ast.Attribute) and src(a.value) == 'self'}
            if len(fr) > len(frozen):
                frozen, builder = fr, n.func.attr
    ctx.anchor(len(frozen) >= 8, 'reset_free_energies: expected >= 8 frozen inputs, found %s' % sorted(frozen))
    bare = {x.lstrip('_') for x in frozen}
    CLEAN = {'reset_free_energies', builder}
    mod = c.module

    def opt_out_params(f):
        a = f.node.args
        pos = a.posonlyargs + a.args
        d = dict(zip([x.arg for x in pos[len(pos) - len(a.defaults):]], a.defaults))
        d.update({k.arg: v for k, v in zip(a.kwonlyargs, a.kw_defaults) if v is not None})
        names = {k for k, v in d.items() if isinstance(v, ast.Constant) and v.value is True}
        used = {n.test.id for n in walk_no_nested(f.node) if isinstance(n, ast.If) and isinstance(n.test, ast.Name)}
        return names & used

    class _Default(ast.NodeTransformer):
        def __init__(self, names):
            self.names = names

        def visit_If(self, node):
            self.generic_visit(node)
            if isinstance(node.test, ast.Name) and node.test.id in self.names:
                return node.body
            return node

    def may_be_frozen_handle(e, env, recv):
        """may e denote one of the frozen handles (Cn, Hvap, Psat ...) or a part of one?"""
        if isinstance(e, ast.Attribute) and src(e.value) == recv:
            return e.attr in frozen
        if isinstance(e, ast.Attribute):
            return may_be_frozen_handle(e.value, env, recv)
        if isinstance(e, ast.Name):
            return env.get(e.id, False)
        if isinstance(e, ast.Call) and src(e.func) in ('getattr', 'getfield') or isinstance(e, ast.Call) and isinstance(e.func, ast.Name) and env.get('@' + e.func.id):
            if not e.args:
                return False
            a0 = e.args[0]
            if src(a0) == recv:
                if len(e.args) > 1 and isinstance(e.args[1], ast.Constant):
                    return str(e.args[1].value) in frozen or str(e.args[1].value) in bare
                return True            # looked up by a computed name: may be any handle
            return may_be_frozen_handle(a0, env, recv)
        if isinstance(e, ast.Subscript):
            return may_be_frozen_handle(e.value, env, recv)
        return False

    def handle_env(fnode, recv):
        env = {}
        # local aliases of getattr
        for n in walk_no_nested(fnode):
            if isinstance(n, ast.Assign) and src(n.value) in ('getattr',) and isinstance(n.targets[0], ast.Name):
                env['@' + n.targets[0].id] = True
        changed = True
        while changed:
            changed = False
            for n in walk_no_nested(fnode):
                pairs = []
                if isinstance(n, ast.Assign):
                    for t in n.targets:
                        pairs.append((t, n.value))
                elif isinstance(n, ast.For):
                    pairs.append((n.target, n.iter))
                for t, v in pairs:
                    if not may_be_frozen_handle(v, env, recv):
                        continue
                    for x in ([t] if isinstance(t, ast.Name) else (t.elts if isinstance(t, ast.Tuple) else [])):
                        if isinstance(x, ast.Name) and not env.get(x.id):
                            env[x.id] = True
                            changed = True
        return env

    def fill_missing(st, field):
        """`if '<field>' in <names of missing properties>: self._field = default` -- the field was None before"""
        child, par = st, getattr(st, '_parent', None)
        while par is not None and not isinstance(par, (ast.FunctionDef, ast.AsyncFunctionDef, ast.ClassDef)):
            if isinstance(par, ast.If) and any(child is b for b in par.body) and isinstance(par.test, ast.Compare) and isinstance(par.test.ops[0], ast.In) \
                    and isinstance(par.test.left, ast.Constant) and str(par.test.left.value) == field.lstrip('_'):
                return True
            child, par = par, getattr(par, '_parent', None)
        return False

    funcs = {}
    for name, f in c.methods.items():
        if f.cls is c:
            funcs[name] = f
    for name, f in c.setters.items():
        if f.cls is c:
            funcs[name + '.setter'] = f
    helpers = {name: f for name, f in mod.functions.items() if f.params}
    dirty = {}          # name -> reason   (methods / module helpers that may return with stale functors)
    optout = {name: opt_out_params(f) for name, f in funcs.items()}

    def sites(f, recv, fnode):
        env = handle_env(fnode, recv)
        out = []
        for n in walk_no_nested(fnode):
            if isinstance(n, (ast.Assign, ast.AugAssign)):
                for t in (n.targets if isinstance(n, ast.Assign) else [n.target]):
                    if isinstance(t, ast.Attribute) and t.attr in ('method', 'method_P') and may_be_frozen_handle(t.value, env, recv):
                        out.append((n, 'selects another model of a frozen handle (%s)' % src(t)))
                    if isinstance(t, ast.Attribute) and src(t.value) == recv and t.attr in frozen:
                        st = n
                        if not fill_missing(st, t.attr):
                            out.append((n, 're-binds %s' % src(t)))
            if isinstance(n, ast.Call):
                fn_ = src(n.func)
                if isinstance(n.func, ast.Attribute) and n.func.attr in ('add_method', 'add_model') and may_be_frozen_handle(n.func.value, env, recv):
                    out.append((n, 'adds a model to a frozen handle (%s)' % fn_))
                if fn_ == 'reset_constant' and len(n.args) >= 2 and src(n.args[0]) == recv and isinstance(n.args[1], ast.Constant) \
                        and str(n.args[1].value) in bare:
                    out.append((n, 'changes the constant %s' % n.args[1].value))
                if isinstance(n.func, ast.Attribute) and src(n.func.value) == recv:
                    m = n.func.attr
                    if m in dirty:
                        out.append((n, 'calls %s.%s, which %s' % (recv, m, dirty[m])))
                    elif m in optout and any(k.arg in optout[m] and isinstance(k.value, ast.Constant) and k.value.value is False for k in n.keywords):
                        out.append((n, 'calls %s.%s with the rebuild switched off' % (recv, m)))
                if isinstance(n.func, ast.Name) and n.func.id in dirty and n.args and src(n.args[0]) == recv:
                    out.append((n, 'calls %s, which %s' % (n.func.id, dirty[n.func.id])))
        return out

    def analyse(name, f, recv):
        fnode = f.node
        oo = optout.get(name) or set()
        if oo:
            fnode = _Default(oo).visit(_copy.deepcopy(f.node))
            ast.fix_missing_locations(fnode)
            set_parents(fnode)
        ss = sites(f, recv, fnode)
        if not ss:
            return [], []
        cfg = CFG(fnode)
        bad = []
        for n, why in ss:
            st = n
            while not isinstance(st, ast.stmt):
                st = st._parent
            node = cfg.node_of(st)

            def clean(nd):
                if nd is node or nd.kind != 'stmt':
                    return False
                for h in header_exprs(nd):
                    for x in ast.walk(h):
                        if isinstance(x, ast.Call) and isinstance(x.func, ast.Attribute) and src(x.func.value) == recv:
                            m = x.func.attr
                            if m in CLEAN:
                                return True
                            if m in cleaners and not any(k.arg in (optout.get(m) or ()) for k in x.keywords):
                                return True
                return False
            okk, wit = cfg.must_pass(node, clean)
            if not okk:
                bad.append((st, why))
        return ss, bad

    cleaners = set()       # methods that rebuild on every normal path (at default arguments)
    for name, f in funcs.items():
        fnode = f.node
        oo = optout.get(name) or set()
        if oo:
            fnode = _Default(oo).visit(_copy.deepcopy(f.node))
            set_parents(fnode)
        cfg = CFG(fnode)

        def isclean(nd):
            if nd.kind != 'stmt':
                return False
            return any(isinstance(x, ast.Call) and isinstance(x.func, ast.Attribute) and src(x.func.value) == 'self' and x.func.attr in CLEAN
                       for h in header_exprs(nd) for x in ast.walk(h))
        okk, _ = cfg.must_pass(cfg.entry, isclean)
        if okk and name not in CLEAN:
            cleaners.add(name)
    results = {}
    changed = True
    while changed:
        changed = False
        for name, f in helpers.items():
            ss, bad = analyse(name, f, f.params[0])
            if bad and name not in dirty:
                dirty[name] = bad[0][1]
                changed = True
        for name, f in funcs.items():
            if name in CLEAN:
                continue
            ss, bad = analyse(name, f, 'self')
            results[name] = (f, ss, bad)
            key = name[:-7] if name.endswith('.setter') else name
            if bad and key not in dirty and not name.endswith('.setter'):
                dirty[key] = bad[0][1]
                changed = True
    # constructors: (transitively) build the handles from scratch; their callers choose whether to build the functors
    builds = {name for name, f in funcs.items() if any(isinstance(n, ast.Attribute) and isinstance(n.ctx, ast.Store) and src(n.value) == 'self'
                                                       and n.attr in frozen and not fill_missing(_stmt(n), n.attr) and f.name.startswith('_init')
                                                       for n in walk_no_nested(f.node))}
    ctor = set(builds)
    grew = True
    while grew:
        grew = False
        for name, f in funcs.items():
            if name in ctor:
                continue
            for n in walk_no_nested(f.node):
                if isinstance(n, ast.Call) and isinstance(n.func, ast.Attribute) and src(n.func.value) == 'self' and n.func.attr in ctor:
                    ctor.add(name)
                    grew = True
                    break
    n_ob = 0
    for name, (f, ss, bad) in sorted(results.items()):
        public = not name.startswith('_') or name == '__new__'
        if not ss or not public or name in ctor:
            continue
        n_ob += 1
        cons = 'Chemical.' + name
        if not bad:
            rule.ok(cons, '%d change(s) of frozen inputs (%s); the functors are rebuilt on every normal path afterwards' % (len(ss), ss[0][1]), f, ss[0][0])
        else:
            st, why = bad[0]
            rule.fail(cons, 'stale-functors', 'the method %s, but some normal path returns without reset_free_energies(): H and S keep the integrals and '
                      'phase-change terms of the previous models (the jump at Tb no longer equals Hvap(Tb))' % why, f, st)
    ctx.anchor(n_ob >= 6, 'Chemical: expected >= 6 public methods that change frozen inputs, found %d' % n_ob)


def _stmt(n):
    while not isinstance(n, ast.stmt):
        n = n._parent
    return n


def raw_optionals(ctx, rule):
    """_init_data resolves each optional argument against the database:  self._Tm = Tm or lookup(CAS).  From then on the ARGUMENT still
    holds what the caller passed (None for database chemicals).  A later value computed from the raw argument silently
    degenerates -- Sfus = None if Hfus is None ... made the entropy of fusion None for every database chemical."""
    prog = ctx.prog
    f = prog.method('Chemical', '_init_data', rel=CH)
    params = set(f.params[1:])
    body = [n for n in walk_no_nested(f.node) if isinstance(n, ast.Assign)]
    resolved = {}      # parameter -> the statement that resolves it into a field without re-binding the local
    for n in body:
        flds = [t for t in n.targets if isinstance(t, ast.Attribute) and src(t.value) == 'self']
        names = [t.id for t in n.targets if isinstance(t, ast.Name)]
        if not flds:
            continue
        v = n.value
        cands = []
        if isinstance(v, ast.BoolOp) and isinstance(v.op, ast.Or) and isinstance(v.values[0], ast.Name):
            cands.append(v.values[0].id)
        if isinstance(v, ast.IfExp) and isinstance(v.test, ast.Compare) and isinstance(v.test.left, ast.Name) \
                and isinstance(v.test.comparators[0], ast.Constant) and v.test.comparators[0].value is None:
            cands.append(v.test.left.id)
        for p_ in cands:
            if p_ in params and p_ not in names and p_ not in resolved:
                resolved[p_] = (n, src(flds[0]))
    if len(resolved) < 2:
        raise AnalysisError('Chemical._init_data: expected >= 2 optional arguments resolved into fields, found %s' % sorted(resolved))
    for p_, (st, fld) in sorted(resolved.items()):
        later = [x for n in body if n.lineno > st.lineno for x in ast.walk(n.value) if isinstance(x, ast.Name) and x.id == p_ and isinstance(x.ctx, ast.Load)]
        # re-binding of the local after resolution makes later reads fine
        rebound = [n for n in body if n.lineno > st.lineno and any(isinstance(t, ast.Name) and t.id == p_ for t in n.targets)]
        later = [x for x in later if not any(r.lineno < x.lineno for r in rebound)]
        if later:
            rule.fail('Chemical._init_data', 'raw-optional-' + p_, 'the optional argument %s was resolved into %s, yet a later value is still computed from the raw argument '
                      '(None unless the caller supplied it): for chemicals taken from the database that value degenerates' % (p_, fld), f, later[0])
        else:
            rule.ok('Chemical._init_data', 'after %s is resolved into %s nothing is computed from the raw argument' % (p_, fld), f, st)
