"""C06 -- heat of reaction and adiabatic reaction (structural clauses)."""
from __future__ import annotations
import ast
from ..frontend import AnalysisError, src, walk_no_nested
from ..symx import run_paths
from ..lin import Form, Lin

MANIFEST = {
    'technique': 'symbolic linear forms of Reaction.dH, Stream.Hf/Hnet and adiabatic_reaction; extraction of the latent-heat decision table and check that it is a '
            'potential difference; statement-order rule; the ordering rule is applied to every normal path; conversion read through the X property',
    'text': 'Decides for every input: dH is X*sum((Hf+latent)*S) (divided by MW on a weight basis); the 6-entry latent-heat table over (reference phase, reaction '
            'phase) equals h[phase]-h[ref] for h={s:0,l:Hfus,g:Hfus+Hvap}; adiabatic_reaction reads Hnet+Q before reacting and Hf after and assigns H = Hnet+Q-Hf '
            'on EVERY normal path (no exit after the reaction without the assignment); Hnet getter and setter are inverse and Hf is sum(Hf_i*n_i). dH reads the '
            "conversion through self.X (for an item of a reaction set self._X is the whole set's array). Numerical agreement and model ranges are not decided.",
}

RX = 'thermosteam/reaction/_reaction.py'
ST = 'thermosteam/_stream.py'
CHS = 'thermosteam/_chemicals.py'


def run(ctx):
    prog = ctx.prog
    ctx.decided = [
        'D1 Reaction.dH = X * sum((Hf + latent) * S), /MW on weight basis',
        'D2 latent table is h[phase]-h[phase_ref] with h={s:0,l:Hfus,g:Hfus+Hvap} (antisymmetric, transitive)',
        'D3 adiabatic_reaction: Hnet+Q read before the reaction, Hf after, H <- Hnet+Q-Hf',
        'D4 Stream.Hf = sum(chemicals.Hf*mol); Hnet getter/setter inverse; CompiledChemicals.Hf is the per-chemical Hf array',
    ]
    ctx.not_decided = ['numerical agreement of the enthalpy change with dH', 'property-model range']
    d1 = ctx.rule('D1', 'dH linear form', floor=3)
    d2 = ctx.rule('D2', 'latent heat table is a potential difference', floor=6)
    d3 = ctx.rule('D3', 'adiabatic_reaction ordering and closure', floor=3)
    d4 = ctx.rule('D4', 'Hf / Hnet definitions', floor=4)

    f = prog.method('Reaction', 'dH', rel=RX)
    # ---- D2: extract table
    table = {}
    defs = {}
    for n in walk_no_nested(f.node):
        if isinstance(n, ast.Assign) and len(n.targets) == 1 and isinstance(n.targets[0], ast.Name):
            defs.setdefault(n.targets[0].id, []).append(n.value)
    lat = [k for k, v in defs.items() if any(isinstance(x, ast.Call) and src(x.func) == 'np.zeros_like' for x in v)]
    if len(lat) != 1:
        raise AnalysisError('Reaction.dH: latent-heat array not found')
    LAT = lat[0]
    ref_names = {k for k, v in defs.items() if any(src(x).endswith('.phase_ref') for x in v)}
    loops = [n for n in walk_no_nested(f.node) if isinstance(n, ast.For) and isinstance(n.iter, ast.Call) and src(n.iter.func) == 'enumerate'
             and isinstance(n.target, ast.Tuple) and len(n.target.elts) == 2]
    ph_loop = [l for l in loops if src(l.iter.args[0]) in ('self.phases', 'phases')]
    ch_loop = [l for l in loops if l not in ph_loop]
    if not ph_loop or not ch_loop:
        raise AnalysisError('Reaction.dH: (phase, chemical) loops not found')
    i_name, phase_name = (t.id for t in ph_loop[0].target.elts)
    j_name, chem_name = (t.id for t in ch_loop[0].target.elts)

    def walk_if(node, conds):
        if isinstance(node, ast.If):
            walk_body(node.body, conds + [(node.test, True)])
            walk_body(node.orelse, conds + [(node.test, False)])
        elif isinstance(node, ast.Assign) and isinstance(node.targets[0], ast.Subscript) \
                and src(node.targets[0].value) == LAT:
            pr = ph = None
            for t, taken in conds:
                if taken and isinstance(t, ast.Compare) and isinstance(t.ops[0], ast.Eq) and isinstance(t.comparators[0], ast.Constant):
                    if src(t.left) in ref_names:
                        pr = t.comparators[0].value
                    elif src(t.left) == phase_name:
                        ph = t.comparators[0].value
            table[(pr, ph)] = (node, conds)
        elif isinstance(node, (ast.For,)):
            walk_body(node.body, conds)

    def walk_body(stmts, conds):
        for s in stmts:
            walk_if(s, conds)
    walk_body(f.node.body, [])
    h = {'s': Form(), 'l': Form.atom('Hfus'), 'g': Form.atom('Hfus') + Form.atom('Hvap')}

    def hook(node, lin):
        s = src(node)
        if s.startswith('%s.Hvap(' % chem_name):
            return Form.atom('Hvap')
        return None

    def attr_hook(node, lin):
        if src(node) == '%s.Hfus' % chem_name:
            return Form.atom('Hfus')
        return None
    for pr in 'slg':
        for ph in 'slg':
            if pr == ph:
                continue
            ent = table.get((pr, ph))
            cons = 'Reaction.dH[latent %s->%s]' % (pr, ph)
            if ent is None:
                d2.fail(cons, 'missing', 'no latent-heat entry for reference phase %r and reaction phase %r' % (pr, ph), f, f.node)
                continue
            got = Lin(call_hook=hook, attr_hook=attr_hook).form(ent[0].value)
            want = h[ph] - h[pr]
            if got == want:
                d2.ok(cons, 'latent = %s = h[%s]-h[%s]' % (got.pretty(), ph, pr), f, ent[0])
            else:
                d2.fail(cons, 'value', 'latent heat is %s, expected h[%s]-h[%s] = %s' % (got.pretty(), ph, pr, want.pretty()), f, ent[0])
    # the index written is [phase row, chemical column] of the loops
    idx_ok = bool(table) and all(src(n.targets[0].slice).strip('()') == '%s, %s' % (i_name, j_name) for n, c in table.values())
    if idx_ok:
        d2.ok('Reaction.dH[latent index]', 'entries are written at [phase row i, chemical j] of the enumerate loops', f)
    else:
        d2.fail('Reaction.dH[latent index]', 'index', 'latent entries are not written at [i, j] of the (phase, chemical) loops', f, f.node)

    # ---- D1
    for phases, wt in ((False, False), (False, True), (True, False), (True, True)):
        def decide(t, st, phases=phases, wt=wt):
            s = src(t)
            if st is not None and hasattr(st, 'lin'):
                try:
                    rs = st.lin.text(t)
                except Exception:
                    rs = s
            else:
                rs = s
            if rs in ('self.phases', 'phases') or s == 'phases':
                return phases
            if s == "self._basis == 'wt'":
                return wt
            if isinstance(t, ast.BoolOp) or (isinstance(t, ast.Compare) and isinstance(t.comparators[0], ast.Constant)
                                             and isinstance(t.comparators[0].value, str) and t.comparators[0].value in 'slg'):
                return False
            return None
        ps, _ = run_paths(f.node, decide=decide)
        ps = [p for p in ps if not p.raised]
        cons = 'Reaction.dH[phases=%s,wt=%s]' % (phases, wt)
        if len(ps) != 1 or ps[0].ret is None:
            d1.fail(cons, 'shape', 'dH has %d normal paths under these flags' % len(ps), f, f.node)
            continue
        hf = 'self.chemicals.Hf'
        S = 'self._stoichiometry.to_array()'
        want = Form.atom(hf)
        if phases:
            want = want + Form.atom('np.zeros_like(%s)' % S)
        if wt:
            want = want * Form({(('self.MWs', -1),): 1})
        prod = want * Form.atom(S)
        # the conversion is read through the X property: for an item of a reaction set self._X is the set's whole array
        want_ret = Form.atom('self.X') * Form.atom('(%s).sum()' % prod.pretty())
        if ps[0].ret == want_ret:
            d1.ok(cons, 'dH = self.X * ((%s) * S).sum()' % want.pretty(), f, ps[0].ret_node)
        elif ps[0].ret == Form.atom('self._X') * Form.atom('(%s).sum()' % prod.pretty()):
            d1.fail(cons, 'conversion-representation', 'dH multiplies by self._X; ReactionItem inherits dH and its _X is the conversion ARRAY of the whole set (its own '
                    'conversion is self.X = self._X[self._index]), so an item reports an array of heats', f, ps[0].ret_node)
        else:
            d1.fail(cons, 'form', 'dH is not X*sum((Hf+latent)*S%s): returns %s' % ('/MW' if wt else '', ps[0].ret.pretty()), f, ps[0].ret_node)

    # ---- D3
    g = prog.method('Reaction', 'adiabatic_reaction', rel=RX)
    ps, _ = run_paths(g.node)
    ps = [p for p in ps if not p.raised]
    if not ps:
        raise AnalysisError('Reaction.adiabatic_reaction: no normal path')
    s = g.params[1]
    for i, p in enumerate(ps):
        # EVERY normal exit must close the balance: a path that leaves without assigning H drops Q and the heat of reaction
        ev = p.events
        a = [e for e in ev if e.kind == 'assign' and e.value == Form.atom('%s.Hnet' % s) + Form.atom('Q')]
        c = [e for e in ev if e.kind == 'call' and e.target == 'self' and e.value == [Form.atom(s)]]
        st = [e for e in ev if e.kind == 'store' and e.target == '%s.H' % s]
        # the same closure through the Hnet setter (H <- Hnet - Hf, decided by D4): stream.Hnet = Hnet_before + Q after the reaction
        via = [e for e in ev if e.kind == 'store' and e.target == '%s.Hnet' % s]
        if a and c and via and not st and ev.index(a[0]) < ev.index(c[0]) < ev.index(via[0]) \
                and via[0].value == Form.atom('%s.Hnet' % s) + Form.atom('Q'):
            d3.ok('Reaction.adiabatic_reaction', 'Hnet+Q is read before the reaction is applied', g, a[0].stmt)
            d3.ok('Reaction.adiabatic_reaction', 'Hnet <- (Hnet before + Q) after the reaction: the Hnet setter stores H <- Hnet - Hf with Hf read then (D4)', g, via[0].stmt)
            if len([e for e in ev if e.kind == 'call' and e.target == 'self']) == 1:
                d3.ok('Reaction.adiabatic_reaction', 'the reaction is applied exactly once', g, c[0].stmt)
            else:
                d3.fail('Reaction.adiabatic_reaction', 'twice', 'the reaction is applied more than once', g, g.node)
            continue
        if c and not st:
            d3.fail('Reaction.adiabatic_reaction', 'exit-without-closure',
                    'a path applies the reaction and returns without assigning H: Q and the heat of reaction are dropped on it (taken when %s)'
                    % ' and '.join('%s is %s' % (src(t), k) for t, k in p.conds[-2:]), g, p.ret_node or g.node)
            continue
        if a and c and st and ev.index(a[0]) < ev.index(c[0]) < ev.index(st[0]):
            d3.ok('Reaction.adiabatic_reaction', 'Hnet+Q is read before the reaction is applied', g, a[0].stmt)
            # where is the Hf that enters the stored value read?  In the store itself, or in a local assigned after the reaction was applied
            def hf_read_after(expr, upto, depth=0):
                if '%s.Hf' % s in src(expr):
                    return True
                if depth > 2:
                    return False
                for x in ast.walk(expr):
                    if isinstance(x, ast.Name):
                        defs_ = [e for e in ev[:upto] if e.kind == 'assign' and e.target == x.id and isinstance(e.stmt, ast.Assign)]
                        if defs_ and ev.index(defs_[-1]) > ev.index(c[0]) and hf_read_after(defs_[-1].stmt.value, ev.index(defs_[-1]), depth + 1):
                            return True
                return False
            if st[0].value == Form.atom('%s.Hnet' % s) + Form.atom('Q') - Form.atom('%s.Hf' % s) \
                    and hf_read_after(st[0].stmt.value, ev.index(st[0])):
                d3.ok('Reaction.adiabatic_reaction', 'H <- (Hnet+Q) - Hf with Hf read after the reaction', g, st[0].stmt)
            else:
                d3.fail('Reaction.adiabatic_reaction', 'closure', 'H is assigned %s, expected Hnet+Q-Hf(after)' % st[0].value, g, st[0].stmt)
            if len([e for e in ev if e.kind == 'call' and e.target == 'self']) == 1:
                d3.ok('Reaction.adiabatic_reaction', 'the reaction is applied exactly once', g, c[0].stmt)
            else:
                d3.fail('Reaction.adiabatic_reaction', 'twice', 'the reaction is applied more than once', g, g.node)
        else:
            d3.fail('Reaction.adiabatic_reaction', 'order', 'not (read Hnet+Q; react; assign H): Hnet must be read before and Hf after the reaction', g, g.node)

    # ---- D4
    hn = prog.method('Stream', 'Hnet', rel=ST)
    ps, _ = run_paths(hn.node)
    if len(ps) == 1 and ps[0].ret == Form.atom('self.H') + Form.atom('self.Hf'):
        d4.ok('Stream.Hnet', 'Hnet = H + Hf', hn)
    else:
        d4.fail('Stream.Hnet', 'getter', 'Hnet is not H + Hf', hn, hn.node)
    hs = prog.method('Stream', 'Hnet', setter=True, rel=ST)
    ps, _ = run_paths(hs.node)
    st = [e for e in ps[0].events if e.kind == 'store']
    if len(ps) == 1 and len(st) == 1 and st[0].target == 'self.H' and st[0].value == Form.atom(hs.params[1]) - Form.atom('self.Hf'):
        d4.ok('Stream.Hnet.setter', 'H <- Hnet - Hf (inverse of the getter)', hs)
    else:
        d4.fail('Stream.Hnet.setter', 'setter', 'setter is not H <- Hnet - Hf', hs, hs.node)
    hf = prog.method('Stream', 'Hf', rel=ST)
    ps, _ = run_paths(hf.node)
    rn = ps[0].ret_node.value if ps[0].ret_node is not None else None
    if rn is not None:
        from ..resolve import resolved, path_defs
        rn = resolved(rn, path_defs(ps[0]))
    if len(ps) == 1 and rn is not None and src(rn) in ('(self.chemicals.Hf * self.mol).sum()', '(self.mol * self.chemicals.Hf).sum()'):
        d4.ok('Stream.Hf', 'Hf = sum(chemicals.Hf * mol)', hf)
    else:
        d4.fail('Stream.Hf', 'form', 'Hf is not sum(chemicals.Hf*mol)', hf, hf.node)
    cc = prog.method('CompiledChemicals', '_compile', rel=CHS)
    found = False
    dict_names = set()
    for n in walk_no_nested(cc.node):
        if isinstance(n, ast.Assign) and src(n.value) == 'self.__dict__':
            dict_names |= {t.id for t in n.targets if isinstance(t, ast.Name)}
    for n in walk_no_nested(cc.node):
        if isinstance(n, ast.Assign) and isinstance(n.targets[0], ast.Subscript) and src(n.targets[0].value) in dict_names \
                and src(n.targets[0].slice) == "'Hf'":
            found = src(n.value) == "chemical_data_array(%s, 'Hf')" % cc.params[1]
    if found:
        d4.ok('CompiledChemicals._compile', "Hf array = chemical_data_array(chemicals, 'Hf')", cc)
    else:
        d4.fail('CompiledChemicals._compile', 'Hf-array', 'the compiled Hf array is not built from each chemical\'s Hf', cc, cc.node)
