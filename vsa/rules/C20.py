"""C20 -- separation helpers close the material balance (structural clauses)."""
from __future__ import annotations
import ast, re
from ..frontend import AnalysisError, src, walk_no_nested
from ..symx import run_paths
from ..lin import Form, Lin
from ..cfg import CFG
from ..pathcond import implied

MANIFEST = {
    'technique': 'cell-wise symbolic interpretation (D-lin) of the moisture adjustment: net change of retentate + permeate must be zero on every path; closure-by-complement and ordering rules for partition; linear-form check of the efficiency mixing; clamp-before-write; provenance of the phase rows copied by the wrappers',
    'text': 'Decides for every input: partition writes top = feed - bottom after every store into bottom; mix_and_split is mix_from followed by split_to on '
            'the mixed stream (C01); in adjust_moisture_content the change of the retentate plus the change of the permeate is symbolically zero on '
            'every path including the non-strict repair; the LLE efficiency mixing yields top+bottom = eta(top+bottom)+(1-eta)feed; the VLE/LLE wrappers '
            'copy the two phase rows of one and the same multi-stream into the two outlets; phase_split pairs phases with outlets after the length '
            'test; infeasible bottom flows are clamped into [0, feed] before they are stored; material_balance scales each variable inlet by its own '
            'factor. Reproduction of K, reached moisture and solver accuracy are not decided.',
}

SEP = 'thermosteam/separations.py'
CELL = re.compile(r'^(retentate|permeate)\.i(mol|mass)\[.*\]$')


def run(ctx):
    prog = ctx.prog
    ctx.decided = [
        'D1 closure: partition complement is the last material store; mix_and_split; moisture adjustment net change zero; lle efficiency mixing; wrappers copy both rows of one multi-stream; phase_split pairing',
        'D2 infeasible flows clamped into [0, feed] before being stored',
        'D3 material_balance scales each variable inlet with its own factor',
    ]
    ctx.not_decided = ['that the given partition coefficients are reproduced', 'that the requested moisture is reached', 'linear-solve accuracy']
    d1 = ctx.rule('D1', 'closure of the balance', floor=10)
    d2 = ctx.rule('D2', 'clamp before write', floor=3)
    d3 = ctx.rule('D3', 'each inlet scaled by its own factor', floor=2)
    partition_rule(ctx, d1, d2)
    mix_split_rule(ctx, d1)
    moisture_rule(ctx, d1)
    wrappers_rule(ctx, d1)
    balance_rule(ctx, d3)


def partition_rule(ctx, d1, d2):
    prog = ctx.prog
    f = prog.func(SEP, 'partition')
    ps, _ = run_paths(f.node, max_paths=4000)
    n = 0
    bad = None
    for p in ps:
        if p.raised:
            continue
        n += 1
        mat = [e for e in p.events if e.kind in ('store', 'augstore') and re.match(r'^(top|bottom)\.(imol|mol)\[', e.target)]
        if not mat:
            bad = 'no material stores'
            continue
        last = mat[-1]
        if not (last.target == 'top.mol[::]' and src(last.stmt.value) == 'feed_mol - bottom.mol'):
            bad = 'the last material store is %s = %s, not top.mol[:] = feed - bottom.mol' % (last.target, src(last.stmt.value))
        fm = p.lin.env.get('feed_mol')
        if fm != Form.atom('feed.mol'):
            bad = 'feed_mol is not the feed\'s molar flow'
    if bad:
        d1.fail('partition', 'complement-not-last', bad, f, f.node)
    else:
        d1.ok('partition', 'on all %d paths the last material store is top.mol[:] = feed.mol - bottom.mol (closure by complement)' % n, f)
    # forced chemicals: (top, bottom) = (feed, 0) and (0, feed)
    for side, other in (('top', 'bottom'), ('bottom', 'top')):
        blk = [x for x in walk_no_nested(f.node) if isinstance(x, ast.If) and src(x.test) == side + '_chemicals']
        okk = False
        if blk:
            t = ' '.join(ast.unparse(ast.Module(body=blk[0].body, type_ignores=[])).split())
            okk = ('%s.imol[%s_chemicals] = %s_flows = feed.imol[%s_chemicals]' % (side, side, side, side)) in t \
                and ('%s.imol[%s_chemicals] = 0' % (other, side)) in t
        if okk:
            d1.ok('partition', 'chemicals forced to the %s: (%s, %s) = (feed, 0)' % (side, side, other), f, blk[0])
        else:
            d1.fail('partition', 'forced-' + side, 'chemicals forced to the %s are not written as (feed, 0)' % side, f, f.node)
    # D2 clamp before store
    calls = [x for x in walk_no_nested(f.node) if isinstance(x, ast.Call) and src(x.func) == 'handle_infeasible_flow_rates']
    stores = [x for x in walk_no_nested(f.node) if isinstance(x, ast.Assign) and src(x.targets[0]) == 'bottom.imol[IDs]' and src(x.value) == 'bottom_mol']
    if calls and stores and src(calls[0].args[0]) == 'bottom_mol' and src(calls[0].args[1]) == 'mol' and calls[0].lineno < stores[0].lineno:
        d2.ok('partition', 'bottom_mol is clamped against the feed amounts before it is stored', f, stores[0])
    else:
        d2.fail('partition', 'no-clamp', 'the computed bottom flows are stored without being clamped into [0, feed]', f, f.node)
    h = prog.func(SEP, 'handle_infeasible_flow_rates')
    t = ' '.join(ast.unparse(h.node).split())
    lo = 'infeasible_index, = np.where(mol < 0.0)' in t and 'mol[infeasible_index] = 0.0' in t
    hi = 'infeasible_index, = np.where(mol > maxmol)' in t and 'mol[infeasible_index] = maxmol[infeasible_index]' in t
    if lo:
        d2.ok('handle_infeasible_flow_rates', 'negative flows are set to 0', h)
    else:
        d2.fail('handle_infeasible_flow_rates', 'lower', 'negative flows are not zeroed', h, h.node)
    if hi:
        d2.ok('handle_infeasible_flow_rates', 'flows above the available amount are set to it', h)
    else:
        d2.fail('handle_infeasible_flow_rates', 'upper', 'flows above the feed are not clamped', h, h.node)
    ck = [x for x in walk_no_nested(h.node) if isinstance(x, ast.Expr) and 'check_partition_infeasibility' in src(x.value)]
    if len(ck) == 2:
        d2.ok('handle_infeasible_flow_rates', 'infeasibility is reported (strict: raise) before each clamp', h)
    else:
        d2.fail('handle_infeasible_flow_rates', 'report', 'infeasibility is not reported for both bounds', h, h.node)


def mix_split_rule(ctx, d1):
    prog = ctx.prog
    f = prog.func(SEP, 'mix_and_split')
    ps, _ = run_paths(f.node)
    ev = [e for e in ps[0].events if e.kind == 'call']
    okk = len(ev) == 2 and ev[0].target == 'top.mix_from' and ev[0].value == [Form.atom('ins')] \
        and ev[1].target == 'top.split_to' and [a.pretty() for a in ev[1].value] == ['top', 'bottom', 'split']
    if okk:
        d1.ok('mix_and_split', 'top.mix_from(ins) then top.split_to(top, bottom, split): closes by C01', f)
    else:
        d1.fail('mix_and_split', 'shape', 'not mix_from followed by split_to of the mixed stream', f, f.node)
    g = prog.func(SEP, 'mix_and_split_with_moisture_content')
    ps, _ = run_paths(g.node)
    ev = [e.target for e in ps[0].events if e.kind == 'call']
    if ev == ['mix_and_split', 'adjust_moisture_content']:
        d1.ok('mix_and_split_with_moisture_content', 'mix_and_split then adjust_moisture_content', g)
    else:
        d1.fail('mix_and_split_with_moisture_content', 'shape', 'unexpected call sequence %s' % ev, g, g.node)


class CellInterp:
    """symbolic interpreter for one path: tracks the current value of the retentate and permeate cells"""

    def __init__(self):
        self.cur = {'retentate': Form.atom('R0'), 'permeate': Form.atom('P0')}
        self.env = {}
        self.unit = {}     # owner -> 'mol'/'mass' of the last access (conversion by MW is a constant per cell)

    def lin(self):
        def attr_hook(node, lin):
            return None
        L = Lin(self.env, call_hook=None, attr_hook=None)
        L_form = L.form

        def form(node):
            if isinstance(node, ast.Subscript):
                base = src(node.value)
                m = re.match(r'^(retentate|permeate)\.i(mol|mass)$', base)
                if m:
                    return self.cur[m.group(1)]
            return L_form(node)
        L.form = form
        return L

    def run(self, events):
        for e in events:
            st = e.stmt
            if e.kind == 'assign' and isinstance(st, ast.Assign) and len(st.targets) == 1 and isinstance(st.targets[0], ast.Name):
                self.env[st.targets[0].id] = self.lin().form(st.value)
            elif e.kind == 'store' and isinstance(st, ast.Assign):
                v = self.lin().form(st.value)
                for t in st.targets:
                    if isinstance(t, ast.Name):
                        self.env[t.id] = v
                    elif isinstance(t, ast.Subscript):
                        m = re.match(r'^(retentate|permeate)\.i(mol|mass)$', src(t.value))
                        if m:
                            self.cur[m.group(1)] = v
            elif e.kind == 'augstore' and isinstance(st, ast.AugAssign) and isinstance(st.target, ast.Subscript):
                m = re.match(r'^(retentate|permeate)\.i(mol|mass)$', src(st.target.value))
                if m:
                    v = self.lin().form(st.value)
                    o = m.group(1)
                    if isinstance(st.op, ast.Sub):
                        self.cur[o] = self.cur[o] - v
                    elif isinstance(st.op, ast.Add):
                        self.cur[o] = self.cur[o] + v
                    else:
                        self.cur[o] = Form.atom('?')


def moisture_rule(ctx, d1):
    prog = ctx.prog
    f = prog.func(SEP, 'adjust_moisture_content')
    ps, _ = run_paths(f.node, max_paths=4000)
    seen = {}
    for p in ps:
        if p.raised:
            continue
        # the basis (mol vs mass) is fixed per path: both cells are accessed in the same basis within a branch
        ci = CellInterp()
        # handle chained `retentate.imol[key] = water = expr` : symx records a store event for the cell and an assign for the name
        done = set()
        evs = []
        for e in p.events:
            if e.kind in ('assign', 'store', 'augstore') and id(e.stmt) not in done:
                done.add(id(e.stmt))
                evs.append(e if e.kind != 'assign' or not any(isinstance(t, ast.Subscript) for t in getattr(e.stmt, 'targets', [])) else
                           type(e)('store', e.stmt, e.target, e.value, node=e.node))
        ci.run(evs)
        total = ci.cur['retentate'] + ci.cur['permeate']
        want = Form.atom('R0') + Form.atom('P0')
        by_id = implied(p.conds, lambda x: src(x) == 'ID is None')
        repaired = any(e.kind == 'store' and e.target.startswith('permeate.') and e.value.is_zero() for e in p.events)
        key = ('water-by-mol' if by_id else 'by-mass', 'non-strict repair' if repaired else 'no repair')
        # the mass-basis repair mixes imass (adjustment) and imol (repair) accesses of the same cell: the ratio is a constant
        okk = (total == want)
        prev = seen.get(key)
        seen[key] = (okk if prev is None else (prev[0] and okk), total, p)
    if not seen:
        raise AnalysisError('adjust_moisture_content: no normal path')
    for key, (okk, total, p) in sorted(seen.items()):
        cons = 'adjust_moisture_content[%s, %s]' % key
        if okk:
            d1.ok(cons, 'retentate + permeate after = R0 + P0 (net change zero)', f)
        else:
            rep = [e for e in p.events if e.kind == 'augstore' and e.target.startswith('retentate.')]
            d1.fail('adjust_moisture_content[%s]' % key[1], 'net-change',
                    'retentate + permeate after the call is %s, not R0 + P0: material is created or lost' % total.pretty(),
                    f, rep[-1].stmt if rep else f.node)


def wrappers_rule(ctx, d1):
    prog = ctx.prog
    for name, rows, outs in (('vle', ("'g'", "'l'"), ('vap', 'liq')), ('lle', ('top_phase', 'bottom_phase'), ('top', 'bottom'))):
        f = prog.func(SEP, name)
        st = {}
        for n in walk_no_nested(f.node):
            if isinstance(n, ast.Assign) and isinstance(n.targets[0], ast.Subscript) and src(n.targets[0]).endswith('.mol[:]'):
                st[src(n.targets[0].value.value)] = src(n.value)
        okk = all(st.get(o) == 'ms.imol[%s]' % r for o, r in zip(outs, rows))
        if okk:
            d1.ok(name, '%s.mol[:] = ms.imol[%s] and %s.mol[:] = ms.imol[%s]: both outlets come from the two rows of the same multi-stream'
                  % (outs[0], rows[0], outs[1], rows[1]), f)
        else:
            d1.fail(name, 'rows', 'the outlets are not filled from the two phase rows of one multi-stream: %s' % st, f, f.node)
        # ms is a copy of the feed (or the given multi-stream after copy_like(feed))
        t = ' '.join(ast.unparse(f.node).split())
        if 'ms.copy_like(feed)' in t and 'ms = feed.copy()' in t:
            d1.ok(name, 'equilibrium runs on a copy of the feed', f)
        else:
            d1.fail(name, 'feed-copy', 'the equilibrium is not run on a copy of the feed', f, f.node)
    f = prog.func(SEP, 'lle')
    # phases: the two labels are distinct rows of ms (unpacked from ms.phases or swapped to ('l','L'))
    t = ' '.join(ast.unparse(f.node).split())
    if "top_phase, bottom_phase = ms.phases" in t and "top_phase = 'l'" in t and "bottom_phase = 'L'" in t:
        d1.ok('lle', 'top/bottom labels are the two phases of ms (either order)', f)
    else:
        d1.fail('lle', 'labels', 'top and bottom labels are not the two distinct phases of the multi-stream', f, f.node)
    # efficiency mixing in D-lin
    blk = [x for x in walk_no_nested(f.node) if isinstance(x, ast.If) and src(x.test).startswith('efficiency <')]
    okk = False
    if blk:
        env = {'top.mol': Form.atom('t'), 'bottom.mol': Form.atom('b')}
        cur = {'top': Form.atom('t'), 'bottom': Form.atom('b')}
        loc = {}
        good = True
        for s_ in blk[0].body:
            if isinstance(s_, ast.AugAssign) and src(s_.target) in ('top.mol', 'bottom.mol'):
                o = src(s_.target).split('.')[0]
                L = Lin(loc)
                v = L.form(s_.value)
                if isinstance(s_.op, ast.Mult):
                    cur[o] = cur[o] * v
                elif isinstance(s_.op, ast.Add):
                    cur[o] = cur[o] + v
                else:
                    good = False
            elif isinstance(s_, ast.Assign) and isinstance(s_.targets[0], ast.Name):
                loc[s_.targets[0].id] = Lin(loc).form(s_.value)
            else:
                good = False
        eta = Form.atom('efficiency')
        want = eta * (Form.atom('t') + Form.atom('b')) + (Form.const(1) - eta) * Form.atom('feed.mol')
        okk = good and (cur['top'] + cur['bottom']) == want
    if okk:
        d1.ok('lle', 'efficiency mixing: top + bottom = eta*(top+bottom) + (1-eta)*feed', f, blk[0])
    else:
        d1.fail('lle', 'efficiency', 'the efficiency mixing does not preserve the total', f, f.node)
    g = prog.func(SEP, 'phase_split')
    t = ' '.join(ast.unparse(g.node).split())
    if 'if len(outlets) != len(phases): raise RuntimeError' in t and 'for i, j in zip(feed, outlets): j.copy_like(i)' in t:
        d1.ok('phase_split', 'after the length test each phase view of the feed is copied to its own outlet', g)
    else:
        d1.fail('phase_split', 'pairing', 'phases are not paired one-to-one with outlets after a length test', g, g.node)


def balance_rule(ctx, d3):
    prog = ctx.prog
    f = prog.func(SEP, 'material_balance')
    loops = [n for n in walk_no_nested(f.node) if isinstance(n, ast.For) and isinstance(n.iter, ast.Call) and src(n.iter.func) == 'zip'
             and len(n.iter.args) == 2 and src(n.iter.args[1]) == 'variable_inlets']
    if len(loops) != 2:
        d3.fail('material_balance', 'loops', 'expected two scaling loops over zip(factors, variable_inlets)', f, f.node)
        return
    # the matrix columns are built from the same list in the same order
    cols = [n for n in walk_no_nested(f.node) if isinstance(n, ast.Assign) and src(n.targets[0]) == 'inlet_mols']
    col_ok = bool(cols) and 'for s in variable_inlets' in src(cols[0].value) or any('variable_inlets' in ast.unparse(c.value) for c in cols)
    for lp in loops:
        fac, s = (t.id for t in lp.target.elts)
        b = lp.body[0]
        okk = isinstance(b, ast.Assign) and src(b.value) == '%s.mol * %s' % (s, fac) and src(b.targets[0]) in ('%s.mol[:]' % s, '%s.mol' % s)
        if okk and col_ok:
            d3.ok('material_balance', 'each variable inlet is multiplied by the factor solved for its own column (%s)' % src(lp.iter), f, lp)
        else:
            d3.fail('material_balance', 'scaling', 'variable inlets are not each scaled by their own solved factor', f, lp)
