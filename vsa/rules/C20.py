"""C20 -- separation helpers close the material balance (structural clauses)."""
from __future__ import annotations
import ast, re
from ..frontend import AnalysisError, src, walk_no_nested
from ..symx import run_paths
from ..lin import Form, Lin
from ..cfg import CFG
from ..pathcond import implied

MANIFEST = {
    'technique': 'cell-wise symbolic interpretation (D-lin) of the moisture adjustment: net change of retentate + permeate must be zero on every path; '
            'closure-by-complement and ordering rules for partition; linear-form check of the efficiency mixing; clamp-before-write; provenance of the phase rows '
            'copied by the wrappers; the C01 split-closure and C12 views-attached rules for the streams the helpers delegate to; polynomial identity on the '
            'partition denominator; whole-write-before-complement rule',
    'text': 'Decides for every input: partition writes top = feed - bottom after every store into bottom; mix_and_split is mix_from followed by split_to on the '
            'mixed stream (C01); in adjust_moisture_content the change of the retentate plus the change of the permeate is symbolically zero on every path '
            'including the non-strict repair; the LLE efficiency mixing yields top+bottom = eta(top+bottom)+(1-eta)feed; the VLE/LLE wrappers copy the two phase '
            'rows of one and the same multi-stream into the two outlets; phase_split pairs phases with outlets after the length test; infeasible bottom flows are '
            'clamped into [0, feed] before they are stored; material_balance scales each variable inlet by its own factor; split_to closes for outlets on any '
            'package and the per-phase sub-streams phase_split iterates are dropped or re-attached when the flow container is re-bound. In partition and '
            'phase_fraction the bottom flows are x*(1-phi)*F with x = z/D and D-(1-phi) == phi*K as polynomials, which with the closure gives top_i/bottom_i = '
            'K_i*phi/(1-phi) (the given coefficients up to the common factor). In partition the bottom outlet is written as a whole before top = feed - bottom on '
            'every path. In adjust_moisture_content the moisture set in one stream and taken out of the other go through the same basis view. Reached moisture and '
            'solver accuracy are not decided.',
}

SEP = 'thermosteam/separations.py'
CELL = re.compile(r'^(retentate|permeate)\.i(mol|mass)\[.*\]$')


def run(ctx):
    prog = ctx.prog
    ctx.decided = [
        'D1 closure: partition complement is the last material store; mix_and_split; moisture adjustment net change zero; lle efficiency mixing; wrappers copy both rows of one multi-stream; phase_split pairing',
        'D2 infeasible flows clamped into [0, feed] before being stored',
        'D3 material_balance scales each variable inlet with its own factor',
        'D4 the per-phase sub-streams that phase_split iterates are dropped or re-attached whenever the flow container is re-bound',
        'D5 split_to, which mix_and_split delegates to, closes the balance for outlets on any property package',
        'D6 in partition and phase_fraction the bottom flows are x*(1-phi)*F with x = z/D and D - (1-phi) == phi*K as polynomials, which together with '
        'top = feed - bottom (D1) gives top_i/bottom_i = K_i * phi/(1-phi): the given coefficients up to the common factor',
    ]
    ctx.not_decided = ['that the given partition coefficients are reproduced', 'that the requested moisture is reached', 'linear-solve accuracy']
    d1 = ctx.rule('D1', 'closure of the balance', floor=10)
    d2 = ctx.rule('D2', 'clamp before write', floor=3)
    d3 = ctx.rule('D3', 'each inlet scaled by its own factor', floor=2)
    partition_rule(ctx, d1, d2)
    mix_split_rule(ctx, d1)
    moisture_rule(ctx, d1)
    wrappers_rule(ctx, d1)
    balance_rule(ctx, d3)
    # phase_split (and the wrappers) read the feed phase by phase through its remembered sub-streams
    d4 = ctx.rule('D4', 'per-phase views of the feed stay attached to the flow rows when the flow container is re-bound', floor=5)
    from .C12 import dependents
    dependents(ctx, d4)
    # mix_and_split delegates the split to Stream.split_to / MultiStream.split_to
    d6 = ctx.rule('D6', 'partition reproduces the given coefficients: bottom = x(1-phi)F with x = z/(phi K + 1 - phi)', floor=4)
    partition_K_rule(ctx, d6)
    d5 = ctx.rule('D5', 'split_to closure (top = split*feed, bottom = feed - split*feed, written through the CAS index map of each outlet)', floor=2)
    from .C01 import split_rule
    split_rule(ctx, d5)


def partition_rule(ctx, d1, d2):
    prog = ctx.prog
    f = prog.func(SEP, 'partition')
    feed, top, bottom, IDs = f.params[0], f.params[1], f.params[2], f.params[3]
    ps, _ = run_paths(f.node, max_paths=4000)
    n = 0
    bad = None
    forced = {'top': None, 'bottom': None}
    clamp_ok = None
    for p in ps:
        if p.raised:
            continue
        n += 1
        mat = [e for e in p.events if e.kind in ('store', 'augstore') and re.match(r'^(%s|%s)\.(imol|mol)\[' % (re.escape(top), re.escape(bottom)), e.target)]
        if not mat:
            bad = 'no material stores'
            continue
        last = mat[-1]
        if not (last.target == '%s.mol[::]' % top and last.value == Form.atom('%s.mol' % feed) - Form.atom('%s.mol' % bottom)):
            bad = 'the last material store is %s = %s, not top.mol[:] = feed.mol - bottom.mol' % (last.target, last.value.pretty())
        # chemicals forced to one side
        for side, other, flag in ((top, bottom, 'top_chemicals'), (bottom, top, 'bottom_chemicals')):
            if implied(p.conds, lambda e, flag=flag: src(e) == flag) is True:
                a = [e for e in mat if e.target == '%s.imol[%s]' % (side, flag)]
                b = [e for e in mat if e.target == '%s.imol[%s]' % (other, flag)]
                good = bool(a and b) and a[0].value == Form.atom('%s.imol[%s]' % (feed, flag)) and b[0].value.is_zero()
                key = 'top' if side == top else 'bottom'
                forced[key] = good if forced[key] is None else (forced[key] and good)
        # clamp before store
        hc = [e for e in p.events if e.kind == 'call' and e.target == 'handle_infeasible_flow_rates']
        if hc:
            st = [e for e in mat if e.target == '%s.imol[%s]' % (bottom, IDs) and p.events.index(e) > p.events.index(hc[0])]
            good = bool(st) and len(hc[0].value) >= 2 and st[0].value == hc[0].value[0] and hc[0].value[1] == Form.atom('%s.imol[%s]' % (feed, IDs))
            clamp_ok = good if clamp_ok is None else (clamp_ok and good)
        else:
            # a path that stores computed (non-feed) bottom flows without the clamp
            st = [e for e in mat if e.target == '%s.imol[%s]' % (bottom, IDs) and e.value != Form.atom('%s.imol[%s]' % (feed, IDs))]
            if st:
                clamp_ok = False
    # top = feed - bottom is a balance only if everything in `bottom` was put there by THIS call: on every path a whole-content
    # write of bottom (bottom.mol[:] = ..., bottom.empty(), bottom.copy_like(...)) must precede the complement
    stale = None
    for p in ps:
        if p.raised:
            continue
        evs = p.events
        last = [i for i, e in enumerate(evs) if e.kind == 'store' and e.target == '%s.mol[::]' % top]
        whole = [i for i, e in enumerate(evs) if (e.kind == 'store' and e.target in ('%s.mol[::]' % bottom, '%s.imol[::]' % bottom, '%s.imol.data[::]' % bottom))
                 or (e.kind == 'call' and e.target in ('%s.empty' % bottom, '%s.copy_like' % bottom, '%s.mol.clear' % bottom))]
        if last and not (whole and whole[0] < last[-1]):
            stale = evs[last[-1]]
    if stale is not None:
        d1.fail('partition', 'bottom-not-reset', 'the top outlet is feed - bottom, but on some path bottom is never written as a whole before that: flows left in a reused '
                'bottom stream (all of them when the phase fraction is 1) are subtracted from the new feed', f, stale.stmt)
    else:
        d1.ok('partition', 'bottom is written as a whole before top = feed - bottom on every path', f)
    if bad:
        d1.fail('partition', 'complement-not-last', bad, f, f.node)
    else:
        d1.ok('partition', 'on all %d paths the last material store is top.mol[:] = feed.mol - bottom.mol (closure by complement)' % n, f)
    for key in ('top', 'bottom'):
        if forced[key]:
            d1.ok('partition', 'chemicals forced to the %s are written as (feed, 0)' % key, f)
        else:
            d1.fail('partition', 'forced-' + key, 'chemicals forced to the %s are not written as (feed, 0)' % key, f, f.node)
    if clamp_ok:
        d2.ok('partition', 'the computed bottom flows are clamped against the feed amounts before they are stored', f)
    else:
        d2.fail('partition', 'no-clamp', 'the computed bottom flows are stored without being clamped into [0, feed]', f, f.node)
    h = prog.func(SEP, 'handle_infeasible_flow_rates')
    hp, _ = run_paths(h.node)
    mol, mx = h.params[0], h.params[1]
    lo = hi = False
    ncheck = 0
    for e in hp[0].events:
        if e.kind == 'store' and e.target.startswith(mol + '['):
            if e.value.is_zero() and '(%s < 0)' % mol in e.target:
                lo = True
            if '(%s > %s)' % (mol, mx) in e.target and e.value.pretty().startswith(mx + '[') and '(%s > %s)' % (mol, mx) in e.value.pretty():
                hi = True
        if e.kind == 'call' and e.target == 'check_partition_infeasibility':
            ncheck += 1
    if lo:
        d2.ok('handle_infeasible_flow_rates', 'negative flows are set to 0', h)
    else:
        d2.fail('handle_infeasible_flow_rates', 'lower', 'negative flows are not zeroed', h, h.node)
    if hi:
        d2.ok('handle_infeasible_flow_rates', 'flows above the available amount are set to it', h)
    else:
        d2.fail('handle_infeasible_flow_rates', 'upper', 'flows above the feed are not clamped', h, h.node)
    if ncheck == 2:
        d2.ok('handle_infeasible_flow_rates', 'infeasibility is reported (strict: raise) before each clamp', h)
    else:
        d2.fail('handle_infeasible_flow_rates', 'report', 'infeasibility is not reported for both bounds', h, h.node)


def mix_split_rule(ctx, d1):
    prog = ctx.prog
    f = prog.func(SEP, 'mix_and_split')
    ps, _ = run_paths(f.node)
    ev = [e for e in ps[0].events if e.kind == 'call']
    okk = len(ev) == 2 and ev[0].target == 'top.mix_from' and ev[0].value == [Form.atom('ins')] \
        and ev[1].target == 'top.split_to' and [a.pretty() for a in ev[1].value] == ['top', 'bottom', 'split']
    if okk:
        d1.ok('mix_and_split', 'top.mix_from(ins) then top.split_to(top, bottom, split): closes by C01', f)
    else:
        d1.fail('mix_and_split', 'shape', 'not mix_from followed by split_to of the mixed stream', f, f.node)
    g = prog.func(SEP, 'mix_and_split_with_moisture_content')
    ps, _ = run_paths(g.node)
    ev = [e.target for e in ps[0].events if e.kind == 'call']
    if ev == ['mix_and_split', 'adjust_moisture_content']:
        d1.ok('mix_and_split_with_moisture_content', 'mix_and_split then adjust_moisture_content', g)
    else:
        d1.fail('mix_and_split_with_moisture_content', 'shape', 'unexpected call sequence %s' % ev, g, g.node)


class CellInterp:
    """symbolic interpreter for one path: tracks the current value of the retentate and permeate cells"""

    def __init__(self):
        self.cur = {'retentate': Form.atom('R0'), 'permeate': Form.atom('P0')}
        self.env = {}
        self.unit = {}     # owner -> 'mol'/'mass' of the last access (conversion by MW is a constant per cell)

    def lin(self):
        def attr_hook(node, lin):
            return None
        L = Lin(self.env, call_hook=None, attr_hook=None)
        L_form = L.form

        def form(node):
            if isinstance(node, ast.Subscript):
                base = src(node.value)
                m = re.match(r'^(retentate|permeate)\.i(mol|mass)$', base)
                if m:
                    return self.cur[m.group(1)]
            return L_form(node)
        L.form = form
        return L

    def run(self, events):
        for e in events:
            st = e.stmt
            if e.kind == 'assign' and isinstance(st, ast.Assign) and len(st.targets) == 1 and isinstance(st.targets[0], ast.Name):
                self.env[st.targets[0].id] = self.lin().form(st.value)
            elif e.kind == 'store' and isinstance(st, ast.Assign):
                v = self.lin().form(st.value)
                for t in st.targets:
                    if isinstance(t, ast.Name):
                        self.env[t.id] = v
                    elif isinstance(t, ast.Subscript):
                        m = re.match(r'^(retentate|permeate)\.i(mol|mass)$', src(t.value))
                        if m:
                            self.cur[m.group(1)] = v
            elif e.kind == 'augstore' and isinstance(st, ast.AugAssign) and isinstance(st.target, ast.Subscript):
                m = re.match(r'^(retentate|permeate)\.i(mol|mass)$', src(st.target.value))
                if m:
                    v = self.lin().form(st.value)
                    o = m.group(1)
                    if isinstance(st.op, ast.Sub):
                        self.cur[o] = self.cur[o] - v
                    elif isinstance(st.op, ast.Add):
                        self.cur[o] = self.cur[o] + v
                    else:
                        self.cur[o] = Form.atom('?')


def moisture_rule(ctx, d1):
    prog = ctx.prog
    f = prog.func(SEP, 'adjust_moisture_content')
    ps, _ = run_paths(f.node, max_paths=4000)
    seen = {}
    for p in ps:
        if p.raised:
            continue
        # the basis (mol vs mass) is fixed per path: both cells are accessed in the same basis within a branch
        ci = CellInterp()
        # handle chained `retentate.imol[key] = water = expr` : symx records a store event for the cell and an assign for the name
        done = set()
        evs = []
        for e in p.events:
            if e.kind in ('assign', 'store', 'augstore') and id(e.stmt) not in done:
                done.add(id(e.stmt))
                evs.append(e if e.kind != 'assign' or not any(isinstance(t, ast.Subscript) for t in getattr(e.stmt, 'targets', [])) else
                           type(e)('store', e.stmt, e.target, e.value, node=e.node))
        ci.run(evs)
        total = ci.cur['retentate'] + ci.cur['permeate']
        want = Form.atom('R0') + Form.atom('P0')
        by_id = implied(p.conds, lambda x: src(x) == 'ID is None')
        repaired = any(e.kind == 'store' and e.target.startswith('permeate.') and e.value.is_zero() for e in p.events)
        key = ('water-by-mol' if by_id else 'by-mass', 'non-strict repair' if repaired else 'no repair')
        # the mass-basis repair mixes imass (adjustment) and imol (repair) accesses of the same cell: the ratio is a constant
        okk = (total == want)
        # ... but an amount moved from one stream to the other is the same amount only in the same basis: the paired `+= d` / `-= d`
        # must go through the same view (both imass or both imol) of the two streams
        first = {}
        for e in p.events:
            if e.kind in ('store', 'augstore'):
                mm = re.match(r'^(\w+)\.(imol|imass|ivol|mol|mass|vol)\[', e.target)
                if mm and mm.group(1) not in first:
                    first[mm.group(1)] = (mm.group(2).lstrip('i'), e)
        if len(first) == 2 and len({v[0] for v in first.values()}) > 1:
            okk = False
            total = Form.atom('the moisture set in one stream through .%s is taken out of the other through .%s' % tuple(
                ('i' + first[k_][0]) for k_ in sorted(first, key=lambda k_: first[k_][1].stmt.lineno)))
        prev = seen.get(key)
        seen[key] = (okk if prev is None else (prev[0] and okk), total, p)
    if not seen:
        raise AnalysisError('adjust_moisture_content: no normal path')
    for key, (okk, total, p) in sorted(seen.items()):
        cons = 'adjust_moisture_content[%s, %s]' % key
        if okk:
            d1.ok(cons, 'retentate + permeate after = R0 + P0 (net change zero)', f)
        else:
            rep = [e for e in p.events if e.kind == 'augstore' and e.target.startswith('retentate.')]
            d1.fail('adjust_moisture_content[%s]' % key[1], 'net-change',
                    'retentate + permeate after the call is %s, not R0 + P0: material is created or lost' % total.pretty(),
                    f, rep[-1].stmt if rep else f.node)


def wrappers_rule(ctx, d1):
    prog = ctx.prog
    for name in ('vle', 'lle'):
        f = prog.func(SEP, name)
        feed, o1, o2 = f.params[0], f.params[1], f.params[2]
        ps, _ = run_paths(f.node, max_paths=2000)
        okk = True
        why = ''
        n = 0
        for p in ps:
            if p.raised:
                continue
            n += 1
            st = {}
            for e in p.events:
                if e.kind == 'store' and e.target in ('%s.mol[::]' % o1, '%s.mol[::]' % o2):
                    st[e.target.split('.')[0]] = e.value.pretty()
            if set(st) != {o1, o2}:
                okk, why = False, 'an outlet is not filled'
                break
            m1 = re.match(r"^(.+)\.imol\[(.+)\]$", st[o1])
            m2 = re.match(r"^(.+)\.imol\[(.+)\]$", st[o2])
            if not (m1 and m2 and m1.group(1) == m2.group(1)):
                okk, why = False, 'the outlets are not filled from the phase rows of one multi-stream (%s / %s)' % (st[o1], st[o2])
                break
            R = m1.group(1)
            rows = tuple(re.sub(r'^\((.+)\)(\[\d+\])$', r'\1\2', x) for x in (m1.group(2), m2.group(2)))
            if rows[0] == rows[1]:
                okk, why = False, 'both outlets receive the same phase row %s' % rows[0]
                break
            if name == 'vle' and rows != ("'g'", "'l'"):
                okk, why = False, 'vapour/liquid outlets receive rows %s' % (rows,)
                break
            if name == 'lle' and set(rows) not in ({"'l'", "'L'"}, {'%s.phases[0]' % R, '%s.phases[1]' % R}):
                okk, why = False, 'top/bottom outlets receive rows %s, not the two liquid phases' % (rows,)
                break
            # R is a copy of the feed, or the given multi-stream after copy_like(feed)
            if R == '%s.copy()' % feed:
                pass
            elif any(e.kind == 'call' and e.target == '%s.copy_like' % R and e.value and e.value[0] == Form.atom(feed) for e in p.events):
                pass
            else:
                okk, why = False, 'the equilibrium is not run on a copy of the feed (%s)' % R
                break
        if okk and n:
            d1.ok(name, 'both outlets are filled from the two distinct phase rows of one multi-stream that holds a copy of the feed (%d paths)' % n, f)
        else:
            d1.fail(name, 'rows', why or 'no normal path', f, f.node)
    f = prog.func(SEP, 'lle')
    # efficiency mixing in D-lin
    # decided on the paths of the normal form on which `efficiency < 1` holds (in either polarity): the in-place updates of the two
    # outlets, applied in path order to symbolic starting amounts t and b, give  top + bottom = eta*(t + b) + (1 - eta)*feed
    from ..pathcond import implied2 as _imp2e
    feedp, topp, botp = f.params[0], f.params[1], f.params[2]
    eps_, _ = run_paths(prog.normal_form(f), max_paths=4000, follow_except=False)
    okk = False
    n_eff = 0
    blk = [f.node]
    for p in eps_:
        if p.raised:
            continue
        lt = _imp2e(p.conds, lambda t: isinstance(t, ast.Compare) and len(t.ops) == 1 and isinstance(t.ops[0], ast.Lt) and src(t.left) == 'efficiency'
                    and isinstance(t.comparators[0], ast.Constant) and t.comparators[0].value == 1,
                    lambda t: isinstance(t, ast.Compare) and len(t.ops) == 1 and isinstance(t.ops[0], ast.GtE) and src(t.left) == 'efficiency'
                    and isinstance(t.comparators[0], ast.Constant) and t.comparators[0].value == 1)
        if lt is not True:
            continue
        n_eff += 1
        cur = {topp: Form.atom('t'), botp: Form.atom('b')}
        good = True
        for e in p.events:
            if e.kind == 'augstore' and e.target in ('%s.mol' % topp, '%s.mol' % botp):
                o = e.target.split('.')[0]
                if e.op == 'Mult':
                    cur[o] = cur[o] * e.value
                elif e.op == 'Add':
                    cur[o] = cur[o] + e.value
                else:
                    good = False
        eta = Form.atom('efficiency')
        want = eta * (Form.atom('t') + Form.atom('b')) + (Form.const(1) - eta) * Form.atom('%s.mol' % feedp)
        if good and (cur[topp] + cur[botp]) == want:
            okk = True
        else:
            okk = False
            break
    okk = okk and n_eff > 0
    if okk:
        d1.ok('lle', 'efficiency mixing: top + bottom = eta*(top+bottom) + (1-eta)*feed', f, blk[0])
    else:
        d1.fail('lle', 'efficiency', 'the efficiency mixing does not preserve the total', f, f.node)
    g = prog.func(SEP, 'phase_split')
    fp, op = g.params[0], g.params[1]
    guard = [n for n in walk_no_nested(g.node) if isinstance(n, ast.If) and isinstance(n.test, ast.Compare) and isinstance(n.test.ops[0], ast.NotEq)
             and 'len(%s)' % op in src(n.test) and isinstance(n.body[0], ast.Raise)]
    loop = [n for n in walk_no_nested(g.node) if isinstance(n, ast.For) and src(n.iter) == 'zip(%s, %s)' % (fp, op) and isinstance(n.target, ast.Tuple)]
    okk = False
    if guard and loop and guard[0].lineno < loop[0].lineno:
        i, j = (t.id for t in loop[0].target.elts)
        okk = len(loop[0].body) == 1 and src(loop[0].body[0]) == '%s.copy_like(%s)' % (j, i)
    if okk:
        d1.ok('phase_split', 'after the length test each phase view of the feed is copied to its own outlet', g)
    else:
        d1.fail('phase_split', 'pairing', 'phases are not paired one-to-one with outlets after a length test', g, g.node)


def balance_rule(ctx, d3):
    prog = ctx.prog
    f = prog.func(SEP, 'material_balance')
    vi = 'variable_inlets'
    loops = [n for n in walk_no_nested(f.node) if isinstance(n, ast.For) and isinstance(n.iter, ast.Call) and src(n.iter.func) == 'zip'
             and len(n.iter.args) == 2 and src(n.iter.args[1]) == vi]
    if len(loops) != 2:
        d3.fail('material_balance', 'loops', 'expected two scaling loops over zip(factors, variable_inlets)', f, f.node)
        return
    # the matrix columns are built from the same list in the same order
    col_ok = any(isinstance(n, ast.Assign) and any(isinstance(x, ast.comprehension) and src(x.iter) == vi for x in ast.walk(n.value))
                 for n in walk_no_nested(f.node))
    for lp in loops:
        fac, s_ = (t.id for t in lp.target.elts)
        b = lp.body[0]
        okk = isinstance(b, ast.Assign) and src(b.value) == '%s.mol * %s' % (s_, fac) and src(b.targets[0]) in ('%s.mol[:]' % s_, '%s.mol' % s_)
        # the factors are the solution of the linear system (a local bound from solver(...))
        solvers = {t.id for n in walk_no_nested(f.node) if isinstance(n, ast.Assign) and 'np.linalg.solve' in src(n.value)
                   for t in n.targets if isinstance(t, ast.Name)} | {'np.linalg.solve', 'np.linalg.lstsq'}
        sol = [n for n in walk_no_nested(f.node) if isinstance(n, ast.Assign) and src(n.targets[0]) == src(lp.iter.args[0]) and isinstance(n.value, ast.Call)
               and src(n.value.func) in solvers]
        if okk and col_ok and sol:
            d3.ok('material_balance', 'each variable inlet is multiplied by the factor solved for its own column', f, lp)
        else:
            d3.fail('material_balance', 'scaling', 'variable inlets are not each scaled by their own solved factor', f, lp)


def partition_K_rule(ctx, rule):
    """bottom = x (1-phi) F,  x = z / D,  top = z F - bottom = x F (D - (1 - phi)).  top_i / bottom_i = K_i phi/(1-phi) for every
    chemical in equilibrium  iff  D - (1 - phi) = phi K  (a polynomial identity in phi and K)."""
    prog = ctx.prog
    for fname in ('partition', 'phase_fraction'):
        f = prog.func(SEP, fname)
        # x = <z> / <D>: the one division whose denominator mentions exactly two names, one of which is the solved phase fraction
        solved = {t.id for n in walk_no_nested(f.node) if isinstance(n, ast.Assign) and isinstance(n.value, ast.Call)
                  for t in n.targets if isinstance(t, ast.Name)}
        xs = []
        # locals that only abbreviate an arithmetic expression of other names (bottom_fraction = 1 - phi) are read through
        from ..resolve import resolved as _resolved
        cnt_ = {}
        for n in walk_no_nested(f.node):
            if isinstance(n, ast.Name) and isinstance(n.ctx, ast.Store):
                cnt_[n.id] = cnt_.get(n.id, 0) + 1
        abbrev = {n.targets[0].id: n.value for n in walk_no_nested(f.node) if isinstance(n, ast.Assign) and len(n.targets) == 1
                  and isinstance(n.targets[0], ast.Name) and cnt_.get(n.targets[0].id) == 1 and n.targets[0].id not in f.params
                  and isinstance(n.value, ast.BinOp) and not any(isinstance(m, (ast.Call, ast.Subscript)) for m in ast.walk(n.value))
                  and len({m.id for m in ast.walk(n.value) if isinstance(m, ast.Name)}) == 1}
        import copy as _copy
        stmts_ = []
        for n in walk_no_nested(f.node):
            if isinstance(n, ast.Assign) and isinstance(n.value, ast.BinOp) and isinstance(n.targets[0], ast.Name) and n.targets[0].id not in abbrev:
                # a shallow stand-in of the statement with the abbreviations expanded (the program tree itself is left alone)
                n2 = ast.Assign(targets=n.targets, value=_resolved(n.value, abbrev, keep=set(f.params)))
                ast.copy_location(n2, n)
                ast.fix_missing_locations(n2)
                n2._parent = getattr(n, '_parent', None)
                stmts_.append(n2)
        for n in stmts_:
            if isinstance(n, ast.Assign) and isinstance(n.value, ast.BinOp) and isinstance(n.value.op, ast.Div) and isinstance(n.targets[0], ast.Name):
                names = {m.id for m in ast.walk(n.value.right) if isinstance(m, ast.Name)}
                if len(names) == 2 and len(names & solved) == 1 and (names - solved) <= set(f.params):
                    xs.append((n, (names & solved).pop(), (names - solved).pop()))
        if len(xs) != 1:
            raise AnalysisError('%s: composition statement x = z/(phi K + 1 - phi) not found' % fname)
        st, phiname, K = xs[0]
        xname = st.targets[0].id
        lin = Lin()
        D = lin.form(st.value.right)
        phis = [phiname]
        phi = Form.atom(phis[0])
        if D - (Form.const(1) - phi) == phi * Form.atom(K):
            rule.ok(fname, '%s = z/D with D - (1 - %s) == %s*%s' % (xname, phis[0], phis[0], K), f, st)
        else:
            rule.fail(fname, 'K-denominator', 'the denominator is %s; top/bottom = K*phi/(1-phi) needs D = phi*K + 1 - phi' % D.pretty(), f, st)
        # bottom = x (1 - phi) F
        bs = [n for n in stmts_ if isinstance(n, ast.Assign) and isinstance(n.targets[0], ast.Name)
              and any(isinstance(m, ast.Name) and m.id == xname for m in ast.walk(n.value)) and n is not st]
        good = False
        for b in bs:
            fm = Lin().form(b.value)
            # x*(1-phi)*F = x*F - x*phi*F  for exactly one further name F
            others = sorted({m.id for m in ast.walk(b.value) if isinstance(m, ast.Name)} - {xname, phis[0]})
            if len(others) == 1:
                F = Form.atom(others[0])
                if fm == Form.atom(xname) * (Form.const(1) - phi) * F:
                    good = True
                    rule.ok(fname, '%s = %s*(1 - %s)*%s' % (b.targets[0].id, xname, phis[0], others[0]), f, b)
        if not good:
            rule.fail(fname, 'bottom-amount', 'no statement forms the bottom flows as x*(1 - phi)*F', f, st)
