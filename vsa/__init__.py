"""vsa -- static analyser for thermosteam (stdlib ``ast`` only).

Nothing in this package imports or executes repository code.  Every verdict is
computed from the source text under ``$VSA_REPO`` (default ``/repo``).
"""
import os

REPO = os.environ.get('VSA_REPO', '/repo')
PKG = 'thermosteam'
VERIF = os.path.dirname(os.path.dirname(os.path.abspath(__file__)))
