"""CLI:  python -m vsa.main C07 [--tier quick|thorough] [--only RULE] [--replay FILE]"""
from __future__ import annotations
import sys, os, argparse, importlib, traceback, json, warnings

warnings.simplefilter('ignore')


def main(argv=None):
    ap = argparse.ArgumentParser()
    ap.add_argument('pid')
    ap.add_argument('--tier', default=os.environ.get('VERIF_TIER', 'quick'))
    ap.add_argument('--only', default=None)
    ap.add_argument('--replay', default=None)
    ap.add_argument('--repo', default=None)
    ap.add_argument('--evidence-dir', default=None)
    ap.add_argument('--no-selftest', action='store_true')
    a = ap.parse_args(argv)
    if a.repo:
        os.environ['VSA_REPO'] = a.repo
    import time
    t_start = time.time()
    from . import frontend, report
    pid = a.pid
    tier = a.tier if a.tier in ('quick', 'thorough') else 'quick'
    try:
        seed = int(os.environ.get('VERIF_SEED', '0'))
    except ValueError:
        seed = 0
    if a.replay:
        try:
            with open(a.replay) as fh:
                f = json.load(fh)
            a.only = f.get('rule')
            print('replaying rule %s for construct %s' % (f.get('rule'), f.get('construct')))
        except Exception as e:
            print('ANALYSIS-ERROR property=%s cannot read replay file: %s' % (pid, e))
            return 2
    try:
        from . import engine
        ctx = engine.decide(pid, a.repo, tier, seed, a.only)
        prog = ctx.prog
        ctx.t0 = t_start
        nf = ctx.extra.get('normal_form')
        if nf:
            print('normal form: rules decided on it: %s (%s); findings seen only on it: %s; dropped (examined and discharged as written): %s' % (
                ', '.join(nf['rules_decided_on_normal_form']) or '-', nf['reason'][:160], ', '.join(nf.get('findings_seen_only_on_normal_form', [])) or '-',
                ', '.join(nf.get('normal_form_findings_dropped_because_examined_and_discharged_as_written', [])) or '-'))
        if a.only:
            ctx.rules = [r for r in ctx.rules if r.id == a.only or r.id.endswith('-' + a.only)]
            for r in ctx.rules:
                r.floor = min(r.floor, len(r.instances))
        if tier == 'thorough' and not a.no_selftest and not a.only:
            try:
                from . import selftest
                ctx.extra['selftest'] = selftest.run_for(pid, seed)
            except ImportError:
                pass
            # well-formedness of the normal form of the whole package (every rewritten function must unparse and compile)
            try:
                import ast as _ast
                prog_n = frontend.Program(a.repo)
                nzr = prog_n.enable_normal_form()
                changed = bad_nf = 0
                for f_ in prog_n._all_functions_raw():
                    if f_.node is not f_._node:
                        changed += 1
                        try:
                            compile(_ast.unparse(f_.node), f_.where, 'exec')
                        except Exception:
                            bad_nf += 1
                ctx.extra['normal_form_inventory'] = {'functions_rewritten': changed, 'rewritten_that_do_not_compile': bad_nf,
                                                      'call_sites_inlined': sum(len(v) for v in nzr.inlined.values()),
                                                      'helpers_absorbed': sorted(prog_n.absorbed)}
                print('normal form of the package: %d functions rewritten (%d call sites inlined, %d private helpers absorbed), %d do not compile'
                      % (changed, sum(len(v) for v in nzr.inlined.values()), len(prog_n.absorbed), bad_nf))
            except frontend.AnalysisError:
                pass
            from . import sweeps
            sw = sweeps.run(prog)
            ctx.extra['package_wide_sweeps'] = sw
            print('package-wide sweeps (notes, never violations): ' + ', '.join('%s %d/%d' % (k, len(v['hits']), v['sites_examined']) for k, v in sw.items()))
            for k, v in sw.items():
                for h in v['hits']:
                    print('   sweep note [%s] %s @%s -- %s' % (k, h['construct'], h['where'], h['what'][:160]))
        return report.finish(ctx, a.evidence_dir)
    except frontend.AnalysisError as e:
        print('ANALYSIS-ERROR property=%s %s' % (pid, e))
        return 2
    except Exception:
        traceback.print_exc()
        print('ANALYSIS-ERROR property=%s internal error in the analyser (see traceback)' % pid)
        return 2


if __name__ == '__main__':
    sys.exit(main())
