"""Semantics-preserving normal form of a function, computed on the syntax tree (nothing is run).

Rules read the *shape* of a function.  A maintainer may move part of that shape into a helper, loop over a literal tuple
instead of repeating a statement, build a list with append instead of a comprehension, or write setattr(o, 'x', v) for
o.x = v.  None of that changes behaviour, so none of it may change a verdict.  This module rewrites a function into an
equivalent one in which those choices are undone:

  N1  calls to helpers defined in the same module / class are replaced by the helper's body (parameters bound to the
      argument expressions, helper locals renamed apart, `return e` turned into the assignment the call site makes);
  N2  `for t in (e1, e2, ...)` over a literal (or a single-assignment local bound to a literal) is unrolled, including the
      search form  `for t in (...): if c: break  else: ...`;
  N3  setattr(o, 'name', v) / getattr(o, 'name') with a constant name become attribute stores / loads;
  N4  `acc = []` followed by `for t in it: [if c:] acc.append(e)` becomes a list comprehension;
  N5  zip(t1, t2, ...) of literal tuples (or single-assignment locals bound to them) becomes the literal tuple of rows;
  N6  `d = {k: v for t in <literal> if c}` becomes `d = {}` followed by the (then unrolled) loop of guarded item stores;
  N7  `x = a if c else b`, `return a if c else b` (a conditional expression as the whole value) become if/else statements;
  N8  `x = {k1: v1, ...}.get(e[, d])` / `{...}[e]` over a literal table (or a single-assignment local bound to one) becomes the
      if/elif chain on e == k1, ...;
  N9  `enumerate(<literal>)` becomes the literal tuple of (i, element) pairs, `<literal>[<constant>]` the element; a `continue` in
      the body of a literal loop is first turned into the equivalent if/else (tail-position transform), so the loop can be unrolled.
  N10 a local bound once to an attribute / name and used only as the function of calls (psi = self.psi ... psi(T, a)) is replaced by what it
      names (bound-method alias).
  N1 also covers closures (a function defined inside the analysed function and called there), static methods reached through
  self / the class name, and helpers with *args / **kwargs parameters (bound to the tuple / dict display of the extra arguments;
  a `*display` / `**display` in a call is spliced back into plain arguments).

A helper is never inlined when a rule names it (the protect set: every identifier that occurs in a string constant of the
rule sources), when a subclass overrides it (dynamic dispatch could pick another body), when it is a generator, has
nested definitions, star parameters, or a `return` inside a loop (no equivalent structured form at statement level).
When a transformation does not apply the statement is left exactly as it is, so the result is always equivalent to the
input; a verdict on the normal form is a verdict on the function.
"""
from __future__ import annotations
import ast, os, re, glob

MAX_HELPER_STMTS = 80
MAX_DEPTH = 3
MAX_UNROLL = 8


class NotInlinable(Exception):
    pass


def clone(node):
    """deep copy that does not follow _parent links; remembers the original node in _orig"""
    if isinstance(node, ast.AST):
        new = node.__class__()
        for f in node._fields:
            if hasattr(node, f):
                setattr(new, f, clone(getattr(node, f)))
        for a in node._attributes:
            if hasattr(node, a):
                setattr(new, a, getattr(node, a))
        new._orig = getattr(node, '_orig', id(node))
        if hasattr(node, '_origin'):
            new._origin = node._origin
        return new
    if isinstance(node, list):
        return [clone(x) for x in node]
    return node


def walk_no_nested(node):
    todo = list(ast.iter_child_nodes(node)) if not isinstance(node, list) else list(node)
    while todo:
        n = todo.pop()
        yield n
        if isinstance(n, (ast.FunctionDef, ast.AsyncFunctionDef, ast.ClassDef, ast.Lambda)):
            continue
        todo.extend(ast.iter_child_nodes(n))


def contains_return(node):
    if isinstance(node, ast.Return):
        return True
    return any(isinstance(n, ast.Return) for n in walk_no_nested(node))


def falls_through(stmts):
    """may control reach the end of this statement list?  (conservative: True when unsure)"""
    for st in stmts:
        if isinstance(st, (ast.Return, ast.Raise, ast.Continue, ast.Break)):
            return False
        if isinstance(st, ast.If):
            if st.orelse and not falls_through(st.body) and not falls_through(st.orelse):
                return False
        elif isinstance(st, ast.Try):
            if st.finalbody and not falls_through(st.finalbody):
                return False
            normal = falls_through(st.body) and falls_through(st.orelse)
            if not normal and not any(falls_through(h.body) for h in st.handlers):
                return False
        elif isinstance(st, ast.While):
            if isinstance(st.test, ast.Constant) and st.test.value is True and \
                    not any(isinstance(n, ast.Break) for n in walk_no_nested(st)):
                return False
        elif isinstance(st, ast.With):
            if not falls_through(st.body):
                return False
    return True


def is_stable(e):
    """an expression that can be written twice without changing what is computed"""
    if isinstance(e, (ast.Name, ast.Constant)):
        return True
    if isinstance(e, ast.Attribute):
        return is_stable(e.value)
    if isinstance(e, ast.Tuple):
        return all(is_stable(x) for x in e.elts)
    if isinstance(e, ast.UnaryOp):
        return is_stable(e.operand)
    return False


def protect_set():
    """every identifier that occurs inside a string constant of the analyser's own sources"""
    here = os.path.dirname(os.path.abspath(__file__))
    names = set()
    for path in glob.glob(os.path.join(here, '*.py')) + glob.glob(os.path.join(here, 'rules', '*.py')):
        if os.path.basename(path) in ('normalize.py', 'mutants.py', 'selftest.py'):
            continue
        try:
            tree = ast.parse(open(path, encoding='utf-8').read())
        except SyntaxError:
            continue
        for n in ast.walk(tree):
            if isinstance(n, ast.Constant) and isinstance(n.value, str) and len(n.value) < 400:
                names.update(re.findall(r'[A-Za-z_]\w*', n.value))
    return names


_JIT = ('njit', 'jit', 'njitable', 'register_jitable')


def _deco_ok(d):
    if isinstance(d, ast.Call):
        d = d.func
    if isinstance(d, ast.Attribute):
        return d.attr in _JIT
    if isinstance(d, ast.Name):
        return d.id in _JIT
    return False


class _Subst(ast.NodeTransformer):
    def __init__(self, subst, rename):
        self.subst = subst
        self.rename = rename

    def visit_Name(self, node):
        if node.id in self.subst and isinstance(node.ctx, ast.Load):
            return clone(self.subst[node.id])
        if node.id in self.rename:
            node.id = self.rename[node.id]
        return node

    def visit_arg(self, node):
        if node.arg in self.rename:
            node.arg = self.rename[node.arg]
        return node

    def visit_ExceptHandler(self, node):
        if node.name and node.name in self.rename:
            node.name = self.rename[node.name]
        self.generic_visit(node)
        return node


def _relocate(nodes, at):
    if not hasattr(at, 'lineno'):
        return nodes
    for st in nodes:
        for n in ast.walk(st):
            if 'lineno' in n._attributes:
                n.lineno = at.lineno
                n.end_lineno = getattr(at, 'end_lineno', at.lineno)
                n.col_offset = getattr(at, 'col_offset', 0)
                n.end_col_offset = getattr(at, 'end_col_offset', 0)
    return nodes


class _Closure:
    """a function defined inside the function being normalised (free variables are the enclosing function's own locals)"""
    kind = 'closure'
    cls = None

    def __init__(self, node, outer):
        self.name = node.name
        self._node = node
        self.module = outer.module
        self.qualname = '%s.<locals>.%s' % (outer.qualname, node.name)


class Normalizer:
    def __init__(self, prog, protect=None):
        self.prog = prog
        self.protect = protect if protect is not None else protect_set()
        self.counter = 0
        self.inlined = {}           # callee qualname -> set of original call-node ids
        self.log = {}               # outer function qualname -> sorted list of callee names
        self._overrides = {}
        self._elig = {}
        self._tables = {}
        self._cur_module = None

    # ------------------------------------------------------------------ resolution
    def _eligible(self, f):
        k = id(f)
        if k not in self._elig:
            self._elig[k] = self._eligible0(f)
        return self._elig[k]

    def _eligible0(self, f):
        node = f.node if not hasattr(f, '_node') else f._node
        if (f.name in self.protect and f.kind != 'closure') or (f.name.startswith('__') and f.name.endswith('__')):
            return None
        if f.kind not in ('function', 'method', 'static', 'closure'):
            return None
        if not all(_deco_ok(d) or (f.kind == 'static' and isinstance(d, ast.Name) and d.id == 'staticmethod') for d in node.decorator_list):
            return None
        n_st = 0
        for n in ast.walk(node):
            if n is node:
                continue
            if isinstance(n, (ast.FunctionDef, ast.AsyncFunctionDef, ast.ClassDef, ast.Yield, ast.YieldFrom, ast.Await,
                              ast.Global, ast.Nonlocal, ast.Import, ast.ImportFrom)):
                return None
            if isinstance(n, ast.Name) and n.id in ('super', 'locals', 'vars', 'globals', '__class__'):
                return None
            if isinstance(n, ast.stmt):
                n_st += 1
        if n_st > MAX_HELPER_STMTS:
            return None
        return node

    def _overridden(self, cls, name, m):
        key = (id(cls), name)
        if key not in self._overrides:
            ov = False
            for k in self.prog.subclasses(cls):
                if k is cls:
                    continue
                if (name in k.methods and k.methods[name] is not m) or name in k.setters:
                    ov = True
                    break
            self._overrides[key] = ov
        return self._overrides[key]

    def resolve(self, call, ctx):
        """-> (FuncInfo, node, receiver expr or None) for a call that may be replaced by its body"""
        if any(isinstance(x, ast.Starred) for x in call.args) or any(k.arg is None for k in call.keywords):
            return None
        fn = call.func
        outer = ctx['outer']
        if isinstance(fn, ast.Name) and fn.id in ctx.get('closures', {}):
            cl = ctx['closures'][fn.id]
            if cl.name in ctx['stack']:
                return None
            node = self._eligible(cl)
            if node is None:
                return None
            return cl, node, None
        if isinstance(fn, ast.Name):
            if fn.id in ctx['locals']:
                return None
            f = outer.module.functions.get(fn.id)
            if f is None or f is outer or f.name in ctx['stack']:
                return None
            node = self._eligible(f)
            if node is None:
                return None
            return f, node, None
        if isinstance(fn, ast.Attribute) and isinstance(fn.value, ast.Name) and ctx['self'] \
                and fn.value.id == ctx['self'] and outer.cls is not None:
            m = self.prog.find_method(outer.cls, fn.attr)
            if m is None or m is outer or m.name in ctx['stack'] or m.kind not in ('method', 'static'):
                return None
            if outer.kind == 'class' and m.kind != 'static':
                return None       # cls.<method>(...) is an unbound call
            if not m.name.startswith('_'):
                return None       # public methods are interface, not helpers
            if m.module is not outer.module:
                return None
            if self._overridden(outer.cls, fn.attr, m):
                return None
            node = self._eligible(m)
            if node is None:
                return None
            return m, node, (fn.value if m.kind == 'method' else None)
        if isinstance(fn, ast.Attribute) and isinstance(fn.value, ast.Name) and outer.cls is not None and fn.value.id not in ctx['locals'] \
                and fn.value.id in {k.name for k in outer.cls.mro()}:
            # ClassName._helper(...): a static method of the class (or of a base) named explicitly
            k = [k for k in outer.cls.mro() if k.name == fn.value.id][0]
            m = k.methods.get(fn.attr)
            if m is None or m is outer or m.name in ctx['stack'] or m.kind != 'static' or not m.name.startswith('_') \
                    or m.module is not outer.module:
                return None
            node = self._eligible(m)
            if node is None:
                return None
            return m, node, None
        return None

    # ------------------------------------------------------------------ inlining
    def _bind(self, callee, node, call, receiver):
        a = node.args
        params = [x.arg for x in a.posonlyargs + a.args]
        defaults = dict(zip(params[len(params) - len(a.defaults):], a.defaults))
        for k, d in zip(a.kwonlyargs, a.kw_defaults):
            if d is not None:
                defaults[k.arg] = d
        kwonly = [x.arg for x in a.kwonlyargs]
        bound = {}
        pos = list(call.args)
        if receiver is not None:
            pos = [receiver] + pos
        if len(pos) > len(params):
            if a.vararg is None:
                raise NotInlinable('too many positional arguments')
            bound[a.vararg.arg] = ast.Tuple(elts=pos[len(params):], ctx=ast.Load())
            pos = pos[:len(params)]
        elif a.vararg is not None:
            bound[a.vararg.arg] = ast.Tuple(elts=[], ctx=ast.Load())
        for p, v in zip(params, pos):
            bound[p] = v
        extra = []
        for k in call.keywords:
            if k.arg in bound:
                raise NotInlinable('keyword')
            if k.arg not in params + kwonly:
                if a.kwarg is None:
                    raise NotInlinable('keyword')
                extra.append(k)
                continue
            bound[k.arg] = k.value
        if a.kwarg is not None:
            bound[a.kwarg.arg] = ast.Dict(keys=[ast.Constant(value=k.arg) for k in extra], values=[k.value for k in extra])
        for p in params + kwonly:
            if p not in bound:
                if p not in defaults:
                    raise NotInlinable('missing argument')
                if not is_stable(defaults[p]):
                    raise NotInlinable('default value is evaluated once, at definition time')
                bound[p] = defaults[p]
        return bound

    def _body_of(self, callee, node, call, receiver, caller_locals=()):
        """-> (prelude statements, renamed body statements)"""
        bound = self._bind(callee, node, call, receiver)
        # name capture: a global the helper reads must not be shadowed by a local of the function it is inlined into
        hl = set()
        for n in ast.walk(node):
            if isinstance(n, ast.Name) and isinstance(n.ctx, (ast.Store, ast.Del)):
                hl.add(n.id)
            elif isinstance(n, ast.arg):
                hl.add(n.arg)
            elif isinstance(n, ast.ExceptHandler) and n.name:
                hl.add(n.name)
        free = {n.id for n in ast.walk(node) if isinstance(n, ast.Name) and isinstance(n.ctx, ast.Load)} - hl
        if callee.kind != 'closure' and free & set(caller_locals):
            raise NotInlinable('a global read by the helper is shadowed in the caller: %s' % sorted(free & set(caller_locals))[:2])
        self.counter += 1
        tagn = self.counter
        stored = set()
        local = set()
        for n in ast.walk(node):
            if isinstance(n, ast.Name) and isinstance(n.ctx, (ast.Store, ast.Del)):
                stored.add(n.id)
                local.add(n.id)
            elif isinstance(n, ast.arg):
                local.add(n.arg)
            elif isinstance(n, ast.ExceptHandler) and n.name:
                local.add(n.name)
                stored.add(n.name)
        uses = {}
        for n in ast.walk(node):
            if isinstance(n, ast.Name) and isinstance(n.ctx, ast.Load):
                uses[n.id] = uses.get(n.id, 0) + 1
        subst, rename, prelude = {}, {}, []
        star_params = {x.arg for x in (node.args.vararg, node.args.kwarg) if x is not None}
        for p in star_params:
            # only the forms f(*args) / f(**kwargs) can be spliced back
            for n in ast.walk(node):
                if isinstance(n, ast.Name) and n.id == p and isinstance(n.ctx, ast.Load):
                    par_ok = False
                    for q in ast.walk(node):
                        if isinstance(q, ast.Starred) and q.value is n:
                            par_ok = True
                        if isinstance(q, ast.keyword) and q.arg is None and q.value is n:
                            par_ok = True
                    if not par_ok:
                        raise NotInlinable('star parameter used as a value')
        for p, v in bound.items():
            if p in star_params:
                if p in stored:
                    raise NotInlinable('star parameter re-bound')
                subst[p] = v
            elif p not in stored and (is_stable(v) or uses.get(p, 0) <= 1):
                subst[p] = v
            else:
                rename[p] = '%s__i%d' % (p, tagn)
                prelude.append(ast.Assign(targets=[ast.Name(id=rename[p], ctx=ast.Store())], value=clone(v)))
        for nme in local:
            if nme not in bound:
                rename[nme] = '%s__i%d' % (nme, tagn)
        body = clone(node.body)
        if body and isinstance(body[0], ast.Expr) and isinstance(body[0].value, ast.Constant) \
                and isinstance(body[0].value.value, str):
            body = body[1:]
        tr = _Subst(subst, rename)
        body = [tr.visit(st) for st in body]
        if star_params:
            for st in body:
                for n in ast.walk(st):
                    if isinstance(n, ast.Call):
                        na = []
                        for x in n.args:
                            if isinstance(x, ast.Starred) and isinstance(x.value, ast.Tuple):
                                na.extend(x.value.elts)
                            else:
                                na.append(x)
                        n.args = na
                        nk = []
                        for k in n.keywords:
                            if k.arg is None and isinstance(k.value, ast.Dict) and all(isinstance(q, ast.Constant) for q in k.value.keys):
                                nk.extend(ast.keyword(arg=q.value, value=v) for q, v in zip(k.value.keys, k.value.values))
                            else:
                                nk.append(k)
                        n.keywords = nk
        for st in body:
            for n in ast.walk(st):
                if not hasattr(n, '_origin'):
                    n._origin = callee.qualname        # findings inside inlined code are attributed to the helper they come from
        return prelude, body

    def _conv(self, stmts, mk):
        out = []
        for i, st in enumerate(stmts):
            rest = stmts[i + 1:]
            if isinstance(st, ast.Return):
                out.extend(mk(st.value))
                return out
            if not contains_return(st):
                out.append(st)
                continue
            if isinstance(st, ast.If):
                nb = self._conv(st.body + (clone(rest) if falls_through(st.body) else []), mk)
                no = self._conv(st.orelse + (clone(rest) if falls_through(st.orelse) else []), mk)
                out.append(ast.If(test=st.test, body=nb or [ast.Pass()], orelse=no))
                return out
            if isinstance(st, ast.Try):
                if rest:
                    raise NotInlinable('return inside try that is not the last statement')
                if st.orelse and contains_return(st.body):
                    raise NotInlinable('return in try body with else')
                if any(contains_return(x) for x in st.finalbody):
                    raise NotInlinable('return in finally')
                hs = [ast.ExceptHandler(type=h.type, name=h.name, body=self._conv(h.body, mk) or [ast.Pass()])
                      for h in st.handlers]
                out.append(ast.Try(body=self._conv(st.body, mk) or [ast.Pass()], handlers=hs,
                                   orelse=self._conv(st.orelse, mk), finalbody=st.finalbody))
                return out
            if isinstance(st, ast.With):
                if rest:
                    raise NotInlinable('return inside with that is not the last statement')
                out.append(ast.With(items=st.items, body=self._conv(st.body, mk) or [ast.Pass()]))
                return out
            raise NotInlinable('return inside a loop')
        return out

    def _note(self, ctx, callee, call):
        q = callee.qualname
        self.inlined.setdefault(q, set()).add(getattr(call, '_orig', id(call)))
        ctx['used'].add(q)

    def inline_call(self, call, resolved, ctx, mode, mk=None, target_name=None):
        """mode 'return': splice the body, returns stay; otherwise returns are rewritten with mk"""
        callee, node, receiver = resolved
        prelude, body = self._body_of(callee, node, call, receiver, ctx['locals'])
        if target_name is not None:
            # x = helper(...) where the helper builds and returns one local r: let r be x itself (no `x = r` alias left behind)
            rets = [n for st in body for n in ([st] if isinstance(st, ast.Return) else list(walk_no_nested(st))) if isinstance(n, ast.Return)]
            rn = {n.value.id for n in rets if isinstance(n.value, ast.Name)}
            used = {n.id for st in prelude + body for n in ast.walk(st) if isinstance(n, ast.Name)}
            if rets and len(rn) == 1 and all(isinstance(n.value, ast.Name) for n in rets) and target_name not in used:
                r = rn.pop()
                if '__i' in r:
                    for st in body:
                        for n in ast.walk(st):
                            if isinstance(n, ast.Name) and n.id == r:
                                n.id = target_name
        if falls_through(body):
            body = body + [ast.Return(value=ast.Constant(value=None))]
        if mode != 'return':
            try:
                body = self._conv(body, mk)
            except NotInlinable:
                # a `return` inside a loop over a literal table: unroll the helper's own literal loops first, then try again
                tmp = ast.FunctionDef(name='_tmp', args=ast.arguments(posonlyargs=[], args=[], kwonlyargs=[], kw_defaults=[], defaults=[]),
                                      body=body, decorator_list=[], lineno=1, col_offset=0)
                if not self._unroll_with_returns(tmp):
                    raise
                body = self._conv(tmp.body, mk)
        self._note(ctx, callee, call)
        return prelude + body

    def single_expr(self, node):
        body = node.body
        if body and isinstance(body[0], ast.Expr) and isinstance(body[0].value, ast.Constant) \
                and isinstance(body[0].value.value, str):
            body = body[1:]
        if len(body) == 1 and isinstance(body[0], ast.Return) and body[0].value is not None:
            return body[0].value
        return None

    # ------------------------------------------------------------------ statement walk
    def proc_block(self, stmts, ctx, depth):
        out = []
        for st in stmts:
            out.extend(self.proc_stmt(st, ctx, depth))
        return out

    def _sub_ctx(self, ctx, callee):
        c = dict(ctx)
        c['stack'] = ctx['stack'] | {callee.name}
        return c

    def proc_stmt(self, st, ctx, depth):
        if isinstance(st, (ast.FunctionDef, ast.AsyncFunctionDef)):
            st.body = self.proc_block(st.body, ctx, depth)
            return [st]
        if isinstance(st, ast.ClassDef):
            return [st]
        if isinstance(st, (ast.Assign, ast.AugAssign, ast.AnnAssign, ast.Expr, ast.Return)) and depth > 0:
            v = getattr(st, 'value', None)
            if isinstance(v, ast.Call):
                r = self.resolve(v, ctx)
                if r is not None and self.single_expr(r[1]) is None:
                    try:
                        if isinstance(st, ast.Return):
                            new = self.inline_call(v, r, ctx, 'return')
                        elif isinstance(st, ast.Expr):
                            new = self.inline_call(v, r, ctx, 'stmt', lambda e: (
                                [] if e is None or is_stable(e) else [ast.Expr(value=e)]))
                        elif isinstance(st, ast.Assign):
                            tg = st.targets
                            tname = tg[0].id if len(tg) == 1 and isinstance(tg[0], ast.Name) else None
                            new = self.inline_call(v, r, ctx, 'value', lambda e: [] if (
                                tname is not None and isinstance(e, ast.Name) and e.id == tname) else [ast.Assign(
                                    targets=clone(tg), value=e if e is not None else ast.Constant(value=None))], target_name=tname)
                        elif isinstance(st, ast.AugAssign):
                            tg, op = st.target, st.op
                            new = self.inline_call(v, r, ctx, 'value', lambda e: [ast.AugAssign(
                                target=clone(tg), op=op, value=e if e is not None else ast.Constant(value=None))])
                        else:
                            tg, an = st.target, st.annotation
                            new = self.inline_call(v, r, ctx, 'value', lambda e: [ast.AnnAssign(
                                target=clone(tg), annotation=an, value=e if e is not None else ast.Constant(value=None),
                                simple=st.simple)])
                        _relocate(new, st)
                        return self.proc_block(new, self._sub_ctx(ctx, r[0]), depth - 1)
                    except NotInlinable:
                        pass
        if isinstance(st, (ast.Assign, ast.AugAssign, ast.AnnAssign, ast.Expr, ast.Return, ast.Raise, ast.Assert,
                           ast.Delete)):
            return self._hoist(st, [f for f in st._fields], ctx, depth)
        if isinstance(st, ast.If):
            pre = self._hoist(st, ['test'], ctx, depth)
            st.body = self.proc_block(st.body, ctx, depth)
            st.orelse = self.proc_block(st.orelse, ctx, depth)
            return pre
        if isinstance(st, (ast.For, ast.AsyncFor)):
            pre = self._hoist(st, ['iter'], ctx, depth)
            st.body = self.proc_block(st.body, ctx, depth)
            st.orelse = self.proc_block(st.orelse, ctx, depth)
            return pre
        if isinstance(st, ast.While):
            self._hoist(st, ['test'], ctx, depth, subst_only=True)
            st.body = self.proc_block(st.body, ctx, depth)
            st.orelse = self.proc_block(st.orelse, ctx, depth)
            return [st]
        if isinstance(st, ast.Try):
            st.body = self.proc_block(st.body, ctx, depth)
            for h in st.handlers:
                h.body = self.proc_block(h.body, ctx, depth)
            st.orelse = self.proc_block(st.orelse, ctx, depth)
            st.finalbody = self.proc_block(st.finalbody, ctx, depth)
            return [st]
        if isinstance(st, (ast.With, ast.AsyncWith)):
            st.body = self.proc_block(st.body, ctx, depth)
            return [st]
        return [st]

    def _hoist(self, st, fields, ctx, depth, subst_only=False):
        """replace inlinable calls nested in the expressions of `st`; returns [hoisted..., st]"""
        if depth <= 0:
            return [st]
        norm = self
        pre = []

        class H(ast.NodeTransformer):
            cond = 1 if subst_only else 0

            def _cond(self, nodes):
                self.cond += 1
                try:
                    return [self.visit(n) for n in nodes]
                finally:
                    self.cond -= 1

            def visit_BoolOp(self, node):
                node.values = [self.visit(node.values[0])] + self._cond(node.values[1:])
                return node

            def visit_IfExp(self, node):
                node.test = self.visit(node.test)
                node.body, node.orelse = self._cond([node.body, node.orelse])
                return node

            def _scoped(self, node):
                self.cond += 1
                try:
                    self.generic_visit(node)
                finally:
                    self.cond -= 1
                return node
            visit_Lambda = visit_ListComp = visit_SetComp = visit_DictComp = visit_GeneratorExp = _scoped

            def visit_Call(self, node):
                self.generic_visit(node)
                r = norm.resolve(node, ctx)
                if r is None:
                    return node
                callee, fnode, receiver = r
                e = norm.single_expr(fnode)
                try:
                    if e is not None:
                        bound = norm._bind(callee, fnode, node, receiver)
                        e_bound = {n.arg for n in ast.walk(e) if isinstance(n, ast.arg)} | \
                            {n.id for n in ast.walk(e) if isinstance(n, ast.Name) and isinstance(n.ctx, ast.Store)}
                        e_free = {n.id for n in ast.walk(e) if isinstance(n, ast.Name) and isinstance(n.ctx, ast.Load)} - e_bound - set(bound)
                        if callee.kind != 'closure' and e_free & set(ctx['locals']):
                            return node
                        names = {n.id for n in ast.walk(e) if isinstance(n, ast.Name) and isinstance(n.ctx, ast.Store)}
                        names |= {n.arg for n in ast.walk(e) if isinstance(n, ast.arg)}
                        if names & set(bound):
                            return node
                        # an argument that is not a plain name / attribute / constant is evaluated exactly once by the call: the
                        # substitution must keep that (the parameter occurs once, outside any conditional or repeated context)
                        for p_, v_ in bound.items():
                            if is_stable(v_):
                                continue
                            occ = [n for n in ast.walk(e) if isinstance(n, ast.Name) and n.id == p_ and isinstance(n.ctx, ast.Load)]
                            if len(occ) != 1 or _in_conditional_context(e, occ[0]):
                                return node
                        norm.counter += 1
                        rename = {nm: '%s__i%d' % (nm, norm.counter) for nm in names}
                        new = _Subst(bound, rename).visit(clone(e))
                        norm._note(ctx, callee, node)
                        _relocate([new], st)
                        if depth > 1:
                            sub = norm._sub_ctx(ctx, callee)
                            holder = ast.copy_location(ast.Expr(value=new), st)
                            res = norm._hoist(holder, ['value'], sub, depth - 1, subst_only=self.cond > 0)
                            pre.extend(res[:-1])
                            new = holder.value
                        return new
                    if self.cond > 0:
                        return node
                    norm.counter += 1
                    tmp = '__inl%d' % norm.counter
                    body = norm.inline_call(node, r, ctx, 'value', lambda v: [ast.Assign(
                        targets=[ast.Name(id=tmp, ctx=ast.Store())],
                        value=v if v is not None else ast.Constant(value=None))])
                    _relocate(body, st)
                    # a helper that ends in `return <name / attribute>` on its only exit: use that expression, no temporary
                    n_tmp = sum(1 for b_ in body for x_ in ast.walk(b_) if isinstance(x_, ast.Name) and x_.id == tmp)
                    if body and n_tmp == 1 and isinstance(body[-1], ast.Assign) and len(body[-1].targets) == 1 \
                            and isinstance(body[-1].targets[0], ast.Name) and body[-1].targets[0].id == tmp and is_stable(body[-1].value) \
                            and not isinstance(body[-1].value, ast.Constant):
                        val_ = body[-1].value
                        pre.extend(norm.proc_block(body[:-1], norm._sub_ctx(ctx, callee), depth - 1))
                        return ast.copy_location(clone(val_), node)
                    pre.extend(norm.proc_block(body, norm._sub_ctx(ctx, callee), depth - 1))
                    return ast.copy_location(ast.Name(id=tmp, ctx=ast.Load()), node)
                except NotInlinable:
                    return node

        h = H()
        for f in fields:
            v = getattr(st, f, None)
            if isinstance(v, ast.AST):
                if isinstance(v, ast.expr):
                    setattr(st, f, h.visit(v))
            elif isinstance(v, list):
                setattr(st, f, [h.visit(x) if isinstance(x, ast.expr) else x for x in v])
        return pre + [st]

    # ------------------------------------------------------------------ N2 literal loops
    def _literal_of(self, e, fn, module_ok=False):
        if isinstance(e, (ast.Tuple, ast.List)):
            return e
        if isinstance(e, ast.Name):
            stores = [n for n in ast.walk(fn) if isinstance(n, ast.Name) and n.id == e.id
                      and isinstance(n.ctx, (ast.Store, ast.Del))]
            if not stores and module_ok and e.id not in {a.arg for a in ast.walk(fn) if isinstance(a, ast.arg)}:
                return self._module_literal(e.id)       # a module-level constant tuple that nothing re-binds (only used to make a helper inlinable)
            if len(stores) != 1:
                return None
            p = getattr(stores[0], '_p', None)
            if isinstance(p, ast.Assign) and len(p.targets) == 1 and p.targets[0] is stores[0] \
                    and isinstance(p.value, (ast.Tuple, ast.List)):
                # the name must only be read as a whole (no mutation through methods)
                for n in ast.walk(fn):
                    if isinstance(n, ast.Attribute) and isinstance(n.value, ast.Name) and n.value.id == e.id:
                        return None
                return p.value
        return None

    def _bind_target(self, target, elt):
        """-> dict name -> expr, or None"""
        if isinstance(target, ast.Name):
            return {target.id: elt}
        if isinstance(target, (ast.Tuple, ast.List)) and isinstance(elt, (ast.Tuple, ast.List)) \
                and len(target.elts) == len(elt.elts) and not any(isinstance(x, ast.Starred) for x in target.elts + elt.elts):
            out = {}
            for t, v in zip(target.elts, elt.elts):
                b = self._bind_target(t, v)
                if b is None:
                    return None
                out.update(b)
            return out
        return None

    def _unroll_with_returns(self, fn):
        """for t in <literal>: if c: return e   (a search that returns from inside the loop)  ->  if c1: return e1  elif c2: ..."""
        for n in ast.walk(fn):
            for c in ast.iter_child_nodes(n):
                c._p = n
        changed = [False]

        def do_block(stmts):
            out = []
            for st in stmts:
                for f in ('body', 'orelse', 'finalbody'):
                    if isinstance(getattr(st, f, None), list) and not isinstance(st, ast.ClassDef):
                        setattr(st, f, do_block(getattr(st, f)))
                if isinstance(st, ast.For) and not st.orelse:
                    lit = self._literal_of(st.iter, fn, module_ok=True)
                    jumps = [n for n in walk_no_nested(st.body) if isinstance(n, (ast.Break, ast.Continue)) and not _in_inner_loop(n, st)]
                    if lit is not None and lit.elts and len(lit.elts) <= MAX_UNROLL and not jumps \
                            and not any(isinstance(x, ast.Starred) for x in lit.elts):
                        binds = [self._bind_target(st.target, e) for e in lit.elts]
                        stored = {n.id for s_ in st.body for n in ast.walk(s_) if isinstance(n, ast.Name) and isinstance(n.ctx, ast.Store)}
                        if all(b is not None for b in binds) and not (set(binds[0]) & stored) and all(is_stable(v) for b in binds for v in b.values()):
                            for b in binds:
                                tr = _Subst(b, {})
                                out.extend(tr.visit(x) for x in clone(st.body))
                            # after the loop the targets keep the last element (only matters if the loop ran to completion)
                            out.append(ast.Assign(targets=[clone(st.target)], value=clone(lit.elts[-1])))
                            changed[0] = True
                            continue
                out.append(st)
            return out
        fn.body = do_block(fn.body)
        for n in ast.walk(fn):
            if not hasattr(n, 'lineno') and 'lineno' in n._attributes:
                n.lineno = n.end_lineno = 1
                n.col_offset = n.end_col_offset = 0
        return changed[0]

    def unroll(self, fn):
        for n in ast.walk(fn):
            for c in ast.iter_child_nodes(n):
                c._p = n
        changed = [False]

        def names_stored(stmts):
            return {n.id for s in stmts for n in ast.walk(s) if isinstance(n, ast.Name) and isinstance(n.ctx, ast.Store)}

        def used_after(name, loop):
            # is the loop variable read after the loop (anywhere later in the function)?
            ln = getattr(loop, 'end_lineno', None)
            for n in ast.walk(fn):
                if isinstance(n, ast.Name) and n.id == name and isinstance(n.ctx, ast.Load):
                    inside = any(n is x for x in ast.walk(loop))
                    if not inside:
                        return True
            return False

        def do_block(stmts):
            out = []
            for st in stmts:
                for f in ('body', 'orelse', 'finalbody'):
                    if isinstance(getattr(st, f, None), list) and not isinstance(st, (ast.ClassDef,)):
                        setattr(st, f, do_block(getattr(st, f)))
                if isinstance(st, ast.Try):
                    for h in st.handlers:
                        h.body = do_block(h.body)
                if not isinstance(st, ast.For):
                    out.append(st)
                    continue
                lit = self._literal_of(st.iter, fn)
                if lit is None or not lit.elts or len(lit.elts) > MAX_UNROLL or \
                        any(isinstance(x, ast.Starred) for x in lit.elts):
                    out.append(st)
                    continue
                binds = [self._bind_target(st.target, e) for e in lit.elts]
                if any(b is None for b in binds):
                    out.append(st)
                    continue
                tnames = set(binds[0])
                jumps = [n for n in walk_no_nested(st.body) if isinstance(n, (ast.Break, ast.Continue))
                         and not _in_inner_loop(n, st)]
                if jumps and all(isinstance(n, ast.Continue) for n in jumps) and not st.orelse:
                    try:
                        st.body = _elim_continue(st.body, st) or [ast.Pass()]
                        jumps = []
                    except NotInlinable:
                        pass
                # search form: for t in (...): if c: <stmts>; break  [else: ...]
                if len(st.body) == 1 and isinstance(st.body[0], ast.If) and not st.body[0].orelse \
                        and st.body[0].body and isinstance(st.body[0].body[-1], ast.Break) and len(jumps) == 1 \
                        and not (tnames & names_stored(st.body)):
                    chain = None
                    last = list(st.orelse)
                    if not last:
                        last = [ast.Assign(targets=[clone(st.target)], value=clone(lit.elts[-1]))]
                    for b, e in reversed(list(zip(binds, lit.elts))):
                        if not all(is_stable(v) for v in b.values()):
                            chain = None
                            break
                        tr = _Subst(b, {})
                        test = tr.visit(clone(st.body[0].test))
                        inner = [tr.visit(x) for x in clone(st.body[0].body[:-1])]
                        node = ast.If(test=test, body=[ast.Assign(targets=[clone(st.target)], value=clone(e))] + inner,
                                      orelse=last if chain is None else [chain])
                        chain = node
                    if chain is not None:
                        _relocate([chain], st)
                        out.append(chain)
                        changed[0] = True
                        continue
                    out.append(st)
                    continue
                if jumps or st.orelse:
                    out.append(st)
                    continue
                can_subst = not (tnames & names_stored(st.body)) and \
                    all(is_stable(v) for b in binds for v in b.values()) and \
                    not any(used_after(t, st) for t in tnames)
                new = []
                for b, e in zip(binds, lit.elts):
                    body = clone(st.body)
                    if can_subst:
                        tr = _Subst(b, {})
                        body = [tr.visit(x) for x in body]
                    else:
                        new.append(ast.Assign(targets=[clone(st.target)], value=clone(e)))
                    new.extend(body)
                _relocate(new, st)
                out.extend(new)
                changed[0] = True
            return out

        fn.body = do_block(fn.body)
        return changed[0]

    # ------------------------------------------------------------------ N5 / N6
    def literal_zip(self, fn):
        for n in ast.walk(fn):
            for c in ast.iter_child_nodes(n):
                c._p = n
        changed = [False]
        norm = self

        class T(ast.NodeTransformer):
            def visit_Call(self, node):
                self.generic_visit(node)
                if isinstance(node.func, ast.Name) and node.func.id == 'enumerate' and len(node.args) == 1 and not node.keywords:
                    lit = norm._literal_of(node.args[0], fn)
                    if lit is not None and lit.elts and len(lit.elts) <= MAX_UNROLL and all(is_stable(x) for x in lit.elts):
                        changed[0] = True
                        rows = [ast.Tuple(elts=[ast.Constant(value=i), clone(x)], ctx=ast.Load()) for i, x in enumerate(lit.elts)]
                        return ast.copy_location(ast.Tuple(elts=rows, ctx=ast.Load()), node)
                if isinstance(node.func, ast.Name) and node.func.id == 'zip' and len(node.args) >= 2 and not node.keywords:
                    cols = [norm._literal_of(a, fn) for a in node.args]
                    if all(c is not None for c in cols) and len({len(c.elts) for c in cols}) == 1 \
                            and not any(isinstance(x, ast.Starred) for c in cols for x in c.elts) \
                            and all(is_stable(x) for c in cols for x in c.elts):
                        changed[0] = True
                        rows = [ast.Tuple(elts=[clone(c.elts[i]) for c in cols], ctx=ast.Load()) for i in range(len(cols[0].elts))]
                        return ast.copy_location(ast.Tuple(elts=rows, ctx=ast.Load()), node)
                return node
        T().visit(fn)
        return changed[0]

    def dictcomp_loops(self, fn):
        for n in ast.walk(fn):
            for c in ast.iter_child_nodes(n):
                c._p = n
        changed = [False]

        def do_block(stmts):
            out = []
            for st in stmts:
                for f in ('body', 'orelse', 'finalbody'):
                    if isinstance(getattr(st, f, None), list) and not isinstance(st, ast.ClassDef):
                        setattr(st, f, do_block(getattr(st, f)))
                if isinstance(st, ast.Try):
                    for h in st.handlers:
                        h.body = do_block(h.body)
                if isinstance(st, ast.Assign) and len(st.targets) == 1 and isinstance(st.targets[0], ast.Name) \
                        and isinstance(st.value, ast.DictComp) and len(st.value.generators) == 1 \
                        and self._literal_of(st.value.generators[0].iter, fn) is not None:
                    g = st.value.generators[0]
                    name = st.targets[0].id
                    store = ast.Assign(targets=[ast.Subscript(value=ast.Name(id=name, ctx=ast.Load()), slice=st.value.key, ctx=ast.Store())],
                                       value=st.value.value)
                    body = [store]
                    for c in reversed(g.ifs):
                        body = [ast.If(test=c, body=body, orelse=[])]
                    loop = ast.For(target=g.target, iter=g.iter, body=body, orelse=[])
                    init = ast.Assign(targets=[ast.Name(id=name, ctx=ast.Store())], value=ast.Dict(keys=[], values=[]))
                    for x in (init, loop):
                        ast.copy_location(x, st)
                        ast.fix_missing_locations(x)
                    _relocate([init, loop], st)
                    out.extend([init, loop])
                    changed[0] = True
                    continue
                out.append(st)
            return out
        fn.body = do_block(fn.body)
        return changed[0]

    # ------------------------------------------------------------------ N9
    def literal_items(self, fn):
        for n in ast.walk(fn):
            for c in ast.iter_child_nodes(n):
                c._p = n
        changed = [False]
        norm = self

        class T(ast.NodeTransformer):
            def visit_Subscript(self, node):
                self.generic_visit(node)
                if isinstance(node.ctx, ast.Load) and isinstance(node.slice, ast.Constant) and isinstance(node.slice.value, int) \
                        and not isinstance(node.slice.value, bool) and isinstance(node.value, (ast.Name, ast.Tuple, ast.List)):
                    lit = norm._literal_of(node.value, fn) if isinstance(node.value, ast.Name) else node.value
                    if lit is not None and not any(isinstance(x, ast.Starred) for x in lit.elts) and -len(lit.elts) <= node.slice.value < len(lit.elts) \
                            and isinstance(lit, ast.Tuple) and all(is_stable(x) for x in lit.elts):
                        changed[0] = True
                        return ast.copy_location(clone(lit.elts[node.slice.value]), node)
                return node
        T().visit(fn)
        return changed[0]

    # ------------------------------------------------------------------ N10
    def call_aliases(self, fn):
        stores = {}
        for n in ast.walk(fn):
            if isinstance(n, ast.Name) and isinstance(n.ctx, (ast.Store, ast.Del)):
                stores[n.id] = stores.get(n.id, 0) + 1
        params = {a.arg for a in ast.walk(fn) if isinstance(a, ast.arg)}
        cand = {}
        for n in walk_no_nested(fn):
            if isinstance(n, ast.Assign) and len(n.targets) == 1 and isinstance(n.targets[0], ast.Name) and stores.get(n.targets[0].id) == 1 \
                    and n.targets[0].id not in params and isinstance(n.value, ast.Attribute) and is_stable(n.value):
                cand[n.targets[0].id] = n
        if not cand:
            return False
        # every load of the alias must be the func of a call
        for n in ast.walk(fn):
            for c in ast.iter_child_nodes(n):
                c._p = n
        for n in ast.walk(fn):
            if isinstance(n, ast.Name) and n.id in cand and isinstance(n.ctx, ast.Load):
                p_ = getattr(n, '_p', None)
                if not (isinstance(p_, ast.Call) and p_.func is n):
                    cand.pop(n.id, None)
        # aliases of builtins-like helpers (isa = isinstance, getfield = getattr) are Names, not attributes: left alone
        if not cand:
            return False
        changed = [False]

        class T(ast.NodeTransformer):
            def visit_Call(self, node):
                self.generic_visit(node)
                if isinstance(node.func, ast.Name) and node.func.id in cand:
                    node.func = clone(cand[node.func.id].value)
                    changed[0] = True
                return node
        T().visit(fn)
        return changed[0]

    # ------------------------------------------------------------------ N7
    def ifexp_statements(self, fn):
        changed = [False]

        def split(st):
            v = getattr(st, 'value', None)
            if not isinstance(v, ast.IfExp) or not isinstance(st, (ast.Assign, ast.Return, ast.AugAssign)):
                return [st]
            a, b = clone(st), clone(st)
            a.value, b.value = v.body, v.orelse
            node = ast.If(test=v.test, body=split(a), orelse=split(b))
            ast.copy_location(node, st)
            changed[0] = True
            return [node]

        def do_block(stmts):
            out = []
            for st in stmts:
                for f in ('body', 'orelse', 'finalbody'):
                    if isinstance(getattr(st, f, None), list) and not isinstance(st, ast.ClassDef):
                        setattr(st, f, do_block(getattr(st, f)))
                if isinstance(st, ast.Try):
                    for h in st.handlers:
                        h.body = do_block(h.body)
                out.extend(split(st))
            return out
        fn.body = do_block(fn.body)
        return changed[0]

    # ------------------------------------------------------------------ N8
    def _module_literal(self, name):
        m = self._cur_module
        if m is None:
            return None
        key = (m.rel, '#lit', name)
        if key not in self._tables:
            d = None
            defs = [st for st in m.tree.body if isinstance(st, ast.Assign) and any(isinstance(t, ast.Name) and t.id == name for t in st.targets)]
            if len(defs) == 1 and len(defs[0].targets) == 1 and isinstance(defs[0].value, ast.Tuple):
                rebound = any((isinstance(n, ast.Name) and n.id == name and isinstance(n.ctx, (ast.Store, ast.Del)) and n is not defs[0].targets[0])
                              or (isinstance(n, ast.Global) and name in n.names) for n in ast.walk(m.tree))
                if not rebound:
                    d = defs[0].value
            self._tables[key] = d
        return self._tables[key]

    def _module_table(self, name):
        m = self._cur_module
        if m is None:
            return None
        key = (m.rel, name)
        if key not in self._tables:
            d = None
            defs = [st for st in m.tree.body if isinstance(st, ast.Assign) and any(isinstance(t, ast.Name) and t.id == name for t in st.targets)]
            if len(defs) == 1 and len(defs[0].targets) == 1 and isinstance(defs[0].value, ast.Dict):
                mutated = False
                for n in ast.walk(m.tree):
                    if isinstance(n, ast.Name) and n.id == name and isinstance(n.ctx, (ast.Store, ast.Del)) and n is not defs[0].targets[0]:
                        mutated = True
                    if isinstance(n, ast.Subscript) and isinstance(n.ctx, (ast.Store, ast.Del)) and isinstance(n.value, ast.Name) and n.value.id == name:
                        mutated = True
                    if isinstance(n, ast.Call) and isinstance(n.func, ast.Attribute) and isinstance(n.func.value, ast.Name) and n.func.value.id == name \
                            and n.func.attr in ('update', 'pop', 'popitem', 'clear', 'setdefault', '__setitem__', '__delitem__'):
                        mutated = True
                    if isinstance(n, ast.Global) and name in n.names:
                        mutated = True
                if not mutated:
                    d = defs[0].value
            self._tables[key] = d
        return self._tables[key]

    def table_lookups(self, fn):
        for n in ast.walk(fn):
            for c in ast.iter_child_nodes(n):
                c._p = n
        changed = [False]

        def table_of(e):
            if isinstance(e, ast.Dict):
                d = e
            elif isinstance(e, ast.Name) and not any(isinstance(n, ast.Name) and n.id == e.id and isinstance(n.ctx, (ast.Store, ast.Del)) for n in ast.walk(fn)) \
                    and e.id not in {a.arg for a in ast.walk(fn) if isinstance(a, ast.arg)}:
                d = self._module_table(e.id)         # a module-level constant table that nothing in the module mutates
                if d is None:
                    return None
            elif isinstance(e, ast.Name):
                stores = [n for n in ast.walk(fn) if isinstance(n, ast.Name) and n.id == e.id and isinstance(n.ctx, (ast.Store, ast.Del))]
                if len(stores) != 1:
                    return None
                p = getattr(stores[0], '_p', None)
                if not (isinstance(p, ast.Assign) and len(p.targets) == 1 and isinstance(p.value, ast.Dict)):
                    return None
                if any(isinstance(n, ast.Subscript) and isinstance(n.ctx, (ast.Store, ast.Del)) and isinstance(n.value, ast.Name) and n.value.id == e.id
                       for n in ast.walk(fn)):
                    return None
                d = p.value
            else:
                return None
            if not d.keys or len(d.keys) > MAX_UNROLL or any(k is None or not isinstance(k, ast.Constant) for k in d.keys):
                return None
            return d

        def lookup(v):
            """-> (table, key expr, default expr or None for KeyError)"""
            if isinstance(v, ast.Call) and isinstance(v.func, ast.Attribute) and v.func.attr == 'get' and 1 <= len(v.args) <= 2 and not v.keywords:
                t = table_of(v.func.value)
                if t is not None:
                    return t, v.args[0], (v.args[1] if len(v.args) == 2 else ast.Constant(value=None))
            if isinstance(v, ast.Subscript) and isinstance(v.ctx, ast.Load):
                t = table_of(v.value)
                if t is not None:
                    return t, v.slice, None
            return None

        def split(st):
            v = getattr(st, 'value', None)
            if v is None or not isinstance(st, (ast.Assign, ast.Return)):
                return [st]
            lk = lookup(v)
            if lk is None:
                return [st]
            t, key, default = lk
            pre = []
            if not is_stable(key):
                self.counter += 1
                kn = '__key%d' % self.counter
                pre.append(ast.Assign(targets=[ast.Name(id=kn, ctx=ast.Store())], value=key))
                key = ast.Name(id=kn, ctx=ast.Load())
            if default is None:
                last = [ast.Raise(exc=ast.Call(func=ast.Name(id='KeyError', ctx=ast.Load()), args=[clone(key)], keywords=[]), cause=None)]
            else:
                d_ = clone(st)
                d_.value = default
                last = [d_]
            chain = last
            for k, val in reversed(list(zip(t.keys, t.values))):
                b = clone(st)
                b.value = clone(val)
                chain = [ast.If(test=ast.Compare(left=clone(key), ops=[ast.Eq()], comparators=[clone(k)]), body=[b], orelse=chain)]
            out = pre + chain
            for x in out:
                ast.copy_location(x, st)
                ast.fix_missing_locations(x)
            _relocate(out, st)
            changed[0] = True
            return out

        def do_block(stmts):
            out = []
            for st in stmts:
                for f in ('body', 'orelse', 'finalbody'):
                    if isinstance(getattr(st, f, None), list) and not isinstance(st, ast.ClassDef):
                        setattr(st, f, do_block(getattr(st, f)))
                if isinstance(st, ast.Try):
                    for h in st.handlers:
                        h.body = do_block(h.body)
                out.extend(split(st))
            return out
        fn.body = do_block(fn.body)
        return changed[0]

    def drop_dead_closures(self, fn, closures):
        """a nested function whose every call was inlined is no longer referenced: remove its definition"""
        refs = {}
        for n in ast.walk(fn):
            if isinstance(n, ast.Name) and n.id in closures:
                refs[n.id] = refs.get(n.id, 0) + 1
        dead = {k for k in closures if not refs.get(k)}
        if not dead:
            return False
        removed = [False]

        def do_block(stmts):
            out = []
            for st in stmts:
                if isinstance(st, ast.FunctionDef) and st.name in dead:
                    removed[0] = True
                    continue
                for f in ('body', 'orelse', 'finalbody'):
                    if isinstance(getattr(st, f, None), list) and not isinstance(st, (ast.ClassDef, ast.FunctionDef)):
                        b = do_block(getattr(st, f))
                        setattr(st, f, b if (b or f != 'body') else [ast.Pass()])
                if isinstance(st, ast.Try):
                    for h in st.handlers:
                        h.body = do_block(h.body) or [ast.Pass()]
                out.append(st)
            return out
        fn.body = do_block(fn.body) or [ast.Pass()]
        return removed[0]

    # ------------------------------------------------------------------ N3 setattr / getattr
    def attr_forms(self, fn):
        changed = [False]

        class T(ast.NodeTransformer):
            def visit_Expr(self, node):
                self.generic_visit(node)
                v = node.value
                if isinstance(v, ast.Call) and isinstance(v.func, ast.Name) and v.func.id == 'setattr' \
                        and len(v.args) == 3 and not v.keywords and isinstance(v.args[1], ast.Constant) \
                        and isinstance(v.args[1].value, str) and v.args[1].value.isidentifier():
                    changed[0] = True
                    return ast.copy_location(ast.Assign(
                        targets=[ast.Attribute(value=v.args[0], attr=v.args[1].value, ctx=ast.Store())],
                        value=v.args[2]), node)
                return node

            def visit_Call(self, node):
                self.generic_visit(node)
                if isinstance(node.func, ast.Name) and node.func.id == 'getattr' and len(node.args) == 2 \
                        and not node.keywords and isinstance(node.args[1], ast.Constant) \
                        and isinstance(node.args[1].value, str) and node.args[1].value.isidentifier():
                    changed[0] = True
                    return ast.copy_location(ast.Attribute(value=node.args[0], attr=node.args[1].value, ctx=ast.Load()),
                                             node)
                return node

        T().visit(fn)
        return changed[0]

    # ------------------------------------------------------------------ N4 append loops
    def append_loops(self, fn):
        changed = [False]

        def mentions(node, name):
            return any(isinstance(n, ast.Name) and n.id == name for n in ast.walk(node))

        def do_block(stmts):
            for st in stmts:
                for f in ('body', 'orelse', 'finalbody'):
                    if isinstance(getattr(st, f, None), list) and not isinstance(st, ast.ClassDef):
                        setattr(st, f, do_block(getattr(st, f)))
                if isinstance(st, ast.Try):
                    for h in st.handlers:
                        h.body = do_block(h.body)
            out = list(stmts)
            i = 0
            while i < len(out):
                st = out[i]
                if isinstance(st, ast.Assign) and len(st.targets) == 1 and isinstance(st.targets[0], ast.Name) \
                        and isinstance(st.value, ast.List) and not st.value.elts:
                    acc = st.targets[0].id
                    j = i + 1
                    while j < len(out) and not mentions(out[j], acc):
                        j += 1
                    if j < len(out) and isinstance(out[j], ast.For) and not out[j].orelse \
                            and not mentions(out[j].iter, acc) and not mentions(out[j].target, acc):
                        loop = out[j]
                        body = loop.body
                        conds = []
                        while len(body) == 1 and isinstance(body[0], ast.If) and not body[0].orelse:
                            conds.append(body[0].test)
                            body = body[0].body
                        if len(body) == 1 and isinstance(body[0], ast.Expr) and isinstance(body[0].value, ast.Call) \
                                and isinstance(body[0].value.func, ast.Attribute) \
                                and body[0].value.func.attr == 'append' \
                                and isinstance(body[0].value.func.value, ast.Name) \
                                and body[0].value.func.value.id == acc and len(body[0].value.args) == 1 \
                                and not mentions(body[0].value.args[0], acc) \
                                and not any(mentions(c, acc) for c in conds):
                            comp = ast.ListComp(elt=body[0].value.args[0], generators=[ast.comprehension(
                                target=loop.target, iter=loop.iter, ifs=conds, is_async=0)])
                            new = ast.copy_location(ast.Assign(targets=[st.targets[0]], value=comp), loop)
                            ast.fix_missing_locations(new)
                            out[j] = new
                            del out[i]
                            changed[0] = True
                            continue
                i += 1
            return out

        fn.body = do_block(fn.body)
        return changed[0]

    # ------------------------------------------------------------------ entry
    def normalize(self, f):
        node = f._node if hasattr(f, '_node') else f.node
        self._cur_module = f.module
        # pre-scan: which transformations can apply at all
        kinds = set()
        names = set()
        maybe_call = False
        has_get = False
        has_alias = False
        fnames = f.module.functions
        for n in ast.walk(node):
            kinds.add(type(n))
            if isinstance(n, ast.Attribute) and n.attr == 'get' and isinstance(n.value, ast.Name):
                has_get = True
            if isinstance(n, ast.Assign) and len(n.targets) == 1 and isinstance(n.targets[0], ast.Name) and isinstance(n.value, ast.Attribute):
                has_alias = True
            if isinstance(n, ast.Name):
                names.add(n.id)
            elif isinstance(n, ast.Call):
                fu = n.func
                if isinstance(fu, ast.Name):
                    if fu.id in fnames and fu.id not in self.protect:
                        maybe_call = True
                elif isinstance(fu, ast.Attribute) and isinstance(fu.value, ast.Name) and f.cls is not None and fu.attr.startswith('_') \
                        and fu.attr not in self.protect:
                    maybe_call = True
            elif isinstance(n, (ast.FunctionDef, ast.AsyncFunctionDef)) and n is not node:
                maybe_call = True
        if ast.Dict in kinds:
            maybe_call = maybe_call or False
        want = {
            'dict': ast.Dict in kinds,
            'zip': 'zip' in names or 'enumerate' in names,
            'dictcomp': ast.DictComp in kinds,
            'unroll': ast.For in kinds,
            'attr': 'setattr' in names or 'getattr' in names,
            'append': ast.For in kinds and ast.List in kinds,
            'ifexp': ast.IfExp in kinds,
        }
        if not maybe_call and not any(want.values()) and not has_get and not has_alias:
            return node
        fn = clone(node)
        params = [x.arg for x in fn.args.posonlyargs + fn.args.args]
        local = set(params) | {x.arg for x in fn.args.kwonlyargs}
        for n in ast.walk(fn):
            if isinstance(n, ast.Name) and isinstance(n.ctx, (ast.Store, ast.Del)):
                local.add(n.id)
            elif isinstance(n, (ast.FunctionDef, ast.AsyncFunctionDef)) and n is not fn:
                local.add(n.name)
        closures = {}
        counts = {}
        for n in walk_no_nested(fn):
            if isinstance(n, ast.FunctionDef):
                counts[n.name] = counts.get(n.name, 0) + 1
                closures[n.name] = n
        stored_names = {n.id for n in ast.walk(fn) if isinstance(n, ast.Name) and isinstance(n.ctx, (ast.Store, ast.Del))}
        closures = {k: _Closure(v, f) for k, v in closures.items() if counts[k] == 1 and k not in stored_names and k not in params}
        ctx = {'outer': f, 'locals': local, 'stack': frozenset([f.name]), 'used': set(), 'closures': closures,
               'self': params[0] if params and f.cls is not None and f.kind in ('method', 'getter', 'setter', 'class') else None}
        if ctx['self'] and any(isinstance(n, ast.Name) and n.id == ctx['self'] and isinstance(n.ctx, ast.Store)
                               for n in ast.walk(fn)):
            ctx['self'] = None
        ch0 = False
        if maybe_call and want['ifexp']:
            # x = f(a) if c else g(a): a helper call in an arm can only be replaced by its body once the arm is a statement
            ch0 = self.ifexp_statements(fn)
        if maybe_call:
            fn.body = self.proc_block(fn.body, ctx, MAX_DEPTH)
        ch = bool(ctx['used']) or ch0
        if ctx['used']:
            want = {k: True for k in want}      # inlined bodies may bring any of the shapes
        if want['zip']:
            ch |= self.literal_zip(fn)
        if want['dictcomp']:
            if self.dictcomp_loops(fn):
                ch = True
                want['unroll'] = True        # the pass has just introduced a loop over a literal
        if want['unroll']:
            ch |= self.unroll(fn)
        if ch or want['unroll']:
            ch |= self.literal_items(fn)
        if want['attr']:
            ch |= self.attr_forms(fn)
        if want['append']:
            ch |= self.append_loops(fn)
        if want['ifexp']:
            ch |= self.ifexp_statements(fn)
        if has_alias or ch:
            ch |= self.call_aliases(fn)
        if ast.Dict in kinds or ch or has_get:
            ch |= self.table_lookups(fn)
        if closures:
            ch |= self.drop_dead_closures(fn, closures)
        if not ch:
            return node
        ast.fix_missing_locations(fn)
        for n in ast.walk(fn):
            for c in ast.iter_child_nodes(n):
                c._parent = n
        fn._parent = getattr(node, '_parent', None)
        fn._normalized_from = node
        self.log[f.qualname] = sorted(ctx['used'])
        return fn


def _in_conditional_context(root, node):
    """is `node` evaluated only sometimes, or more than once, when `root` is evaluated (arm of a conditional expression, right operand of
    and/or, element of a comprehension, body of a lambda)?"""
    def find(cur, cond):
        if cur is node:
            return cond
        if isinstance(cur, ast.IfExp):
            parts = [(cur.test, cond), (cur.body, True), (cur.orelse, True)]
        elif isinstance(cur, ast.BoolOp):
            parts = [(cur.values[0], cond)] + [(v, True) for v in cur.values[1:]]
        elif isinstance(cur, (ast.ListComp, ast.SetComp, ast.GeneratorExp, ast.DictComp)):
            first = cur.generators[0].iter
            parts = [(first, cond)] + [(c, True) for c in ast.iter_child_nodes(cur) if c is not cur.generators[0]] + \
                [(c, True) for c in ast.iter_child_nodes(cur.generators[0]) if c is not first]
        elif isinstance(cur, ast.Lambda):
            parts = [(c, True) for c in ast.iter_child_nodes(cur)]
        else:
            parts = [(c, cond) for c in ast.iter_child_nodes(cur)]
        for c, k in parts:
            r = find(c, k)
            if r is not None:
                return r
        return None
    return bool(find(root, False))


def _elim_continue(stmts, loop):
    """the loop body with `continue` replaced by structured control flow (what follows a guard moves into its else branch)"""
    out = []
    for i, st in enumerate(stmts):
        rest = stmts[i + 1:]
        if isinstance(st, ast.Continue):
            return out
        has = any(isinstance(n, ast.Continue) and not _in_inner_loop(n, loop) for n in ([st] if isinstance(st, ast.Continue) else walk_no_nested(st)))
        if not has:
            out.append(st)
            continue
        if isinstance(st, ast.If):
            nb = _elim_continue(st.body + (clone(rest) if falls_through(st.body) else []), loop)
            no = _elim_continue(st.orelse + (clone(rest) if falls_through(st.orelse) else []), loop)
            out.append(ast.copy_location(ast.If(test=st.test, body=nb or [ast.Pass()], orelse=no), st))
            return out
        raise NotInlinable('continue inside try/with/loop')
    return out


def _in_inner_loop(n, loop):
    # is break/continue `n` bound to a loop nested inside `loop`?
    def find(node, inner):
        for c in ast.iter_child_nodes(node):
            if c is n:
                return inner
            if isinstance(c, (ast.FunctionDef, ast.AsyncFunctionDef, ast.ClassDef, ast.Lambda)):
                continue
            r = find(c, inner or isinstance(c, (ast.For, ast.While, ast.AsyncFor)))
            if r is not None:
                return r
        return None
    r = False
    for st in loop.body:
        if st is n:
            return False
        x = find(st, isinstance(st, (ast.For, ast.While)))
        if x is not None:
            return x
    return r
